#![allow(clippy::mutable_key_type)]
#![allow(dead_code, unused_imports)]

// The repository's own module tree, compiled from /repo's current working tree.
#[path = "/repo/src/config.rs"]
mod config;
#[path = "/repo/src/error.rs"]
mod error;
#[path = "/repo/src/protocols/mod.rs"]
mod protocols;
#[path = "/repo/src/service.rs"]
mod service;
#[path = "/repo/src/storage.rs"]
mod storage;
#[path = "/repo/src/subcmds.rs"]
mod subcmds;
#[path = "/repo/src/types.rs"]
mod types;
#[path = "/repo/src/utils/mod.rs"]
mod utils;
#[path = "/repo/src/verify.rs"]
mod verify;
#[path = "/repo/src/verif_hooks.rs"]
mod verif_hooks;

mod verif;

fn main() {
    verif::main();
}

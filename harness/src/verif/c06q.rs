//! C06 — the filter hashes the peers agree on: function-level differential of
//! `Peers::get_latest_block_filter_hashes` with `Quorum.latestAgreed?` (Lean layer `quorum`, op
//! `latestmo`).  Random tables of proven peers (plus unproven peers and proven peers on another
//! check point, which the function must ignore) whose latest filter hashes are installed into a
//! real `Peers` through `update_latest_block_filter_hashes`: lists built from a common "truth"
//! list with deviations (another hash from some index on, alone or in collusion; truncated lists;
//! a list that diverges and re-joins; all-different lists; two groups of equal size).  The
//! tie-break of the implementation (`HashMap` order) is a choice: the implementation's own result
//! is sent to the model as `choices`, the model validates each of them (a maximal-count hash) and
//! recomputes everything else (length bound, quorum, `retain`).  Independent oracle on the
//! implementation's result: every returned prefix is held entirely by at least
//! `required_peers_count()` proven peers on the finalized check point
//! (`C06|latest-hash-without-quorum`).

use ckb_network::PeerIndex;
use ckb_types::{packed, prelude::*, U256};

use super::env::{header, verifiable};
use super::{catch, fnv, run_model, Options, Report, Rng};
use crate::protocols::light_client::{LastState, ProveRequest, ProveState};
use crate::protocols::Peers;

const MAX_LEN: u64 = 12;

fn id_to_hash(id: u64) -> packed::Byte32 {
    let mut b = [0u8; 32];
    b[..8].copy_from_slice(&id.to_le_bytes());
    b[31] = 0xC6;
    b.pack()
}

fn hash_to_id(h: &packed::Byte32) -> u64 {
    let s = h.as_slice();
    let mut b = [0u8; 8];
    b.copy_from_slice(&s[..8]);
    u64::from_le_bytes(b)
}

/// the chain's filter hash of the `i`-th block after the check point
fn truth(i: u64) -> u64 {
    100 + i
}

#[derive(Clone, Debug, PartialEq)]
enum Kind {
    /// proven, on the queried check point
    Proven,
    /// has hashes but no prove state
    Unproven,
    /// proven, its latest hashes belong to the next check point
    OtherCheckPoint,
}

#[derive(Clone, Debug)]
struct PeerSpec {
    pid: u64,
    kind: Kind,
    hashes: Vec<u64>,
    /// install the hashes with two messages, the second continuing the first
    split_at: Option<usize>,
}

#[derive(Clone, Debug)]
struct Table {
    max_outbound: u32,
    interval: u64,
    /// index of the check point the `Peers` table starts from
    start_index: u32,
    /// index the function is asked for
    query_index: u32,
    shape: &'static str,
    peers: Vec<PeerSpec>,
}

fn list_of(r: &mut Rng, pid: u64, shape: u64, dev_from: u64, group_b: bool) -> Vec<u64> {
    let len = r.range(0, MAX_LEN);
    let honest = |n: u64| -> Vec<u64> { (0..n).map(truth).collect() };
    match shape {
        // independent behaviours
        0 => match r.below(10) {
            0 | 1 | 2 | 3 => honest(len),
            // another hash from some index on, alone
            4 => {
                let d = r.below(len + 1);
                (0..len).map(|i| if i >= d { 1000 + pid * 50 + i } else { truth(i) }).collect()
            }
            // another hash from some index on, together with every other colluding peer
            5 | 6 => (0..len).map(|i| if i >= dev_from { 500 + i } else { truth(i) }).collect(),
            // diverges and re-joins
            7 => {
                let d = r.below(len + 1);
                let e = d + r.range(1, 3);
                (0..len)
                    .map(|i| if i >= d && i < e { 700 + (pid % 2) * 50 + i } else { truth(i) })
                    .collect()
            }
            // a single wrong hash held together with the colluding peers, then the truth again
            8 => (0..len).map(|i| if i == dev_from { 500 + i } else { truth(i) }).collect(),
            _ => (0..len).map(|i| 2000 + pid * 50 + i).collect(),
        },
        // two groups: the truth against one other chain from `dev_from` on (the generator makes the
        // groups equally large for some tables)
        1 => {
            let len = if r.chance(1, 3) { len } else { r.range(dev_from.min(MAX_LEN), MAX_LEN) };
            if group_b {
                (0..len).map(|i| if i >= dev_from { 500 + i } else { truth(i) }).collect()
            } else {
                honest(len)
            }
        }
        // all different
        2 => (0..len).map(|i| 2000 + pid * 50 + i).collect(),
        // all honest, lengths differ
        3 => honest(len),
        // one long honest list, one long made-up list, everybody else short
        _ => {
            if pid == 1 {
                honest(r.range(dev_from.min(MAX_LEN), MAX_LEN))
            } else if pid == 2 {
                let len = r.range(dev_from.min(MAX_LEN), MAX_LEN);
                (0..len).map(|i| if i >= dev_from { 500 + i } else { truth(i) }).collect()
            } else {
                honest(r.below(dev_from + 1).min(MAX_LEN))
            }
        }
    }
}

fn gen_table(seed: u64) -> Table {
    let mut r = Rng::new(seed ^ fnv("C06-latestq-table"));
    let max_outbound = r.range(1, 6) as u32;
    let interval = *r.pick(&[4u64, 8, 16, 2000]);
    let start_index = r.below(4) as u32;
    let shape = r.below(5);
    let n_proven = r.range(1, 6);
    let dev_from = r.below(MAX_LEN);
    let mut peers = Vec::new();
    let mut pid = 0;
    for k in 0..n_proven {
        pid += 1;
        let group_b = if shape == 1 { k % 2 == 1 } else { false };
        let hashes = list_of(&mut r, pid, shape, dev_from, group_b);
        let split_at = if hashes.len() >= 2 && r.chance(1, 4) {
            Some(r.range(1, hashes.len() as u64 - 1) as usize)
        } else {
            None
        };
        peers.push(PeerSpec { pid, kind: Kind::Proven, hashes, split_at });
    }
    for _ in 0..r.below(3) {
        pid += 1;
        // what an ignored peer holds would change the answer if it were counted: mostly the
        // colluders' chain or the truth, full length
        let hashes: Vec<u64> = match r.below(3) {
            0 => (0..MAX_LEN).map(truth).collect(),
            1 => (0..MAX_LEN).map(|i| if i >= dev_from { 500 + i } else { truth(i) }).collect(),
            _ => list_of(&mut r, pid, 0, dev_from, false),
        };
        let kind = if r.chance(1, 2) { Kind::Unproven } else { Kind::OtherCheckPoint };
        peers.push(PeerSpec { pid, kind, hashes, split_at: None });
    }
    // installation order = insertion order into the DashMap; shuffle
    for i in (1..peers.len()).rev() {
        let j = r.below(i as u64 + 1) as usize;
        peers.swap(i, j);
    }
    let query_index = if r.chance(1, 10) { start_index + 1 } else { start_index };
    Table {
        max_outbound,
        interval,
        start_index,
        query_index,
        shape: ["mixed", "two-groups", "all-different", "all-honest", "minority"][shape as usize],
        peers,
    }
}

fn ids_text(ids: &[u64]) -> String {
    ids.iter().map(|c| c.to_string()).collect::<Vec<_>>().join(" ")
}

fn table_text(seed: u64, t: &Table) -> Vec<String> {
    let mut v = vec![
        format!("latestq-seed {}", seed),
        format!(
            "# max_outbound {} (required {}) interval {} peers start at check point {} asked for {} shape {}",
            t.max_outbound,
            (t.max_outbound + 1) / 2,
            t.interval,
            t.start_index,
            t.query_index,
            t.shape
        ),
    ];
    for p in &t.peers {
        v.push(format!("# peer {} {:?} : {}", p.pid, p.kind, ids_text(&p.hashes)));
    }
    v
}

fn prove(peers: &Peers, p: PeerIndex, pid: u64) {
    let vh = verifiable(
        header(1_000_000, 0, 0, &packed::Byte32::zero(), pid),
        &U256::from(1u32),
    );
    let ls = LastState::new(vh);
    peers.request_last_state(p).unwrap();
    peers.update_last_state(p, ls.clone()).unwrap();
    let req = ProveRequest::new(ls, Default::default());
    peers.update_prove_request(p, req.clone()).unwrap();
    peers
        .update_prove_state(p, ProveState::new_from_request(req, vec![], vec![]))
        .unwrap();
}

/// installs the table into a real `Peers`; `Err` = the installation itself did not go as planned
/// (a harness problem or a change of `update_latest_block_filter_hashes`)
fn install(t: &Table) -> Result<Peers, String> {
    let cp = id_to_hash(7);
    let next_cp = id_to_hash(8);
    let peers = Peers::new(t.max_outbound, t.interval, (t.start_index, cp.clone()));
    let last_proved: u64 = 1_000_000;
    for spec in &t.peers {
        let p = PeerIndex::new(spec.pid as usize);
        peers.add_peer(p);
        if spec.kind != Kind::Unproven {
            prove(&peers, p, spec.pid);
        }
        let (fin_index, fin_cp) = if spec.kind == Kind::OtherCheckPoint {
            // move the peer's check points (and with them its latest hashes) to the next index
            let start_number = t.interval * t.start_index as u64;
            peers
                .add_check_points(p, last_proved, start_number, &[cp.clone(), next_cp.clone()])
                .map_err(|e| format!("add_check_points for peer {}: {}", spec.pid, e))?;
            peers.remove_first_n_check_points(p, 1);
            (t.start_index + 1, next_cp.clone())
        } else {
            (t.start_index, cp.clone())
        };
        let fin_number = t.interval * fin_index as u64;
        let hashes: Vec<packed::Byte32> = spec.hashes.iter().map(|h| id_to_hash(*h)).collect();
        let parts: Vec<(usize, usize)> = match spec.split_at {
            Some(a) => vec![(0, a), (a, hashes.len())],
            None => vec![(0, hashes.len())],
        };
        for (from, to) in parts {
            if from == to {
                continue;
            }
            let parent = if from == 0 { fin_cp.clone() } else { hashes[from - 1].clone() };
            peers
                .update_latest_block_filter_hashes(
                    p,
                    last_proved,
                    fin_index,
                    &fin_cp,
                    fin_number + 1 + from as u64,
                    &parent,
                    &hashes[from..to],
                )
                .map_err(|e| format!("update_latest_block_filter_hashes for peer {}: {}", spec.pid, e))?;
        }
    }
    Ok(peers)
}

fn parse_seeds(text: &str) -> Vec<u64> {
    text.lines()
        .filter_map(|l| {
            let t: Vec<&str> = l.split_whitespace().collect();
            if t.first() == Some(&"latestq-seed") {
                t.get(1).and_then(|x| x.parse().ok())
            } else {
                None
            }
        })
        .collect()
}

pub fn run(opts: &Options) -> Report {
    let mut rep = Report::default();
    rep.rule = "function level, Peers::get_latest_block_filter_hashes: tables of 1..6 proven peers \
        (+ 0..2 unproven peers / proven peers whose latest hashes belong to the next check point, \
        holding hashes that would change the answer if they were counted), max outbound 1..6 \
        (quorum 1..3), check point interval 4 / 8 / 16 / 2000, start check point 0..3, hash lists of \
        length 0..12 built from a common list: honest prefixes, another hash from an index on (alone \
        / colluding), diverge-and-rejoin, a single colluding wrong hash, all-different lists, two \
        groups of equal size, one long honest + one long made-up list with everybody else short; \
        installed with update_latest_block_filter_hashes (one or two messages) into a real Peers; \
        the result is compared with Quorum.latestAgreed? (op latestmo, the implementation's result \
        as the tie-break choices: a returned hash that is not a maximal-count hash of the remaining \
        peers is `bad-choice`, everything else is recomputed); oracle: every returned prefix is held \
        entirely by at least required_peers_count() proven peers on the asked check point; \
        non-trivial = at least quorum-many peers with data that do not all hold the same list; \
        distinct = (seed)"
        .into();
    let seeds: Vec<u64> = if let Some(p) = &opts.replay {
        parse_seeds(&std::fs::read_to_string(p).expect("replay"))
    } else {
        let mut rng = Rng::new(opts.seed ^ fnv("C06-latestq"));
        let n = if opts.thorough() { 100_000 } else { 2_000 };
        (0..n).map(|_| rng.next() >> 1).collect()
    };
    let mut lines: Vec<String> = Vec::new();
    let mut impls: Vec<String> = Vec::new();
    let mut owners: Vec<u64> = Vec::new();
    for seed in seeds.iter() {
        let t = gen_table(*seed);
        rep.evaluations += 1;
        rep.count_op("latest");
        rep.count_class(&format!("shape:{}", t.shape));
        let required = ((t.max_outbound + 1) / 2) as usize;
        let peers = match catch(|| install(&t)) {
            Ok(Ok(p)) => p,
            Ok(Err(e)) => {
                rep.disagree(&format!("install [latestq-seed {}]", seed), &e, "ok");
                continue;
            }
            Err(msg) => {
                rep.disagree(&format!("install [latestq-seed {}]", seed), &format!("panic: {}", msg), "ok");
                continue;
            }
        };
        // what the function has to work on, by the harness' own book-keeping
        let mut data: Vec<(u64, Vec<u64>)> = t
            .peers
            .iter()
            .filter(|p| match p.kind {
                Kind::Proven => t.query_index == t.start_index,
                Kind::OtherCheckPoint => t.query_index == t.start_index + 1,
                Kind::Unproven => false,
            })
            .map(|p| (p.pid, p.hashes.clone()))
            .collect();
        data.sort();
        let result = catch(|| peers.get_latest_block_filter_hashes(t.query_index));
        let table = data
            .iter()
            .map(|(pid, hs)| format!("{} : {}", pid, ids_text(hs)))
            .collect::<Vec<_>>()
            .join(" ; ");
        let (imp, ids) = match &result {
            Ok(hs) => {
                let ids: Vec<u64> = hs.iter().map(hash_to_id).collect();
                (
                    std::iter::once("ok".to_string())
                        .chain(ids.iter().map(|c| c.to_string()))
                        .collect::<Vec<_>>()
                        .join(" "),
                    ids,
                )
            }
            Err(msg) => (format!("panic: {}", msg), Vec::new()),
        };
        if result.is_err() {
            rep.violate(
                "C06|abort|get_latest_block_filter_hashes",
                &format!("get_latest_block_filter_hashes aborts: {}", imp),
                table_text(*seed, &t),
            );
        }
        lines.push(format!("latestmo {} | {} | {}", t.max_outbound, ids_text(&ids), table));
        impls.push(imp.clone());
        owners.push(*seed);
        // ---------------- oracle (implementation only)
        for i in 0..ids.len() {
            let holders = data.iter().filter(|(_, hs)| hs.starts_with(&ids[..=i])).count();
            if holders < required {
                let mut replay = table_text(*seed, &t);
                replay.push(format!(
                    "# returned: {} ; the first {} of them are held by {} of the proven peers on the check point, quorum is {}",
                    ids_text(&ids),
                    i + 1,
                    holders,
                    required
                ));
                rep.violate(
                    "C06|latest-hash-without-quorum",
                    &format!(
                        "get_latest_block_filter_hashes returns {} hashes, the first {} of which are held by {} proven peers on the finalized check point; the quorum is {}",
                        ids.len(),
                        i + 1,
                        holders,
                        required
                    ),
                    replay,
                );
                break;
            }
        }
        // ---------------- coverage
        let longest = data.iter().map(|(_, hs)| hs.len()).max().unwrap_or(0);
        let all_same = data.windows(2).all(|w| w[0].1 == w[1].1);
        if data.len() >= required && !all_same {
            rep.nontrivial.insert(*seed);
        }
        let class = if data.len() < required {
            "result:too-few-peers"
        } else if ids.is_empty() {
            if longest == 0 { "result:empty-no-hashes" } else { "result:empty-no-quorum" }
        } else if ids.len() == longest {
            "result:longest-list"
        } else {
            "result:cut"
        };
        rep.count_class(class);
        if !ids.is_empty() {
            // a tie at some returned index among the peers that hold the prefix before it
            let tie = (0..ids.len()).any(|i| {
                let holders: Vec<&Vec<u64>> = data
                    .iter()
                    .filter(|(_, hs)| hs.starts_with(&ids[..i]))
                    .map(|(_, hs)| hs)
                    .collect();
                let mine = holders.iter().filter(|hs| hs.get(i) == Some(&ids[i])).count();
                let mut others: Vec<u64> =
                    holders.iter().filter_map(|hs| hs.get(i).cloned()).filter(|h| *h != ids[i]).collect();
                others.sort();
                others.dedup();
                others.iter().any(|o| holders.iter().filter(|hs| hs.get(i) == Some(o)).count() == mine)
            });
            if tie {
                rep.count_class("result:tie-resolved");
            }
            if ids.iter().enumerate().any(|(i, h)| *h != truth(i as u64)) {
                rep.count_class("result:not-the-common-list");
            }
        }
        if rep.samples.len() < 4 && !ids.is_empty() && !all_same {
            rep.sample(&format!("{} -> {}", lines.last().unwrap(), imp));
        }
    }
    // ---------------- the model
    let answers = run_model(opts, "quorum", &lines);
    for i in 0..lines.len() {
        rep.traces_validated += 1;
        if answers[i] != impls[i] {
            rep.disagree(&format!("{}  [latestq-seed {}]", lines[i], owners[i]), &impls[i], &answers[i]);
        }
    }
    rep.notes.push(format!(
        "latest filter hashes: {} tables through Peers::get_latest_block_filter_hashes and Quorum.latestAgreed?",
        lines.len()
    ));
    rep
}

//! `verify_mmr_proof` (the wrapper of /repo) + `MerkleProof::verify` (ckb-merkle-mountain-range)
//! + `MergeHeaderDigest` (ckb-types) against the Lean `Mmr` layer, and against the statement the
//! theorems `Mmr.verify_sound` / `C01.mmr_binds_headers` make about it: a header list accepted
//! against the chain root of an honest chain consists of that chain's headers.
//!
//! Hashes are sent as ids; `def` lines tell the model which ids are the blake2b of two digests
//! (every inner node of the honest MMRs and of the bagging of their peaks), so that the model's
//! term equality coincides with byte equality unless blake2b collides.

use std::collections::{BTreeSet, HashMap};

use ckb_merkle_mountain_range::{
    helper::{get_peaks, pos_height_in_tree},
    leaf_index_to_mmr_size, Merge,
};
use ckb_types::{
    core::HeaderView,
    packed::{self, Byte32},
    prelude::*,
    utilities::{
        compact_to_difficulty,
        merkle_mountain_range::{MergeHeaderDigest, VerifiableHeader},
    },
    U256,
};

use super::simchain::SimChain;
use super::{catch, fnv, run_model, Options, Report, Rng};
use crate::protocols::light_client::prelude::VerifiableHeaderPatch;
use crate::protocols::light_client::verif_exports::verify_mmr_proof;

struct Ids {
    map: HashMap<Byte32, u64>,
}

impl Ids {
    fn id(&mut self, h: &Byte32) -> u64 {
        let n = self.map.len() as u64 + 1;
        *self.map.entry(h.clone()).or_insert(n)
    }
    fn digest(&mut self, d: &packed::HeaderDigest) -> String {
        let td: U256 = d.total_difficulty().unpack();
        let f = |x: packed::Uint64| -> u64 { x.unpack() };
        let c = |x: packed::Uint32| -> u32 { x.unpack() };
        format!(
            "{} {} {} {} {} {} {} {} {} {}",
            self.id(&d.children_hash()),
            td,
            f(d.start_number()),
            f(d.end_number()),
            f(d.start_epoch()),
            f(d.end_epoch()),
            f(d.start_timestamp()),
            f(d.end_timestamp()),
            c(d.start_compact_target()),
            c(d.end_compact_target()),
        )
    }
    fn header(&mut self, h: &HeaderView) -> String {
        format!(
            "{} {} {} {} {} {}",
            h.number(),
            self.id(&h.hash()),
            compact_to_difficulty(h.compact_target()),
            h.epoch().full_value(),
            h.timestamp(),
            h.compact_target()
        )
    }
}

/// `def` lines for every inner node of the MMR of `chain` and for the bagging of every prefix
fn defs(chain: &SimChain, ids: &mut Ids, seen: &mut BTreeSet<u64>, lines: &mut Vec<String>) {
    let tip = chain.tip_number();
    let size = leaf_index_to_mmr_size(tip);
    for pos in 0..size {
        let h = pos_height_in_tree(pos);
        if h == 0 {
            continue;
        }
        let node = chain.mmr_node(pos).expect("node");
        let left = chain.mmr_node(pos - (1u64 << h)).expect("left");
        let right = chain.mmr_node(pos - 1).expect("right");
        let id = ids.id(&node.children_hash());
        if seen.insert(id) {
            lines.push(format!("def {} {} {}", id, ids.digest(&left), ids.digest(&right)));
        }
    }
    for n in 0..=tip {
        let peaks: Vec<packed::HeaderDigest> = get_peaks(leaf_index_to_mmr_size(n))
            .into_iter()
            .map(|p| chain.mmr_node(p).expect("peak"))
            .collect();
        let mut acc = peaks.last().unwrap().clone();
        for left in peaks.iter().rev().skip(1) {
            let merged = MergeHeaderDigest::merge_peaks(&acc, left).expect("bagging");
            let id = ids.id(&merged.children_hash());
            if seen.insert(id) {
                lines.push(format!("def {} {} {}", id, ids.digest(left), ids.digest(&acc)));
            }
            acc = merged;
        }
        assert_eq!(acc.as_slice(), chain.chain_root(n).as_slice(), "bagging reproduces the root");
    }
}

#[derive(Clone)]
struct Case {
    label: String,
    epoch: u64,
    last: packed::VerifiableHeader,
    proof: Vec<packed::HeaderDigest>,
    headers: Vec<HeaderView>,
    /// the root is the honest root of this chain index (for the soundness oracle)
    honest_root_of: Option<usize>,
}

fn with_td(d: &packed::HeaderDigest, td: U256) -> packed::HeaderDigest {
    d.clone().as_builder().total_difficulty(td.pack()).build()
}

fn gen_case(r: &mut Rng, chains: &[SimChain], thorough: bool) -> Case {
    let ci = if r.chance(1, 5) { 1 } else { 0 };
    let chain = &chains[ci];
    let tip = chain.tip_number();
    let last = if r.chance(1, 3) { r.range(1, tip.min(12)) } else { r.range(1, tip) };
    // numbers below `last`
    let k = match r.below(8) {
        0 => 0,
        1 | 2 => 1,
        3 => last.min(3),
        4 => last.min(r.range(2, 8)),
        5 => last, // all of them
        _ => last.min(r.range(1, if thorough { 14 } else { 9 })),
    };
    let mut set = BTreeSet::new();
    if r.chance(1, 3) && k > 0 {
        // contiguous run
        let s = r.range(0, last - k);
        for n in s..s + k {
            set.insert(n);
        }
    } else {
        while (set.len() as u64) < k {
            set.insert(r.below(last));
        }
    }
    let numbers: Vec<u64> = set.into_iter().collect();
    let mut proof: Vec<packed::HeaderDigest> = chain.mmr_proof(last, &numbers).into_iter().collect();
    let mut headers: Vec<HeaderView> = numbers.iter().map(|n| chain.header(*n)).collect();
    let mut vh = chain.verifiable_header(last);
    let mut epoch = if r.chance(1, 2) { 0 } else { u64::MAX >> 8 };
    let mut honest = Some(ci);
    let other = &chains[1 - ci];
    let mut label = if numbers.is_empty() { "honest-empty".to_string() } else { "honest".to_string() };
    match r.below(26) {
        0 | 1 | 2 => {}
        3 => {
            if !proof.is_empty() {
                let i = r.below(proof.len() as u64) as usize;
                proof.remove(i);
                label = "proof-item-dropped".into();
            }
        }
        4 => {
            if !proof.is_empty() {
                let i = r.below(proof.len() as u64) as usize;
                let d = proof[i].clone();
                proof.insert(i, d);
                label = "proof-item-duplicated".into();
            }
        }
        5 => {
            if proof.len() >= 2 {
                let i = r.below(proof.len() as u64 - 1) as usize;
                proof.swap(i, i + 1);
                label = "proof-items-swapped".into();
            }
        }
        6 => {
            if !proof.is_empty() {
                let i = r.below(proof.len() as u64) as usize;
                let td: U256 = proof[i].total_difficulty().unpack();
                proof[i] = with_td(&proof[i], td + U256::one());
                label = "proof-item-difficulty".into();
            }
        }
        7 => {
            if !proof.is_empty() {
                let i = r.below(proof.len() as u64) as usize;
                let e: u64 = proof[i].end_number().unpack();
                let v = *r.pick(&[e + 1, e.saturating_sub(1), u64::MAX, u64::MAX / 4, u64::MAX / 4 + 1, 0]);
                proof[i] = proof[i].clone().as_builder().end_number(v.pack()).build();
                label = "proof-item-end-number".into();
            }
        }
        8 => {
            if !proof.is_empty() {
                let i = r.below(proof.len() as u64) as usize;
                let mut b = proof[i].children_hash().as_slice().to_vec();
                b[3] ^= 0x40;
                proof[i] = proof[i].clone().as_builder().children_hash(Byte32::from_slice(&b).unwrap()).build();
                label = "proof-item-hash".into();
            }
        }
        9 => {
            if !proof.is_empty() {
                let i = r.below(proof.len() as u64) as usize;
                let size = leaf_index_to_mmr_size(last - 1);
                proof[i] = chain.mmr_node(r.below(size)).unwrap();
                label = "proof-item-other-node".into();
            }
        }
        10 => {
            if !headers.is_empty() {
                let i = r.below(headers.len() as u64) as usize;
                let h = headers[i].clone();
                let at = r.below(headers.len() as u64 + 1) as usize;
                headers.insert(at, h);
                label = "header-duplicated".into();
            }
        }
        11 | 12 | 13 => {
            // a second header with the number of a proved one: made up, or of the other branch
            if !headers.is_empty() {
                let i = r.below(headers.len() as u64) as usize;
                let n = headers[i].number();
                let twin = if n <= other.tip_number() && other.header(n).hash() != headers[i].hash() && r.chance(1, 2) {
                    other.header(n)
                } else {
                    headers[i].as_advanced_builder().timestamp((headers[i].timestamp() + 1).pack()).build()
                };
                let after = r.chance(2, 3);
                // a neighbour of the genuine header, or anywhere in the list (the library sorts
                // before it drops all leaves of a position but one)
                let at = if r.chance(1, 2) { if after { i + 1 } else { i } } else { r.below(headers.len() as u64 + 1) as usize };
                headers.insert(at, twin);
                label = format!("header-twin-{}", if at == i + 1 { "after" } else if at == i { "before" } else { "apart" });
            }
        }
        14 => {
            headers.reverse();
            label = "headers-reversed".into();
        }
        15 => {
            if !headers.is_empty() {
                let i = r.below(headers.len() as u64) as usize;
                let n = headers[i].number();
                headers[i] = if n <= other.tip_number() && other.header(n).hash() != headers[i].hash() {
                    other.header(n)
                } else {
                    headers[i].as_advanced_builder().nonce((headers[i].nonce() + 1).pack()).build()
                };
                label = "header-replaced-same-number".into();
            }
        }
        16 => {
            // a header at or beyond `last`
            let n = r.range(last, tip);
            let at = r.below(headers.len() as u64 + 1) as usize;
            headers.insert(at, chain.header(n));
            label = "header-beyond-root".into();
        }
        17 => {
            // a header whose proof is not part of the proof
            let n = r.below(last);
            if !numbers.contains(&n) {
                let at = r.below(headers.len() as u64 + 1) as usize;
                headers.insert(at, chain.header(n));
                label = "header-unproved".into();
            }
        }
        18 => {
            // another root: an older one of the same chain / the other chain's
            let root = if r.chance(1, 2) && last >= 2 { chain.chain_root(r.below(last - 1)) } else { other.chain_root((last - 1).min(other.tip_number())) };
            if root.as_slice() != vh.parent_chain_root().as_slice() {
                vh = vh.as_builder().parent_chain_root(root).build();
                honest = None;
                label = "other-root".into();
            }
        }
        19 => {
            // the root claims another end number / difficulty
            let root = vh.parent_chain_root();
            let e: u64 = root.end_number().unpack();
            let v = *r.pick(&[e + 1, e.saturating_sub(1), u64::MAX / 4 + 1, u64::MAX]);
            vh = vh.clone().as_builder().parent_chain_root(root.as_builder().end_number(v.pack()).build()).build();
            honest = None;
            epoch = u64::MAX >> 8;
            label = "root-end-number".into();
        }
        20 => {
            // difficulties at the top of the range: proof items / the root
            if !proof.is_empty() {
                let i = r.below(proof.len() as u64) as usize;
                let v = if r.chance(1, 2) { U256::max_value() } else { U256::max_value() - U256::from(r.below(1000)) };
                proof[i] = with_td(&proof[i], v);
                label = "proof-item-difficulty-max".into();
            }
        }
        21 => {
            // the proof of other numbers
            let m: Vec<u64> = numbers.iter().map(|n| (n + 1) % last).collect::<BTreeSet<_>>().into_iter().collect();
            if m != numbers {
                proof = chain.mmr_proof(last, &m).into_iter().collect();
                label = "proof-of-other-blocks".into();
            }
        }
        22 => {
            // proof from the other branch
            if last <= other.tip_number() {
                let m: Vec<u64> = numbers.clone();
                proof = other.mmr_proof(last, &m).into_iter().collect();
                label = "proof-of-other-branch".into();
            }
        }
        23 => {
            proof.clear();
            label = "proof-emptied".into();
        }
        24 => {
            headers.clear();
            label = "headers-emptied".into();
        }
        _ => {
            // an extra item at the end (the slot of the bagged right-hand peaks)
            let size = leaf_index_to_mmr_size(last - 1);
            proof.push(chain.mmr_node(r.below(size)).unwrap());
            label = "proof-item-appended".into();
        }
    }
    Case { label, epoch, last: vh, proof, headers, honest_root_of: honest }
}

fn run_impl(c: &Case) -> (bool, String) {
    let vh: VerifiableHeader = c.last.clone().into();
    let valid = catch(|| vh.patched_is_valid(c.epoch)).unwrap_or(false);
    let proof = packed::HeaderDigestVec::new_builder().set(c.proof.clone()).build();
    let res = catch(|| verify_mmr_proof(c.epoch, &vh, proof.as_reader(), c.headers.iter()));
    let class = match res {
        Ok(Ok(())) => "ok".to_string(),
        Ok(Err(_)) => "invalid".to_string(),
        Err(m) => format!("panic {}", m.chars().take(60).collect::<String>()),
    };
    (valid, class)
}

pub fn run(opts: &Options) -> Report {
    let mut rep = Report::default();
    rep.rule = "mmr: the case reaches MerkleProof::verify (valid last header, numbers within the root)".into();
    let mut r = Rng::new(opts.seed ^ 0x6d6d72);
    let thorough = opts.thorough();

    // two branches with several epochs (lengths 5..9) and changing compact targets
    let mut a = SimChain::new_dummy();
    let g = a.header(0).compact_target();
    let plan: Vec<(u64, u32)> = vec![(6, g), (5, g - 3), (9, g - 5), (7, g - 2), (8, g - 6), (5, g - 7)];
    let len = if thorough { 300 } else { 140 } + r.below(9);
    a.append_epochs(&plan, len);
    let at = r.range(3, len - 20);
    let mut b = a.fork(at, 77);
    b.append_epochs(&plan, len - at + 5);
    let chains = vec![a, b];

    let mut ids = Ids { map: HashMap::new() };
    let mut lines: Vec<String> = Vec::new();
    let mut seen = BTreeSet::new();
    for c in &chains {
        defs(c, &mut ids, &mut seen, &mut lines);
    }
    let ndefs = lines.len();
    rep.notes.push(format!("chains: {} and {} blocks forking at {}; {} inner / bagging nodes defined", chains[0].tip_number(), chains[1].tip_number(), at, ndefs));

    // replay: the case lines of a replay file are `mmr-case <seed> <index>`
    let only: Option<BTreeSet<u64>> = opts.replay.as_ref().map(|p| {
        std::fs::read_to_string(p)
            .unwrap_or_default()
            .lines()
            .filter_map(|l| {
                let t: Vec<&str> = l.split_whitespace().collect();
                if t.len() == 3 && t[0] == "mmr-case" { t[2].parse().ok() } else { None }
            })
            .collect()
    });

    let n_cases = if thorough { 60_000 } else { 6_000 };
    let mut cases: Vec<(u64, Case, bool, String)> = Vec::new();
    for i in 0..n_cases {
        let c = gen_case(&mut r, &chains, thorough);
        if let Some(o) = &only {
            if !o.contains(&i) {
                continue;
            }
        }
        let (valid, class) = run_impl(&c);
        let root = c.last.parent_chain_root();
        let n: u64 = c.last.header().raw().number().unpack();
        let mut l = format!("vrf {} {} {} {} {}", valid as u8, n, c.proof.len(), c.headers.len(), ids.digest(&root));
        for d in &c.proof {
            l.push(' ');
            l.push_str(&ids.digest(d));
        }
        for h in &c.headers {
            l.push(' ');
            l.push_str(&ids.header(h));
        }
        lines.push(l);
        cases.push((i, c, valid, class));
    }
    let answers = run_model(opts, "mmr", &lines);
    for (k, a) in answers.iter().take(ndefs).enumerate() {
        if a != "ok" {
            rep.disagree(&lines[k], "definition", a);
        }
    }
    for (k, (i, c, valid, class)) in cases.iter().enumerate() {
        let line = &lines[ndefs + k];
        let model = &answers[ndefs + k];
        rep.evaluations += 1;
        rep.count_op("verify_mmr_proof");
        rep.count_class(&format!("{}:{}", c.label, class.split(' ').next().unwrap()));
        if *valid && class != "invalid" || c.label == "honest" {
            rep.nontrivial.insert(fnv(line));
        }
        if k < 3 {
            rep.sample(&line.chars().take(300).collect::<String>());
        }
        let mclass = if model.starts_with("liberr") { "invalid" } else { model.as_str() };
        let same = if class.starts_with("panic") { mclass.starts_with("panic") } else { class == mclass };
        let replay = vec![
            format!("mmr-case {} {}", opts.seed, i),
            format!("# {} (mmr activated epoch {})", c.label, c.epoch),
            format!("# implementation: {}   model: {}", class, model),
            line.clone(),
        ];
        if !same {
            rep.disagree(line, class, model);
        } else {
            rep.traces_validated += 1;
        }
        if class.starts_with("panic") {
            rep.violate(&format!("C10|panic|verify_mmr_proof|{}", c.label), &format!("verify_mmr_proof aborts: {}", class), replay.clone());
        }
        // completeness: the honest proof is accepted
        if c.label == "honest" && class != "ok" {
            rep.violate("C05|honest-mmr-proof-rejected", &format!("an honest MMR proof is rejected ({})", class), replay.clone());
        }
        // soundness: accepted against an honest root => every header is the chain's
        if class == "ok" {
            if let Some(ci) = c.honest_root_of {
                let chain = &chains[ci];
                for h in &c.headers {
                    let n = h.number();
                    if n > chain.tip_number() || chain.header(n).hash() != h.hash() {
                        rep.violate(
                            &format!("accepted-header-not-committed|{}", c.label),
                            &format!("verify_mmr_proof accepts a header list containing block {} {:#x}, which the chain root does not commit to ({})", n, h.hash(), c.label),
                            replay.clone(),
                        );
                    }
                }
            }
        }
    }
    rep
}

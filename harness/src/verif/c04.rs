//! C04 — fork switches: a full client follows an honest peer whose chain reorganises (forks of
//! every depth around last-N, at every moment of the filter / download pipeline); after every
//! step the index must belong to the branch of the stored tip, and after convergence it must be
//! exactly the ground truth of the final branch.  The filter-sync state is compared with the
//! `Sync` Lean layer (`fork` op) after every store-changing message.

use std::collections::{BTreeMap, BTreeSet};

use ckb_network::{PeerIndex, SupportProtocols};
use ckb_types::{core::TransactionView, packed::Byte32, prelude::*};

use super::node::{set_now, Node};
use super::server::{self, ServerOpts};
use super::simchain::{tx, SimChain};
use super::sync::{classify, model_op_after, observe, script_of, show_obs, N_SCRIPTS};
use super::{catch, fnv, run_model, Options, Report, Rng};
use crate::service::{BlockFilterRpc, ScriptStatus, ScriptType, SetScriptsCommand};
use crate::storage::{extract_raw_data, KeyPrefix};

const LAST_N: u64 = 5;

/// one index fact: (script, block, tx hash, cell index, is output)
pub(crate) type Fact = (u64, u64, Byte32, u32, bool);
/// one live cell: (script, creating block, tx hash, output index)
pub(crate) type Cell = (u64, u64, Byte32, u32);

#[derive(Clone)]
pub(crate) struct Live {
    tx_hash: Byte32,
    index: u32,
    sid: u64,
    block: u64,
}

pub struct Branch {
    pub chain: SimChain,
    pub(crate) facts: Vec<Fact>,
    /// (spending tx, input index) -> block that created the spent cell
    pub(crate) spent_created: std::collections::HashMap<(Byte32, u32), u64>,
    /// live outputs after block i
    pub(crate) live_at: Vec<Vec<Live>>,
    /// the transactions of this branch: (block, transaction, cells it spends, scripts of its outputs)
    pub(crate) txlog: Vec<(u64, TransactionView, Vec<Live>, Vec<u64>)>,
    /// transactions of the branch this one forked from that lie above the fork point: the
    /// extension confirms some of them again, in another block and at another position
    pub(crate) orphans: Vec<(u64, TransactionView, Vec<Live>, Vec<u64>)>,
    /// hashes of the transactions confirmed again on this branch
    pub(crate) reconfirmed: BTreeSet<Byte32>,
}

impl Branch {
    pub(crate) fn new() -> Branch {
        Branch {
            chain: SimChain::new_dummy(),
            facts: Vec::new(),
            spent_created: Default::default(),
            live_at: vec![Vec::new()],
            txlog: Vec::new(),
            orphans: Vec::new(),
            reconfirmed: BTreeSet::new(),
        }
    }
    pub(crate) fn extend(&mut self, rng: &mut Rng, n: u64, salt: u64) {
        for _ in 0..n {
            let b = self.chain.tip_number() + 1;
            let mut live = self.live_at.last().cloned().unwrap_or_default();
            let mut txs: Vec<TransactionView> = Vec::new();
            let n_tx = if rng.chance(2, 5) { rng.range(1, 2) } else { 0 };
            for k in 0..n_tx {
                let mut inputs = Vec::new();
                let mut spent = Vec::new();
                if !live.is_empty() && rng.chance(1, 2) {
                    let mut i = rng.below(live.len() as u64) as usize;
                    // prefer an output of a transaction that was confirmed again on this branch
                    // (its stored position is the one of the abandoned branch unless rewritten)
                    if (salt + b + k) % 2 == 1 {
                        if let Some(j) = live.iter().position(|x| self.reconfirmed.contains(&x.tx_hash)) {
                            i = j;
                        }
                    }
                    let l = live.remove(i);
                    inputs.push((l.tx_hash.clone(), l.index));
                    spent.push(l);
                }
                let n_out = rng.range(1, 2);
                let outputs: Vec<_> = (0..n_out)
                    .map(|o| {
                        let sid = rng.range(1, N_SCRIPTS);
                        (sid, (script_of(sid), None, 100_0000_0000u64 + b * 4 + o, vec![]))
                    })
                    .collect();
                let t = tx(
                    &inputs,
                    &outputs.iter().map(|(_, o)| o.clone()).collect::<Vec<_>>(),
                    salt * 100_000 + b * 10 + k + 1,
                );
                for (i, l) in spent.iter().enumerate() {
                    self.facts.push((l.sid, b, t.hash(), i as u32, false));
                    self.spent_created.insert((t.hash(), i as u32), l.block);
                }
                for (o, (sid, _)) in outputs.iter().enumerate() {
                    self.facts.push((*sid, b, t.hash(), o as u32, true));
                    live.push(Live { tx_hash: t.hash(), index: o as u32, sid: *sid, block: b });
                }
                self.txlog.push((b, t.clone(), spent.clone(), outputs.iter().map(|(sid, _)| *sid).collect()));
                txs.push(t);
            }
            // a transaction of the abandoned branch is confirmed again (decided from salt and
            // height, not drawn: the random stream of the histories stays what it was)
            if !self.orphans.is_empty() && (salt.wrapping_mul(31).wrapping_add(b)) % 2 == 0 {
                let (_, t, spent, out_sids) = self.orphans.remove(0);
                let spendable = spent.iter().all(|l| live.iter().any(|x| x.tx_hash == l.tx_hash && x.index == l.index));
                if spendable {
                    for l in &spent {
                        live.retain(|x| !(x.tx_hash == l.tx_hash && x.index == l.index));
                    }
                    for (i, l) in spent.iter().enumerate() {
                        self.facts.push((l.sid, b, t.hash(), i as u32, false));
                        self.spent_created.insert((t.hash(), i as u32), l.block);
                    }
                    for (o, sid) in out_sids.iter().enumerate() {
                        self.facts.push((*sid, b, t.hash(), o as u32, true));
                        live.push(Live { tx_hash: t.hash(), index: o as u32, sid: *sid, block: b });
                    }
                    self.txlog.push((b, t.clone(), spent.clone(), out_sids.clone()));
                    self.reconfirmed.insert(t.hash());
                    // in front of or behind the new transactions of the block
                    if (salt + b) % 3 == 0 {
                        txs.insert(0, t);
                    } else {
                        txs.push(t);
                    }
                }
            }
            self.chain.append_with_txs(txs);
            self.live_at.push(live);
        }
    }
    pub(crate) fn fork_of(&self, at: u64, salt: u64) -> Branch {
        Branch {
            chain: self.chain.fork(at, salt),
            facts: self.facts.iter().filter(|f| f.1 <= at).cloned().collect(),
            spent_created: self.spent_created.clone(),
            live_at: self.live_at[..=at as usize].to_vec(),
            txlog: self.txlog.iter().filter(|t| t.0 <= at).cloned().collect(),
            orphans: self.txlog.iter().filter(|t| t.0 > at).cloned().collect(),
            reconfirmed: BTreeSet::new(),
        }
    }
    pub(crate) fn cells(&self) -> BTreeSet<Cell> {
        self.live_at
            .last()
            .map(|l| l.iter().map(|c| (c.sid, c.block, c.tx_hash.clone(), c.index)).collect())
            .unwrap_or_default()
    }
}

#[derive(Clone, Debug)]
pub enum Step {
    Run(u32),
    /// the peer's chain becomes branch `i`
    Switch(usize),
}

fn sid_of_raw(raw: &[u8]) -> Option<u64> {
    (1..=N_SCRIPTS).find(|id| extract_raw_data(&script_of(*id)) == raw)
}

/// everything the index says: history facts and live cells of the three scripts
pub(crate) fn index_dump(node: &Node) -> (BTreeSet<Fact>, BTreeSet<Cell>) {
    use rocksdb::{prelude::*, Direction, IteratorMode};
    let db = &node.i().storage.db;
    let mut facts = BTreeSet::new();
    let mut cells = BTreeSet::new();
    for sid in 1..=N_SCRIPTS {
        let raw = extract_raw_data(&script_of(sid));
        let mut p = vec![KeyPrefix::TxLockScript as u8];
        p.extend_from_slice(&raw);
        for (k, v) in db.iterator(IteratorMode::From(&p, Direction::Forward)).take_while(|(k, _)| k.starts_with(&p)) {
            if k.len() != p.len() + 17 {
                continue;
            }
            let r = &k[p.len()..];
            let block = u64::from_be_bytes(r[0..8].try_into().unwrap());
            let cell = u32::from_be_bytes(r[12..16].try_into().unwrap());
            let out = r[16] == 1;
            facts.insert((sid, block, Byte32::from_slice(&v).unwrap(), cell, out));
        }
        let mut p = vec![KeyPrefix::CellLockScript as u8];
        p.extend_from_slice(&raw);
        for (k, v) in db.iterator(IteratorMode::From(&p, Direction::Forward)).take_while(|(k, _)| k.starts_with(&p)) {
            if k.len() != p.len() + 16 {
                continue;
            }
            let r = &k[p.len()..];
            let block = u64::from_be_bytes(r[0..8].try_into().unwrap());
            let out = u32::from_be_bytes(r[12..16].try_into().unwrap());
            cells.insert((sid, block, Byte32::from_slice(&v).unwrap(), out));
        }
    }
    let _ = sid_of_raw;
    (facts, cells)
}

/// `observe`, but block hashes of the records are looked up on every branch (a retained record
/// may hold blocks of an abandoned branch)
fn observe_all(node: &Node, branches: &[Branch], serving: usize) -> super::sync::Obs {
    let mut o = observe(node, &branches[serving].chain);
    let st = &node.i().storage;
    let mut fixed = Vec::new();
    for (start, count, nums) in o.records.iter() {
        let hashes = st
            .get_earliest_matched_blocks()
            .filter(|r| r.0 == *start)
            .or_else(|| st.get_latest_matched_blocks().filter(|r| r.0 == *start))
            .map(|r| r.2)
            .unwrap_or_default();
        let mut out = nums.clone();
        for (i, n) in nums.iter().enumerate() {
            if *n == 999_999 {
                if let Some((h, _)) = hashes.get(i) {
                    if let Some(m) = branches.iter().filter_map(|b| b.chain.number_of_hash(h)).next() {
                        out[i] = m;
                    }
                }
            }
        }
        fixed.push((*start, *count, out));
    }
    o.records = fixed;
    o
}

/// does a stored record hold a block that is not on `chain`?
fn stale_record(node: &Node, chain: &SimChain) -> bool {
    observe(node, chain).records.iter().any(|r| r.2.iter().any(|n| *n == 999_999))
}

pub(crate) fn short(h: &Byte32) -> String {
    format!("{:x}", h)[..8].to_string()
}

struct Scenario {
    branches: Vec<Branch>,
    steps: Vec<Step>,
    desc: String,
}

fn scenario(seed: u64, len: usize, growth_only: bool) -> Scenario {
    let mut rng = Rng::new(seed);
    let mut a = Branch::new();
    let n0 = rng.range(25, 60);
    a.extend(&mut rng, n0, 1);
    let mut branches = Vec::new();
    let n_forks = if growth_only { rng.range(1, 3) } else { rng.range(1, 2) } as usize;
    let mut desc = format!("A tip {}", a.chain.tip_number());
    branches.push(a);
    for f in 0..n_forks {
        let parent = &branches[f];
        let tip = parent.chain.tip_number();
        // depth below, at and above last-N
        let depth = if growth_only { 0 } else { *rng.pick(&[0u64, 1, 1, 2, 3, 4, 5, 5, 6, 7, 9]) };
        let at = tip.saturating_sub(depth).max(1);
        let mut b = parent.fork_of(at, (f + 2) as u64);
        let extra = rng.range(1, 6);
        b.extend(&mut rng, tip - at + extra, (f + 2) as u64);
        desc.push_str(&format!("; branch {} forks from {} at {} (depth {}) tip {}", f + 1, f, at, tip - at, b.chain.tip_number()));
        branches.push(b);
    }
    let mut steps = Vec::new();
    let per = (len / (n_forks + 1)).max(1);
    for f in 0..=n_forks {
        if f > 0 {
            steps.push(Step::Switch(f));
        }
        for _ in 0..rng.range(0, per as u64) {
            steps.push(Step::Run(rng.range(1, 7) as u32));
        }
    }
    Scenario { branches, steps, desc }
}

/// C08: the chain grows by `g` blocks with activity (branch 1), the client filters the new blocks
/// but has not downloaded all matched ones (a record that starts above the old tip is pending), then
/// the growth is reorganised away (branch 2 parts from branch 1 at the old tip).  The fork handling
/// deletes that record and rolls back: the crash enumeration reaches the write boundary in between.
fn scenario_growth_then_fork(seed: u64) -> Scenario {
    let mut rng = Rng::new(seed ^ 0x9f0);
    let mut a = Branch::new();
    let n0 = rng.range(25, 40);
    a.extend(&mut rng, n0, 1);
    let t0 = a.chain.tip_number();
    let g = rng.range(2, 5);
    let mut b = a.fork_of(t0, 2);
    // activity in every block of the growth: outputs to the scripts
    b.extend(&mut rng, g, 2);
    let mut c = b.fork_of(t0, 3);
    let extra = rng.range(1, 3);
    c.extend(&mut rng, g + extra, 3);
    let desc = format!("growth-then-fork: A tip {}; branch 1 = A + {} blocks; branch 2 parts from branch 1 at {} tip {}", t0, g, t0, c.chain.tip_number());
    let mut steps: Vec<Step> = (0..8).map(|_| Step::Run(7)).collect();
    steps.push(Step::Switch(1));
    // a few short rounds: the proof, the filter hashes, the filters of the growth - not the blocks
    for _ in 0..rng.range(2, 5) {
        steps.push(Step::Run(rng.range(1, 2) as u32));
    }
    steps.push(Step::Switch(2));
    for _ in 0..4 {
        steps.push(Step::Run(7));
    }
    Scenario { branches: vec![a, b, c], steps, desc }
}

pub(crate) fn parse_seeds(text: &str) -> Vec<(u64, usize)> {
    text.lines()
        .filter_map(|l| {
            let t: Vec<&str> = l.split_whitespace().collect();
            if t.first() == Some(&"history-seed") && t.len() >= 4 {
                Some((t[1].parse().ok()?, t[3].parse().ok()?))
            } else {
                None
            }
        })
        .collect()
}

/// the branch (index) whose chain contains the stored tip; later branches first (a shared prefix
/// block belongs to all of them: any is fine for the subset oracle)
fn branch_of_tip(node: &Node, branches: &[Branch], serving: usize) -> Option<usize> {
    let tip = node.i().storage.get_tip_header().calc_header_hash();
    if branches[serving].chain.number_of_hash(&tip).is_some() {
        return Some(serving);
    }
    (0..branches.len()).rev().find(|i| branches[*i].chain.number_of_hash(&tip).is_some())
}

pub fn run(opts: &Options) -> Report {
    run_mode(opts, "C04")
}

/// `prop` = "C04": reorganisations at every depth; "C03": the chain only grows (with activity)
/// while the client syncs
pub fn run_mode(opts: &Options, prop: &str) -> Report {
    let mut rep = Report::default();
    rep.rule = "full-stack fork histories: a dummy-PoW chain of 25..60 blocks paying to / spending from 3 \
        scripts (registered from 0), one or two successive reorganisations of the honest peer's chain \
        at depth 1..9 around last-N = 5 (the new branch re-spends and re-creates cells), the switch \
        announced at an arbitrary moment of bounded sync rounds (1..7 answered requests per round: \
        mid filter batch, with matched blocks pending or partly downloaded); after every step every \
        index entry must belong to the branch of the stored tip; after convergence the history and \
        the live cells must equal the ground truth of the final branch; a fork without a remembered \
        common header must end in the documented long-fork abort with index and tip untouched; the \
        store triple is compared with the Sync model (`fork` op) after every store-changing message; \
        non-trivial = a switch rolled back indexed blocks; distinct = distinct history seed"
        .into();
    let mut rng = Rng::new(opts.seed ^ fnv("C04") ^ fnv(prop));
    let mut seeds: Vec<(u64, usize)> = Vec::new();
    // C04: the histories (by seed) that issue set_scripts commands; they are ADDITIONAL histories
    // (a command that moves the filter sync back makes the client index everything again, which
    // would hide what the plain fork histories are there to show)
    let mut cmd_seeds: BTreeSet<u64> = BTreeSet::new();
    let marked = |text: &str| -> Vec<u64> {
        text.lines()
            .filter_map(|l| {
                let t: Vec<&str> = l.split_whitespace().collect();
                if t.first() == Some(&"history-seed") && t.get(4) == Some(&"cmds") { t[1].parse().ok() } else { None }
            })
            .collect()
    };
    if let Some(p) = &opts.replay {
        let text = std::fs::read_to_string(p).expect("replay");
        cmd_seeds.extend(marked(&text));
        if text.contains("set_scripts commands") {
            cmd_seeds.extend(parse_seeds(&text).iter().map(|s| s.0));
        }
        seeds = parse_seeds(&text);
    } else {
        if let Ok(rd) = std::fs::read_dir(if prop == "C04" { "/verif/corpus/C04".to_string() } else { format!("/verif/corpus/{}-fullstack", prop) }) {
            for e in rd.flatten() {
                let text = std::fs::read_to_string(e.path()).unwrap_or_default();
                cmd_seeds.extend(marked(&text));
                seeds.extend(parse_seeds(&text));
            }
        }
        let n = match (prop, opts.thorough()) {
            ("C03", false) => 40,
            ("C03", true) => 600,
            ("C08", false) => 30,
            ("C08", true) => 150,
            ("C09", false) => 60,
            ("C09", true) => 1200,
            (_, false) => 80,
            (_, true) => 1500,
        };
        for _ in 0..n {
            seeds.push((rng.next(), rng.range(6, 24) as usize));
        }
        if prop == "C08" {
            // growth, then a reorganisation of exactly the growth (marked by the length 9999)
            for _ in 0..(if opts.thorough() { 60 } else { 8 }) {
                seeds.push((rng.next(), 9999));
            }
        }
        if prop == "C04" {
            for _ in 0..n / 2 {
                let s = (rng.next(), rng.range(6, 24) as usize);
                cmd_seeds.insert(s.0);
                seeds.push(s);
            }
        }
    }
    let debug = std::env::var("VERIF_DEBUG_SYNC").is_ok();
    let mut meta_lines: Vec<String> = vec!["reset".to_string(), "init 1 0".to_string()];
    let mut meta_impls: Vec<String> = vec!["ok".to_string(), String::new()];
    let mut all_lines: Vec<String> = Vec::new();
    let mut all_impls: Vec<String> = Vec::new();
    let mut owner: Vec<usize> = Vec::new();
    for (hi, (seed, len)) in seeds.iter().enumerate() {
        super::seed_client_randomness(*seed);
        let sc = if *len == 9999 { scenario_growth_then_fork(*seed) } else { scenario(*seed, *len, prop == "C03") };
        let branches = &sc.branches;
        let replay = |extra: String| vec![format!("history-seed {} len {}", seed, len), format!("# {}{}; steps {:?}", if prop == "C09" { "fork-history with set_scripts commands; " } else if cmd_seeds.contains(seed) { "with set_scripts commands; " } else { "" }, sc.desc, sc.steps), extra];
        if hi % 17 == 0 {
            rep.sample(&format!("history-seed {} len {}: {}; steps {:?}", seed, len, sc.desc, sc.steps));
        }
        let sopts = ServerOpts::default();
        // C08: the history is run once to count the store writes, then again with a crash in
        // front of sampled writes (restart, convergence, ground truth)
        let mut crash_points: Vec<Option<u64>> = vec![None];
        let mut cp_i = 0;
        while cp_i < crash_points.len() {
        let crash_at = crash_points[cp_i];
        cp_i += 1;
        super::seed_client_randomness(*seed);
        let writes = std::rc::Rc::new(std::cell::Cell::new(0u64));
        let replay = |extra: String| {
            let mut r = replay(extra);
            if let Some(k) = crash_at {
                r.push(format!("# crash in front of store write {}", k));
            }
            r
        };
        // C04: one to three honest peers, which learn of a reorganisation one after the other
        let n_peers: usize = if prop == "C04" { [1usize, 1, 2, 3][(*seed % 4) as usize] } else { 1 };
        let mut node = Node::new(&branches[0].chain.consensus, LAST_N, 2000, n_peers as u32);
        let peer = PeerIndex::new(1);
        let mut peer_branch: Vec<usize> = vec![0; n_peers + 1];
        let mut pending_switch: Vec<usize> = Vec::new();
        let mut first_left = false;
        let mut now = branches[0].chain.tip().timestamp() + 5000;
        set_now(now);
        for p in 1..=n_peers {
            node.connect(PeerIndex::new(p));
        }
        let mut lines = vec!["reset 0".to_string()];
        let mut impls = vec!["ok".to_string()];
        // C03: half of the histories register the scripts from a later block
        let reg_start: u64 = if prop == "C03" && seed % 2 == 0 { 1 + seed % (branches[0].chain.tip_number() / 2).max(1) } else { 0 };
        {
            let statuses: Vec<ScriptStatus> = (1..=N_SCRIPTS)
                .map(|id| ScriptStatus { script: script_of(id).into(), script_type: ScriptType::Lock, block_number: reg_start.into() })
                .collect();
            let rpc = node.filter_rpc();
            rpc.set_scripts(statuses, Some(SetScriptsCommand::All)).expect("set_scripts");
            lines.push(format!("set 0 | {}", (1..=N_SCRIPTS).map(|i| format!("{} {}", i, reg_start)).collect::<Vec<_>>().join(" ")));
            impls.push(String::new());
            lines.push("dump".into());
            impls.push(show_obs(&observe(&node, &branches[0].chain)));
        }
        let mut serving = 0usize;
        let mut aborted: Option<String> = None;
        let mut rolled_back = false;
        let in_lc_delivery = std::cell::Cell::new(false);
        // a batch of block filters of a peer whose chain does not contain the stored tip (it has
        // not followed the reorganisation yet) moved the filtered height: the filters of ITS blocks
        // above the fork point were taken for the blocks of the stored tip's chain
        let mut foreign_filters: Option<String> = None;
        // the heights of the stored tip's branch that were passed on such filters
        let mut foreign_ranges: Vec<(u64, u64)> = Vec::new();
        // bans of a peer that has reorganised and announced it, for an answer of the filter
        // protocol it gave BEFORE the client asked it for the proof of its new chain (the client
        // still holds the peer's previous proved state and filter hashes): how many of `node.bans`
        let mut bans_in_window: usize = 0;
        // C08: after a crash INSIDE the fork handling (records above the fork point deleted, the
        // rollback batch not written) half of the runs continue on the OLD branch, which has
        // grown beyond the new one meanwhile (the reorganisation is reorganised away)
        let mut old_ext: Option<Branch> = None;
        // C09: `set_scripts` commands that keep the three scripts (a fourth registration - script 1
        // as a TYPE script, which nothing on these chains touches - is added from a far block with
        // `partial` and removed again with `delete`) at arbitrary moments of the fork histories
        let mut cmd_rng = Rng::new(*seed ^ 0x5e75_c0de);
        // after a command right in front of a switch the peers are slow with their filters: the
        // answers of the filter protocol are dropped until the proof has moved the stored tip
        // (the client asks again), so that the reorganisation finds the filter sync moved back
        let mut hold_filters = false;
        let mut restarted_once = false;
        let mut extra_registered = false;
        let mut seen_switch = false;
        // the writes of the steps are counted (the first start and set_scripts have their own
        // crash enumeration in sync.rs)
        let sites: std::rc::Rc<std::cell::RefCell<Vec<&'static str>>> = Default::default();
        {
            let w = writes.clone();
            let sites = sites.clone();
            crate::verif_hooks::set_before_write(Some(Box::new(move |site| {
                w.set(w.get() + 1);
                sites.borrow_mut().push(site);
                if Some(w.get()) == crash_at {
                    panic!("simulated crash at store write {}", w.get());
                }
            })));
        }
        'steps: for step in &sc.steps {
            rep.evaluations += 1;
            match step {
                Step::Switch(i) => {
                    // peers that have not followed the previous reorganisation yet do so now
                    for p in pending_switch.drain(..) {
                        peer_branch[p] = serving;
                    }
                    // a command that moves the filter sync back (another script registered from
                    // a low block) right in front of the reorganisation: the blocks of the kept
                    // scripts stay indexed above the min filtered number and must still be rolled back
                    if (prop == "C09" || (prop == "C04" && cmd_seeds.contains(seed))) && !extra_registered && cmd_rng.chance(1, 2) {
                        let low = cmd_rng.range(0, 12);
                        extra_registered = true;
                        let statuses = vec![ScriptStatus { script: script_of(1).into(), script_type: ScriptType::Type, block_number: low.into() }];
                        let rpc = node.filter_rpc();
                        if let Err(e) = catch(|| rpc.set_scripts(statuses, Some(SetScriptsCommand::Partial)).expect("set_scripts")) {
                            aborted = Some(e);
                            break 'steps;
                        }
                        rep.count_op("set-partial-low-before-switch");
                        hold_filters = true;
                        lines.push(format!("set 1 | 11 {}", low));
                        impls.push(String::new());
                        lines.push("dump".into());
                        impls.push(show_obs(&observe_all(&node, branches, serving)));
                    }
                    serving = *i;
                    seen_switch = true;
                    rep.count_op("switch");
                    let chain = &branches[serving].chain;
                    // the first peer switches and announces at once, the others one per round
                    peer_branch[1] = serving;
                    pending_switch = (2..=n_peers).collect();
                    if let Err(e) = catch(|| node.announce(peer, chain)) {
                        aborted = Some(e);
                        break 'steps;
                    }
                }
                Step::Run(n) => {
                    // in some histories the peer that reported the reorganisation first leaves
                    // - after its proof has moved the stored tip - before the next one follows:
                    // whatever the client keeps per PEER about the abandoned branch has to go when
                    // that peer's proved state is reorganised, not only when the store is rolled back
                    let one_switch = sc.steps.iter().filter(|s| matches!(s, Step::Switch(_))).count() == 1;
                    let leaving = prop == "C04" && one_switch && n_peers >= 2 && serving != 0 && [6u64, 7, 10, 14, 15].contains(&(*seed % 16)) && !first_left;
                    let tip_on_new = {
                        let tip = node.i().storage.get_tip_header().calc_header_hash();
                        branches[serving].chain.number_of_hash(&tip).is_some() && branches[0].chain.number_of_hash(&tip).is_none()
                    };
                    if leaving && tip_on_new && !pending_switch.is_empty() && node.i().peers.get_peer(&peer).is_some() {
                        first_left = true;
                        node.drop_unconnected = true;
                        node.disconnect(peer);
                        rep.count_class("first-peer-leaves-before-the-second-follows");
                        if debug {
                            eprintln!("  seed {}: the first peer leaves ({} peers)", seed, n_peers);
                        }
                    }
                    let hold = leaving && !first_left;
                    if let Some(p) = if hold { None } else { pending_switch.pop() } {
                        peer_branch[p] = serving;
                        let chain = &branches[serving].chain;
                        if let Err(e) = catch(|| node.announce(PeerIndex::new(p), chain)) {
                            aborted = Some(e);
                            break 'steps;
                        }
                    }
                    now += 3000;
                    set_now(now);
                    node.im().filter.last_ask_time.write().unwrap().take();
                    if let Err(e) = catch(|| node.tick_all()) {
                        aborted = Some(e);
                        break 'steps;
                    }
                    let mut budget = *n;
                    while budget > 0 {
                        let sent = node.collect();
                        if sent.is_empty() {
                            break;
                        }
                        for (protocol, p, data) in sent {
                            if budget == 0 {
                                break;
                            }
                            budget -= 1;
                            // a peer that has left answers nothing
                            if node.i().peers.get_peer(&p).is_none() {
                                continue;
                            }
                            let chain = &branches[peer_branch.get(p.value()).copied().unwrap_or(serving)].chain;
                            let replies = match server::handle(chain, &sopts, protocol, &data) {
                                Ok(r) => r,
                                Err(e) => {
                                    node.server_errors.push(e);
                                    continue;
                                }
                            };
                            for (rp, bytes) in replies {
                                let (kind, start) = classify(rp, &bytes);
                                if hold_filters && rp == SupportProtocols::Filter.protocol_id() {
                                    let tip = node.i().storage.get_tip_header().calc_header_hash();
                                    if branches[serving].chain.number_of_hash(&tip).is_some() && (serving == 0 || branches[serving - 1].chain.number_of_hash(&tip).is_none()) {
                                        hold_filters = false;
                                    } else {
                                        rep.count_class("filter-answer-withheld-until-the-proof");
                                        continue;
                                    }
                                }
                                let before = observe_all(&node, branches, serving);
                                let tip_before = node.i().storage.get_tip_header().calc_header_hash();
                                let volatile_empty = node.i().peers.matched_blocks().read().unwrap().is_empty();
                                in_lc_delivery.set(rp == SupportProtocols::LightClient.protocol_id());
                                let sites_before = sites.borrow().len();
                                let bans_before = node.i().nc_filter.rec.lock().unwrap().banned.len();
                                let saved_filters = if prop == "C09" && kind == "BlockFilters" { Some(bytes.clone()) } else { None };
                                if let Err(e) = catch(|| node.deliver(p, rp, bytes)) {
                                    aborted = Some(e);
                                    break 'steps;
                                }
                                in_lc_delivery.set(false);
                                if prop == "C08" && crash_at.is_none() {
                                    // the writes of a tip update against the Meta model
                                    let tip_sites: Vec<&str> = sites.borrow()[sites_before..].iter().cloned().filter(|s| matches!(*s, "put_last_state" | "put_last_n_headers")).collect();
                                    if !tip_sites.is_empty() {
                                        meta_lines.push("tip 1 1 |".to_string());
                                        meta_impls.push(format!("writes {}", tip_sites.join(" ")));
                                    }
                                }
                                let after = observe_all(&node, branches, serving);
                                let bans_now = node.i().nc_filter.rec.lock().unwrap().banned.len();
                                if rp == SupportProtocols::Filter.protocol_id() && bans_now > bans_before {
                                    let tip_hash = node.i().storage.get_tip_header().calc_header_hash();
                                    let pb = peer_branch.get(p.value()).copied().unwrap_or(serving);
                                    let peer_proved_on_its_chain = node
                                        .i()
                                        .peers
                                        .get_state(&p)
                                        .and_then(|st| st.get_prove_state().map(|ps| branches[pb].chain.number_of_hash(&ps.get_last_header().header().hash()).is_some()))
                                        .unwrap_or(false);
                                    if branches[pb].chain.number_of_hash(&tip_hash).is_none() || !peer_proved_on_its_chain {
                                        bans_in_window += bans_now - bans_before;
                                        rep.count_class("ban-for-an-answer-between-announcement-and-proof");
                                    }
                                }
                                if kind == "BlockFilters" && after.min_f > before.min_f {
                                    let tip_hash = node.i().storage.get_tip_header().calc_header_hash();
                                    let pb = peer_branch.get(p.value()).copied().unwrap_or(serving);
                                    if branches[pb].chain.number_of_hash(&tip_hash).is_none() {
                                        // the first block on which the peer's chain and the tip's differ
                                        if let Some(tb) = branch_of_tip(&node, branches, serving) {
                                            let fp = (0..=branches[pb].chain.tip_number().min(branches[tb].chain.tip_number()))
                                                .rev()
                                                .find(|m| branches[pb].chain.header(*m).hash() == branches[tb].chain.header(*m).hash())
                                                .unwrap_or(0);
                                            if after.min_f > fp {
                                                foreign_ranges.push((fp.max(before.min_f) + 1, after.min_f));
                                                foreign_filters = Some(format!(
                                                    "peer {} (still on branch {}, which parts from the stored tip's branch {} after block {}) moved the filtered height from {} to {}",
                                                    p, pb, tb, fp, before.min_f, after.min_f
                                                ));
                                                rep.count_class("filters-of-a-lagging-peer-accepted");
                                            }
                                        }
                                    }
                                }
                                if debug {
                                    eprintln!(
                                        "  step {:?}: peer {} (branch {}) {} start {:?}: {} => {} | tip {}",
                                        step,
                                        p,
                                        peer_branch.get(p.value()).copied().unwrap_or(serving),
                                        kind,
                                        start,
                                        show_obs(&before),
                                        show_obs(&after),
                                        { let t = node.i().storage.get_tip_header(); let n: u64 = t.raw().number().unpack(); n }
                                    );
                                }
                                let op = if rp == SupportProtocols::LightClient.protocol_id() {
                                    let tip_after = node.i().storage.get_tip_header().calc_header_hash();
                                    if tip_after != tip_before && chain.number_of_hash(&tip_before).is_none() {
                                        // the tip moved to another branch: the fork point is the
                                        // highest block of the new chain that the old tip's branch shares
                                        let old_branch = branches.iter().find(|b| b.chain.number_of_hash(&tip_before).is_some()).expect("old tip");
                                        let n_old = old_branch.chain.number_of_hash(&tip_before).unwrap();
                                        let fp = (0..=n_old.min(chain.tip_number()))
                                            .rev()
                                            .find(|m| old_branch.chain.header(*m).hash() == chain.header(*m).hash())
                                            .unwrap_or(0);
                                        rep.count_op("fork-adopted");
                                        if before != after {
                                            rolled_back = true;
                                        }
                                        Some(format!("fork {}", fp))
                                    } else {
                                        None
                                    }
                                } else {
                                    model_op_after(&before, &after, &kind, start, volatile_empty)
                                };
                                if let Some(op) = op {
                                    rep.count_op(op.split(' ').next().unwrap_or(""));
                                    lines.push(op);
                                    impls.push(String::new());
                                    lines.push("dump".into());
                                    impls.push(show_obs(&after));
                                }
                                // C09: after the first switch; C04: in a third of the histories,
                                // also before it (a low number moves the filter sync back below
                                // blocks that stay indexed: a fork in that window must still roll
                                // them back)
                                // C09: the client is restarted while the record of this batch is pending
                                // (the in-memory matched blocks are empty until the filter timer reads
                                // the record again); the peer is proved again by the refresh timer
                                // alone, and the same - now stale - BlockFilters answer arrives once
                                // more: nothing may be claimed for blocks that wait in the record
                                if let Some(stale) = saved_filters {
                                    let pending = !after.records.is_empty();
                                    if pending && !restarted_once && fnv(&format!("{}:{}:restart", seed, lines.len())) % 3 == 0 {
                                        restarted_once = true;
                                        rep.count_op("restart-then-stale-filters");
                                        let r = catch(|| {
                                            node.restart();
                                            node.connect(p);
                                            // the peer is proved for the stored tip again (the state a proof
                                            // exchange ends in; with an unchanged chain the client itself would
                                            // not ask for one)
                                            let ch = &branches[peer_branch.get(p.value()).copied().unwrap_or(serving)].chain;
                                            let tip = node.i().storage.get_tip_header().calc_header_hash();
                                            if let Some(n) = ch.number_of_hash(&tip) {
                                                use crate::protocols::light_client::{LastState, ProveRequest, ProveState};
                                                let vh: ckb_types::utilities::merkle_mountain_range::VerifiableHeader = ch.verifiable_header(n).into();
                                                let ls = LastState::new(vh);
                                                let peers = std::sync::Arc::clone(&node.i().peers);
                                                let r1 = true; // `connected` has requested the last state already
                                                let r2 = peers.update_last_state(p, ls.clone()).is_ok();
                                                let req = ProveRequest::new(ls, Default::default());
                                                let r3 = peers.update_prove_request(p, req.clone()).is_ok();
                                                let r4 = peers.update_prove_state(p, ProveState::new_from_request(req, vec![], vec![])).is_ok();
                                                if debug {
                                                    eprintln!("  proved directly: {} {} {} {}", r1, r2, r3, r4);
                                                }
                                            }
                                        });
                                        if let Err(e) = r {
                                            aborted = Some(e);
                                            break 'steps;
                                        }
                                        let before2 = observe_all(&node, branches, serving);
                                        let ve2 = node.i().peers.matched_blocks().read().unwrap().is_empty();
                                        if let Err(e) = catch(|| node.deliver(p, rp, stale)) {
                                            aborted = Some(e);
                                            break 'steps;
                                        }
                                        let after2 = observe_all(&node, branches, serving);
                                        if debug {
                                            eprintln!(
                                                "  restart + stale filters: proved {} volatile-empty {} start {:?}: {} => {}",
                                                node.i().peers.get_state(&p).map(|s| s.get_prove_state().is_some()).unwrap_or(false),
                                                ve2,
                                                start,
                                                show_obs(&before2),
                                                show_obs(&after2)
                                            );
                                        }
                                        if ve2 {
                                            rep.count_class("stale-filters-with-the-record-not-yet-recovered");
                                        }
                                        if let Some(op) = model_op_after(&before2, &after2, &kind, start, ve2) {
                                            lines.push(op);
                                            impls.push(String::new());
                                            lines.push("dump".into());
                                            impls.push(show_obs(&after2));
                                        }
                                        // no overclaim: a matched block that waits in a record is at or
                                        // below no script's number
                                        let (facts_now, _) = index_dump(&node);
                                        for (_, _, nums) in after2.records.iter() {
                                            for b in nums {
                                                // (the three scripts registered from 0; a block that touches the script)
                                                if let Some((sid, n)) = after2.scripts.iter().find(|(sid, n)| {
                                                    **sid <= N_SCRIPTS && **n >= *b && *b != 999_999 && *b > reg_start && branches[serving].facts.iter().any(|f| f.0 == **sid && f.1 == *b)
                                                        && !facts_now.iter().any(|f| f.0 == **sid && f.1 == *b)
                                                }) {
                                                    rep.violate(
                                                        "C09|overclaim|stale-filters-after-restart",
                                                        "get_scripts reports a script as filtered up to a height at or above a block that touches it, is not indexed and is still waiting in a record",
                                                        replay(format!("# after a restart and a stale BlockFilters answer: script {} reports {} but block {} waits in a record", sid, n, b)),
                                                    );
                                                }
                                            }
                                        }
                                    }
                                }
                                let with_cmds = prop == "C09" || (prop == "C04" && cmd_seeds.contains(seed));
                                if with_cmds && cmd_rng.chance(if seen_switch || prop == "C04" { 1 } else { 0 }, 4) {
                                    let low = cmd_rng.range(0, 12);
                                    let (cmd, line, number) = if extra_registered {
                                        (SetScriptsCommand::Delete, "set 2 | 11 0".to_string(), 0u64)
                                    } else if prop == "C04" || cmd_rng.chance(1, 2) {
                                        (SetScriptsCommand::Partial, format!("set 1 | 11 {}", low), low)
                                    } else {
                                        (SetScriptsCommand::Partial, "set 1 | 11 100000".to_string(), 100_000u64)
                                    };
                                    let is_delete = extra_registered;
                                    extra_registered = !extra_registered;
                                    let statuses = vec![ScriptStatus { script: script_of(1).into(), script_type: ScriptType::Type, block_number: number.into() }];
                                    let rpc = node.filter_rpc();
                                    if let Err(e) = catch(|| rpc.set_scripts(statuses, Some(cmd)).expect("set_scripts")) {
                                        aborted = Some(e);
                                        break 'steps;
                                    }
                                    let _ = number;
                                    rep.count_op(if is_delete { "set-delete-other" } else { "set-partial-other" });
                                    if debug {
                                        eprintln!("  set_scripts {} => {}", lines[lines.len() - 1], show_obs(&observe_all(&node, branches, serving)));
                                    }
                                    lines.push(line);
                                    impls.push(String::new());
                                    lines.push("dump".into());
                                    impls.push(show_obs(&observe_all(&node, branches, serving)));
                                }
                            }
                        }
                    }
                }
            }
            // ---- every index entry belongs to the branch of the stored tip
            if let Some(bi) = branch_of_tip(&node, branches, serving) {
                let (facts, cells) = index_dump(&node);
                let truth: BTreeSet<Fact> = branches[bi].facts.iter().cloned().collect();
                if let Some(f) = facts.iter().find(|f| !truth.contains(*f)) {
                    rep.violate(
                        &format!("{}|stale-history-entry", prop),
                        "the index holds a history entry of a block that is not on the branch of the stored tip",
                        replay(format!("# after step {:?}: script {} block {} tx {} cell {} output {}", step, f.0, f.1, short(&f.2), f.3, f.4)),
                    );
                }
                let created: BTreeSet<Cell> = truth.iter().filter(|f| f.4).map(|f| (f.0, f.1, f.2.clone(), f.3)).collect();
                if let Some(c) = cells.iter().find(|c| !created.contains(*c)) {
                    rep.violate(
                        &format!("{}|stale-cell", prop),
                        "the index holds a cell that no block on the branch of the stored tip creates",
                        replay(format!("# after step {:?}: script {} block {} tx {} index {}", step, c.0, c.1, short(&c.2), c.3)),
                    );
                }
            } else {
                rep.violate(&format!("{}|tip-unknown", prop), "the stored tip is on no branch the peer ever served", replay(format!("# after step {:?}", step)));
            }
        }
        crate::verif_hooks::set_before_write(None);
        if crash_at.is_none() {
            if rolled_back {
                rep.nontrivial.insert(fnv(&format!("{}:{}", seed, len)));
            }
            for _ in 0..lines.len() {
                owner.push(hi);
            }
            all_lines.extend(lines);
            all_impls.extend(impls);
            if prop == "C08" {
                // crash points: every write if there are few, else a sample
                let total = writes.get();
                let mut r2 = Rng::new(*seed ^ 0xc8c8);
                let mut ks: BTreeSet<u64> = if opts.thorough() || total <= 30 { (1..=total).collect() } else { (0..30).map(|_| r2.range(1, total)).collect() };
                // the writes of a tip update / fork switch and their neighbours are always taken
                // (tip, remembered headers, record removals, the rollback batch next to them)
                for (i, site) in sites.borrow().iter().enumerate() {
                    if matches!(*site, "put_last_state" | "put_last_n_headers" | "delete_matched_blocks") && ks.len() < 120 {
                        let k = i as u64 + 1;
                        for j in [k.saturating_sub(1).max(1), k, (k + 1).min(total)] {
                            ks.insert(j);
                        }
                    }
                }
                crash_points.extend(ks.into_iter().map(Some));
            }
        } else {
            rep.evaluations += 1;
            match &aborted {
                Some(m) if m.contains("simulated crash") => {
                    rep.count_class("crash:injected");
                    aborted = None;
                    let k = crash_at.unwrap_or(0) as usize;
                    // the crash hit the delivery of a proof and the stored tip is still on the
                    // branch the client came from: the fork handling (one batch since the repair;
                    // record deletions and a rollback batch before it) was interrupted or done,
                    // the tip update was not
                    let tip_on_old = serving > 0 && {
                        let tip = node.i().storage.get_tip_header().calc_header_hash();
                        branches[serving].chain.number_of_hash(&tip).is_none() && branches[serving - 1].chain.number_of_hash(&tip).is_some()
                    };
                    if prop == "C08" && in_lc_delivery.get() && tip_on_old {
                        rep.count_class("crash:inside-fork-handling");
                        if k % 2 == 0 && serving > 0 {
                            let old = &branches[serving - 1];
                            let new_tip = branches[serving].chain.tip_number();
                            let mut r3 = Rng::new(*seed ^ 0x01d_c4a1);
                            let mut b = old.fork_of(old.chain.tip_number(), 77);
                            b.extend(&mut r3, new_tip.saturating_sub(old.chain.tip_number()) + 3, 77);
                            old_ext = Some(b);
                            rep.count_class("crash:inside-fork-handling:old-branch-wins");
                        }
                    }
                    if let Err(e) = catch(|| node.restart()) {
                        rep.violate(
                            "C08|store-unusable-after-crash|fork-history",
                            "the client aborts at start-up after a crash",
                            replay(format!("# start-up panic: {}", e.chars().take(200).collect::<String>())),
                        );
                        continue;
                    }
                }
                _ => {
                    // the crash point was not reached (or the run ended otherwise): nothing new
                    continue;
                }
            }
        }

        if let Some(msg) = aborted {
            if msg.contains("long fork detected") {
                rep.count_class("abort:long-fork");
                // the documented abort is for a fork that shares none of the remembered headers
                {
                    let st = &node.i().storage;
                    let chain = &branches[serving].chain;
                    let mut remembered: Vec<(u64, Byte32)> = st.get_last_n_headers();
                    let tip = st.get_tip_header();
                    remembered.push((tip.raw().number().unpack(), tip.calc_header_hash()));
                    let shared = remembered.iter().filter(|(n, h)| *n <= chain.tip_number() && &chain.header(*n).hash() == h).map(|(n, _)| *n).max();
                    if let Some(n) = shared {
                        rep.violate(
                            &format!("{}|long-fork-abort|remembered-header-shared", prop),
                            "the client stops with the long-fork abort although the new branch shares one of its remembered headers",
                            replay(format!("# remembered block {} is on the new branch; {} peers", n, n_peers)),
                        );
                    }
                }
                // never adopted piecemeal: tip and index are still those of the old branch
                // (with several peers another peer may have moved the tip to the new branch before
                // a lagging peer's proof is taken for a long fork: only the abort is wrong then)
                if let Some(bi) = branch_of_tip(&node, branches, 0).filter(|_| n_peers == 1) {
                    if bi == serving && serving != 0 {
                        // the tip is on the new branch only if it is on the shared prefix
                        let tip = node.i().storage.get_tip_header().calc_header_hash();
                        let on_old = branches[..serving].iter().any(|b| b.chain.number_of_hash(&tip).is_some());
                        if !on_old {
                            rep.violate(&format!("{}|long-fork-adopted", prop), "the tip moved to a fork without a remembered common header", replay("# at the long-fork abort".into()));
                        }
                    }
                }
                continue;
            }
            rep.violate(
                &format!("{}|abort|{}", prop, super::c14::panic_class(&msg)),
                "the client aborts while following an honest peer through a reorganisation",
                replay(format!("# panic: {}", msg)),
            );
            continue;
        }

        // ---- convergence on the final branch (which keeps growing without activity)
        let fin: &Branch = old_ext.as_ref().unwrap_or(&branches[serving]);
        let mut grown = fin.chain.fork(fin.chain.tip_number(), 99);
        let mut conv_abort = None;
        for _ in 0..8 {
            grown.append_simple(1);
            let chain_of = |_p: PeerIndex| Some(&grown);
            for p in 1..=n_peers {
                if node.i().peers.get_state(&PeerIndex::new(p)).is_none() {
                    node.connect(PeerIndex::new(p));
                }
            }
            if let Err(e) = catch(|| node.run_to_quiescence(&chain_of, &sopts, &mut now, 3000, 400)) {
                conv_abort = Some(e);
                break;
            }
            let quiet = node.i().peers.get_state(&peer).is_some()
                && node.i().peers.matched_blocks().read().unwrap().is_empty()
                && node.i().storage.get_earliest_matched_blocks().is_none()
                && node.i().storage.get_min_filtered_block_number() >= fin.chain.tip_number();
            if quiet {
                break;
            }
            now += 120_000;
            set_now(now);
        }
        if debug {
            eprintln!("seed {} requests {:?} bans {:?} errors {:?}", seed, node.requests, node.bans, node.server_errors);
        }
        if let Some(msg) = conv_abort {
            if msg.contains("long fork detected") {
                rep.count_class("abort:long-fork");
                continue;
            }
            rep.violate(
                &format!("{}|abort|{}", prop, super::c14::panic_class(&msg)),
                "the client aborts while following an honest peer through a reorganisation",
                replay(format!("# panic during convergence: {}", msg)),
            );
            continue;
        }
        rep.count_class("converged");
        // every peer of these histories follows the protocol: none of them may be banned
        // (histories with one peer, or with two of which the first left before the second
        // followed: while two connected peers are on different branches for a moment, the hashes
        // of the one that lags contradict the filters of the other - not judged here)
        // (a message for a session the client has dropped is answered with PeerIsNotFound: no ban)
        node.bans.retain(|(_, m)| !m.starts_with("PeerIsNotFound"));
        if prop == "C04" && !node.bans.is_empty() && (n_peers == 1 || (first_left && n_peers == 2)) {
            let what: Vec<String> = node.bans.iter().map(|(p, m)| format!("peer {}: {}", p, m.chars().take(90).collect::<String>())).collect();
            let code = node.bans[0].1.split(|c: char| !c.is_ascii_alphanumeric()).find(|w| !w.is_empty()).unwrap_or("?").to_string();
            let real_bans = node.bans.iter().filter(|(_, m)| !m.starts_with("PeerIsNotFound")).count();
            if bans_in_window >= real_bans {
                rep.violate(
                    &format!("{}|honest-peer-banned|{}|answer-between-announcement-and-proof", prop, code),
                    "a peer that has reorganised and announced its new tip answers a request of the filter protocol from its new chain before the client has asked it for the proof: the client still judges the answer by the peer's previous proved chain and bans the honest peer",
                    replay(format!("# bans: {:?}", what)),
                );
            } else {
                rep.violate(
                    &format!("{}|honest-peer-banned|{}", prop, code),
                    "a peer that follows the protocol is banned while the client follows a reorganisation",
                    replay(format!("# bans: {:?}", what)),
                );
            }
            continue;
        }
        let tip = node.i().storage.get_tip_header().calc_header_hash();
        if grown.number_of_hash(&tip).is_none() {
            rep.violate(&format!("{}|not-converged", prop), "the client does not reach the honest peer's chain after the reorganisation", replay(format!("# stored tip {} is not on the final branch", short(&tip))));
            continue;
        }
        let min_f = node.i().storage.get_min_filtered_block_number();
        if min_f < fin.chain.tip_number() || node.i().storage.get_earliest_matched_blocks().is_some() {
            let stale = stale_record(&node, &grown);
            rep.violate(
                &(if stale { format!("{}|stuck|abandoned-block-in-retained-record", prop) } else { format!("{}|stuck|other", prop) }),
                if stale {
                    "a matched-blocks record that starts at or below the fork point but reaches beyond it is retained with block hashes of the abandoned branch: the client asks for them forever and the filter sync never completes"
                } else {
                    "after the reorganisation the filter sync never completes"
                },
                replay(format!("# min filtered {} tip {} earliest record {:?}; bans {:?}", min_f, fin.chain.tip_number(), node.i().storage.get_earliest_matched_blocks().map(|r| (r.0, r.1, r.2.len())), node.bans)),
            );
            continue;
        }
        let (facts, cells) = index_dump(&node);
        let truth: BTreeSet<Fact> = fin.facts.iter().filter(|f| f.1 > reg_start).cloned().collect();
        let missing_facts: Vec<&Fact> = truth.difference(&facts).collect();
        // an input that spends a cell created at or below the start number cannot be attributed:
        // the index never saw the transaction that created the cell
        let (pre, other): (Vec<&Fact>, Vec<&Fact>) = missing_facts
            .into_iter()
            .partition(|f| !f.4 && fin.spent_created.get(&(f.2.clone(), f.3)).map(|c| *c <= reg_start).unwrap_or(false));
        let show = |v: &Vec<&Fact>| -> Vec<String> { v.iter().take(4).map(|f| format!("script {} block {} tx {} cell {} output {}", f.0, f.1, short(&f.2), f.3, f.4)).collect() };
        let extra: Vec<String> = facts.difference(&truth).take(4).map(|f| format!("script {} block {} tx {} cell {} output {}", f.0, f.1, short(&f.2), f.3, f.4)).collect();
        if !pre.is_empty() {
            rep.violate(
                &format!("{}|history-missing|spend-of-a-cell-created-before-the-start-number", prop),
                "a transaction after the start number that spends a cell of the script created at or before the start number is not reported",
                replay(format!("# scripts registered from {}; missing: {:?}", reg_start, show(&pre))),
            );
        }
        let in_foreign = |b: u64| foreign_ranges.iter().any(|(lo, hi)| *lo <= b && b <= *hi);
        let how = foreign_filters.clone().unwrap_or_default();
        {
            // only activity of heights that were passed on a lagging peer's filters belongs to the
            // recorded finding; anything else missing is reported as what it is
            let (known, unknown): (Vec<&Fact>, Vec<&Fact>) = other.into_iter().partition(|f| in_foreign(f.1));
            if !known.is_empty() {
                rep.violate(
                    &format!("{}|history-missing|filters-of-a-lagging-peer-accepted", prop),
                    "while the peers follow a reorganisation one after the other, the block filters of a peer that is still on the abandoned branch are accepted for heights above the fork point (its filter hashes have the quorum of the peers that lag) although the stored tip is on the new branch: the filtered height passes blocks of the new branch that were never examined, their activity is lost",
                    replay(format!("# {}; scripts registered from {}; missing: {:?}", how, reg_start, show(&known))),
                );
            }
            if !unknown.is_empty() {
                rep.violate(&format!("{}|history-missing", prop), "after the chain moved and the sync converged the history misses activity of the new chain", replay(format!("# scripts registered from {}; missing: {:?}", reg_start, show(&unknown))));
            }
        }
        if !extra.is_empty() {
            rep.violate(&format!("{}|history-extra", prop), "after the reorganisation and convergence the history holds entries that are not on the new chain", replay(format!("# extra: {:?}", extra)));
        }
        let tcells: BTreeSet<Cell> = fin.cells().into_iter().filter(|c| c.1 > reg_start).collect();
        let showc = |v: &Vec<&Cell>| -> Vec<String> { v.iter().take(4).map(|c| format!("script {} block {} tx {} index {}", c.0, c.1, short(&c.2), c.3)).collect() };
        // a missing live cell belongs to the finding when the block that creates it was passed; a
        // cell that is still reported although it is spent, when the block that spends it was
        let (mk, mu): (Vec<&Cell>, Vec<&Cell>) = tcells.difference(&cells).partition(|c| in_foreign(c.1));
        let spent_in = |c: &Cell| -> Option<u64> { fin.txlog.iter().find(|t| t.2.iter().any(|l| l.tx_hash == c.2 && l.index == c.3)).map(|t| t.0) };
        let (ek, eu): (Vec<&Cell>, Vec<&Cell>) = cells.difference(&tcells).partition(|c| spent_in(c).map(|b| in_foreign(b)).unwrap_or(false));
        if !mk.is_empty() {
            rep.violate(
                &format!("{}|cell-missing|filters-of-a-lagging-peer-accepted", prop),
                "the same cause seen in get_cells: a cell created in a block of the new branch that the filtered height passed on the filters of a lagging peer is not reported",
                replay(format!("# {}; missing: {:?}", how, showc(&mk))),
            );
        }
        if !mu.is_empty() {
            rep.violate(&format!("{}|cell-missing", prop), "after the reorganisation a cell that is live on the new chain is not reported (e.g. spent only on the abandoned branch)", replay(format!("# missing: {:?}", showc(&mu))));
        }
        if !ek.is_empty() {
            rep.violate(
                &format!("{}|cell-extra|filters-of-a-lagging-peer-accepted", prop),
                "the same cause seen in get_cells: a cell spent in a block of the new branch that was never examined is still reported live",
                replay(format!("# {}; extra: {:?}", how, showc(&ek))),
            );
        }
        if !eu.is_empty() {
            rep.violate(&format!("{}|cell-extra", prop), "after the reorganisation a cell is reported live that is not live on the new chain", replay(format!("# extra: {:?}", showc(&eu))));
        }
        } // crash points
    }
    crate::verif_hooks::set_before_write(None);
    ckb_systemtime::faketime().disable_faketime();
    if meta_lines.len() > 2 {
        let ans = run_model(opts, "meta", &meta_lines);
        let mut reported = false;
        for (i, a) in ans.iter().enumerate() {
            if meta_impls[i].is_empty() || *a == meta_impls[i] {
                rep.traces_validated += 1;
            } else if !reported {
                reported = true;
                rep.disagree(&format!("meta: {} (the store writes of a tip update)", meta_lines[i]), &meta_impls[i], a);
            }
        }
    }
    let answers = run_model(opts, "sync", &all_lines);
    let mut bad = BTreeSet::new();
    for (i, a) in answers.iter().enumerate() {
        if all_impls[i].is_empty() {
            continue;
        }
        if *a == all_impls[i] {
            rep.traces_validated += 1;
        } else if bad.insert(owner[i]) {
            let (seed, len) = seeds[owner[i]];
            rep.disagree(
                &format!("{} after `{}`  [history-seed {} len {}]", all_lines[i], all_lines[i.saturating_sub(1)], seed, len),
                &all_impls[i],
                a,
            );
        }
    }
    let _: BTreeMap<u64, u64> = BTreeMap::new();
    rep
}

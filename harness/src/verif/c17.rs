//! C17 — concurrent RPC calls and protocol handlers behave like some serial order.
//!
//! A client state is built deterministically from a seed: an honest peer on a dummy-PoW chain
//! with script activity, scripts registered, the filter sync in progress with a matched-blocks
//! record pending.  Four operations are captured against that state without being delivered:
//! the next `BlockFilters` reply, the `SendBlock` whose arrival completes the earliest record, a
//! `SendLastStateProof` that switches the client to a fork of depth 1..3 (sometimes up to 10), and
//! a `set_scripts` command.  Every ordered pair of them runs
//!  * serially in both orders on freshly rebuilt states (the reference outcomes, also computed by
//!    the `Sync` Lean layer), and
//!  * on two OS threads: the first thread is paused by its `before_write` hook in front of its
//!    k-th store write (every k), the second thread is started and watched: with the lock in
//!    place it performs no store write while the first is paused inside its critical section.
//!    Readers (`get_cells` / `get_transactions` / `get_cells_capacity`) run at every pause and
//!    must see exactly the store cut at that write.
//! Triples run on three free threads (shuffled start, a reader / timer thread as noise) against
//! the six serial outcomes.
//!
//! With the cargo feature `c17_reader_point` (needs the `reader_point` hook in /repo, see
//! hooks.diff of the C17 hand-over) a reader is additionally paused INSIDE a query while a writer
//! runs to completion: it must answer from the point in time of its snapshot.
//!
//! Timing: a run that has not finished after `C17_JOIN_MS` (10 s) gets `C17_GRACE_MS` (60 s) more
//! before it is called a deadlock (a deadlock stays, a stall of a loaded machine passes).
//!
//! Threads get their own handler objects over the shared `Storage` (an `Arc<DB>`) and
//! `Arc<Peers>`, like the protocol tasks and the RPC threads of the real process.

use std::collections::{BTreeMap, BTreeSet};
use std::sync::atomic::{AtomicBool, AtomicU64, Ordering};
use std::sync::{mpsc, Arc, Barrier, Mutex, RwLock};
use std::time::{Duration, Instant};

use ckb_chain_spec::consensus::Consensus;
use ckb_network::{bytes::Bytes, CKBProtocolHandler, PeerIndex, SupportProtocols};
use ckb_types::{packed, prelude::*};

use super::c04::{index_dump, parse_seeds, Branch, Cell, Fact};
use super::env::{as_ctx, block_on, MockContext};
use super::node::{request_name, set_now, Node};
use super::server::{self, ServerOpts};
use super::sync::{classify, model_op_after, observe, reg_of, script_of, show_obs, Obs, N_SCRIPTS};
use super::{catch, fnv, run_model, Options, Report, Rng};
use crate::protocols::{FilterProtocol, LightClientProtocol, Peers, PendingTxs, SyncProtocol};
use crate::service::{
    BlockFilterRpc, BlockFilterRpcImpl, Order, ScriptStatus, ScriptType, SearchKey,
    SetScriptsCommand,
};
use crate::storage::{Storage, StorageWithChainData};

/// the client remembers this many headers below its tip: forks up to this depth are followed
const LAST_N: u64 = 12;
const PEER: usize = 1;

fn pause_ms() -> u64 {
    std::env::var("C17_PAUSE_MS").ok().and_then(|s| s.parse().ok()).unwrap_or(150)
}
fn join_ms() -> u64 {
    std::env::var("C17_JOIN_MS").ok().and_then(|s| s.parse().ok()).unwrap_or(10_000)
}
/// a thread that has not finished after `join_ms` is given this much more time before the run is
/// called a deadlock: a deadlock stays, a stall of a loaded machine passes
fn grace_ms() -> u64 {
    std::env::var("C17_GRACE_MS").ok().and_then(|s| s.parse().ok()).unwrap_or(60_000)
}
static SLOW_JOINS: AtomicU64 = AtomicU64::new(0);

// ---------------------------------------------------------------------------------------------
// operations

#[derive(Clone)]
enum Op {
    /// `set_scripts(cmd, [(registration id, block number)])`
    Set(u8, Vec<(u64, u64)>),
    /// a `BlockFilters` message (filter protocol)
    Filters(Bytes),
    /// a `SendBlock` message (sync protocol)
    Block(Bytes),
    /// a `SendLastStateProof` message (light-client protocol)
    Fork(Bytes),
}

const OP_NAMES: [&str; 4] = ["set", "filters", "block", "fork"];

impl Op {
    fn idx(&self) -> usize {
        match self {
            Op::Set(..) => 0,
            Op::Filters(_) => 1,
            Op::Block(_) => 2,
            Op::Fork(_) => 3,
        }
    }
    fn name(&self) -> &'static str {
        OP_NAMES[self.idx()]
    }
    fn fingerprint(&self) -> u64 {
        match self {
            Op::Set(c, l) => fnv(&format!("{} {:?}", c, l)),
            Op::Filters(b) | Op::Block(b) | Op::Fork(b) => fnv(&format!("{:x}", b)),
        }
    }
}

/// is a store write of operation `op` at write site `site` inside the critical section?  Every
/// write of `set_scripts`, of a filter batch and of a record completion is; of the fork switch
/// the record removals and the rollback batch are, the tip update that follows is not.
fn under_lock(op: usize, site: &str) -> bool {
    !(op == 3 && (site == "put_last_state" || site == "put_last_n_headers"))
}

/// what a thread needs: the shared store and peer table (everything else is per thread)
#[derive(Clone)]
struct Handle {
    storage: Storage,
    peers: Arc<Peers>,
    pending: Arc<RwLock<PendingTxs>>,
    consensus: Consensus,
    seed: u64,
}

impl Handle {
    fn of(node: &Node, seed: u64) -> Handle {
        let i = node.i();
        Handle {
            storage: i.storage.clone(),
            peers: Arc::clone(&i.peers),
            pending: Arc::clone(&i.pending),
            consensus: node.consensus.clone(),
            seed,
        }
    }

    fn rpc(&self) -> BlockFilterRpcImpl {
        BlockFilterRpcImpl {
            swc: StorageWithChainData::new(
                self.storage.clone(),
                Arc::clone(&self.peers),
                Arc::clone(&self.pending),
            ),
        }
    }

    /// runs `op` with fresh handler objects of the calling thread; returns the bans it caused
    fn exec(&self, op: &Op) -> Vec<String> {
        let peer = PeerIndex::new(PEER);
        match op {
            Op::Set(cmd, list) => {
                let statuses: Vec<ScriptStatus> = list
                    .iter()
                    .map(|(id, n)| {
                        let (sc, ty) = reg_of(*id);
                        ScriptStatus { script: sc.into(), script_type: ty, block_number: (*n).into() }
                    })
                    .collect();
                let command = match cmd {
                    0 => SetScriptsCommand::All,
                    1 => SetScriptsCommand::Partial,
                    _ => SetScriptsCommand::Delete,
                };
                match self.rpc().set_scripts(statuses, Some(command)) {
                    Ok(()) => Vec::new(),
                    Err(e) => vec![format!("rpc-error {}", e.message)],
                }
            }
            Op::Filters(bytes) => {
                let nc = MockContext::new(SupportProtocols::Filter);
                nc.connect(peer);
                let mut h = FilterProtocol::new(self.storage.clone(), Arc::clone(&self.peers));
                block_on(h.received(as_ctx(&nc), peer, bytes.clone()));
                nc.take().banned.into_iter().map(|b| b.2).collect()
            }
            Op::Block(bytes) => {
                let nc = MockContext::new(SupportProtocols::Sync);
                nc.connect(peer);
                let mut h = SyncProtocol::new(self.storage.clone(), Arc::clone(&self.peers));
                block_on(h.received(as_ctx(&nc), peer, bytes.clone()));
                nc.take().banned.into_iter().map(|b| b.2).collect()
            }
            Op::Fork(bytes) => {
                let nc = MockContext::new(SupportProtocols::LightClient);
                nc.connect(peer);
                let mut h = LightClientProtocol::new(
                    self.storage.clone(),
                    Arc::clone(&self.peers),
                    self.consensus.clone(),
                );
                h.verif_set_last_n_blocks(LAST_N);
                block_on(h.received(as_ctx(&nc), peer, bytes.clone()));
                nc.take().banned.into_iter().map(|b| b.2).collect()
            }
        }
    }

    /// the timer of the light-client protocol that reads the matched-blocks map
    fn idle_blocks_timer(&self) {
        use crate::protocols::light_client::verif_exports::constant as c;
        let peer = PeerIndex::new(PEER);
        let nc = MockContext::new(SupportProtocols::LightClient);
        nc.connect(peer);
        let mut h = LightClientProtocol::new(
            self.storage.clone(),
            Arc::clone(&self.peers),
            self.consensus.clone(),
        );
        h.verif_set_last_n_blocks(LAST_N);
        block_on(h.notify(as_ctx(&nc), c::GET_IDLE_BLOCKS_TOKEN));
    }
}

// ---------------------------------------------------------------------------------------------
// readers

fn search_key(sid: u64, grouped: bool) -> SearchKey {
    SearchKey {
        script: script_of(sid).into(),
        script_type: ScriptType::Lock,
        filter: None,
        with_data: Some(true),
        group_by_transaction: if grouped { Some(true) } else { None },
    }
}

fn hex_u64(v: &serde_json::Value) -> u64 {
    v.as_str()
        .and_then(|s| u64::from_str_radix(s.trim_start_matches("0x"), 16).ok())
        .unwrap_or(u64::MAX)
}

/// one pass of the three reading RPCs over the three scripts; `Err` = a query aborted or
/// `get_cells_capacity` disagrees with the cells returned by `get_cells` in the same pass
fn reader_pass(h: &Handle) -> Result<Vec<String>, String> {
    let rpc = h.rpc();
    let mut out = Vec::new();
    for sid in 1..=N_SCRIPTS {
        let cells = catch(|| rpc.get_cells(search_key(sid, false), Order::Asc, 1000u32.into(), None))
            .map_err(|e| format!("get_cells panic: {}", e))?
            .map_err(|e| format!("get_cells error: {}", e.message))?;
        let cells_json = serde_json::to_value(&cells).expect("json");
        let sum: u64 = cells_json["objects"]
            .as_array()
            .map(|a| a.iter().map(|c| hex_u64(&c["output"]["capacity"])).sum())
            .unwrap_or(0);
        let cap = catch(|| rpc.get_cells_capacity(search_key(sid, false)))
            .map_err(|e| format!("get_cells_capacity panic: {}", e))?
            .map_err(|e| format!("get_cells_capacity error: {}", e.message))?;
        let cap_json = serde_json::to_value(&cap).expect("json");
        let cap_v = hex_u64(&cap_json["capacity"]);
        if cap_v != sum {
            return Err(format!(
                "script {}: get_cells_capacity {} but the cells of get_cells sum up to {}",
                sid, cap_v, sum
            ));
        }
        let txs = catch(|| rpc.get_transactions(search_key(sid, false), Order::Asc, 1000u32.into(), None))
            .map_err(|e| format!("get_transactions panic: {}", e))?
            .map_err(|e| format!("get_transactions error: {}", e.message))?;
        let gtxs = catch(|| rpc.get_transactions(search_key(sid, true), Order::Desc, 1000u32.into(), None))
            .map_err(|e| format!("get_transactions(grouped) panic: {}", e))?
            .map_err(|e| format!("get_transactions(grouped) error: {}", e.message))?;
        out.push(format!("cells[{}] {}", sid, cells_json));
        out.push(format!("capacity[{}] {}", sid, cap_json));
        out.push(format!("txs[{}] {}", sid, serde_json::to_value(&txs).expect("json")));
        out.push(format!("gtxs[{}] {}", sid, serde_json::to_value(&gtxs).expect("json")));
    }
    Ok(out)
}

/// `reader_pass` on its own thread with a time limit (a reader must never wait for a writer)
fn reader_thread(h: &Handle) -> Result<Result<Vec<String>, String>, &'static str> {
    let (tx, rx) = mpsc::channel();
    let h2 = h.clone();
    std::thread::spawn(move || {
        let _ = tx.send(reader_pass(&h2));
    });
    match join(&rx) {
        Ok(r) => Ok(r),
        Err(true) => Err("timeout"),
        Err(false) => Err("harness"),
    }
}

// ---------------------------------------------------------------------------------------------
// the world and the build of the client state

struct World {
    seed: u64,
    len: usize,
    main: Branch,
    forked: Branch,
    fork_at: u64,
    /// filters per `BlockFilters` reply (the honest peer sends short batches)
    batch: usize,
    /// records in the store before the next `BlockFilters` reply is held back
    records_before_hold: usize,
    /// which of the blocks of the earliest record stays in flight
    hold_pick: u64,
    /// the holds start when the filter sync has reached this block (everything before it is
    /// delivered: records complete, the index fills)
    progress_target: u64,
    init_scripts: Vec<(u64, u64)>,
    set_op: Op,
    desc: String,
}

fn make_world(seed: u64, len: usize) -> World {
    let mut rng = Rng::new(seed ^ 0xc17);
    let mut main = Branch::new();
    main.extend(&mut rng, len as u64, 1);
    let tip = main.chain.tip_number();
    let depth = if rng.chance(2, 3) { rng.range(1, 3) } else { rng.range(4, 10) };
    let fork_at = tip - depth;
    let mut forked = main.fork_of(fork_at, 2);
    let extra = rng.range(1, 3);
    forked.extend(&mut rng, depth + extra, 2);
    let batch = rng.range(4, 10) as usize;
    let records_before_hold = if rng.chance(1, 3) { 2 } else { 1 };
    let hold_pick = rng.below(16);
    let progress_target = match rng.below(4) {
        0 => 0,
        1 => tip.saturating_sub(rng.range(2, batch as u64 + 8)),
        _ => rng.below(tip.saturating_sub(batch as u64 + 1)),
    };
    // registered scripts: at least one, mostly from the start of the chain
    let mut init_scripts = Vec::new();
    for id in 1..=N_SCRIPTS {
        if rng.chance(2, 3) {
            init_scripts.push((id, *rng.pick(&[0u64, 0, 0, 1, tip / 4])));
        }
    }
    if init_scripts.is_empty() {
        init_scripts.push((rng.range(1, N_SCRIPTS), 0));
    }
    let cmd = rng.below(3) as u8;
    let n = if rng.chance(1, 8) { 0 } else { rng.range(1, 3) };
    let list: Vec<(u64, u64)> = (0..n)
        .map(|_| {
            let id = if rng.chance(1, 6) { 10 + rng.range(1, N_SCRIPTS) } else { rng.range(1, N_SCRIPTS) };
            (id, *rng.pick(&[0u64, 1, tip / 3, tip / 2, tip - 1, tip, tip + 5]))
        })
        .collect();
    let desc = format!(
        "chain of {} blocks, fork at {} (depth {}) to tip {}, filter batches of {}, holds from filtered block {} on, {} record(s) before the hold, registered {:?}, set_scripts({}, {:?})",
        tip, fork_at, depth, forked.chain.tip_number(), batch, progress_target, records_before_hold, init_scripts, cmd, list
    );
    World {
        seed,
        len,
        main,
        forked,
        fork_at,
        batch,
        records_before_hold,
        hold_pick,
        progress_target,
        init_scripts,
        set_op: Op::Set(cmd, list),
        desc,
    }
}

/// an honest `BlockFilters` reply cut to the first `batch` filters
fn truncate_filters(bytes: &Bytes, batch: usize) -> Bytes {
    let msg = match packed::BlockFilterMessageReader::from_compatible_slice(bytes) {
        Ok(m) => m,
        Err(_) => return bytes.clone(),
    };
    if let packed::BlockFilterMessageUnionReader::BlockFilters(r) = msg.to_enum() {
        let bf = r.to_entity();
        if bf.filters().len() <= batch {
            return bytes.clone();
        }
        let hashes: Vec<packed::Byte32> = bf.block_hashes().into_iter().take(batch).collect();
        let filters: Vec<packed::Bytes> = bf.filters().into_iter().take(batch).collect();
        let cut = packed::BlockFilters::new_builder()
            .start_number(bf.start_number())
            .block_hashes(hashes.pack())
            .filters(filters.pack())
            .build();
        return packed::BlockFilterMessage::new_builder().set(cut).build().as_bytes();
    }
    bytes.clone()
}

fn block_number_of(bytes: &Bytes) -> u64 {
    if let Ok(m) = packed::SyncMessageReader::from_compatible_slice(bytes) {
        if let packed::SyncMessageUnionReader::SendBlock(r) = m.to_enum() {
            return r.block().header().raw().number().unpack();
        }
    }
    u64::MAX
}

struct Built {
    node: Node,
    /// set, filters, block, fork
    ops: Vec<Op>,
    /// the model ops that lead to this state, with the implementation's dumps
    lines: Vec<String>,
    impls: Vec<String>,
    fingerprint: u64,
}

fn volatile_of(node: &Node, w: &World) -> Vec<(u64, bool, bool)> {
    let map = match node.i().peers.matched_blocks().read() {
        Ok(m) => m,
        Err(p) => p.into_inner(),
    };
    let mut v: Vec<(u64, bool, bool)> = map
        .iter()
        .map(|(h, (proved, block))| {
            let h = h.pack();
            let n = w
                .main
                .chain
                .number_of_hash(&h)
                .or_else(|| w.forked.chain.number_of_hash(&h).map(|n| 1_000_000 + n))
                .unwrap_or(999_999);
            (n, *proved, block.is_some())
        })
        .collect();
    v.sort();
    v
}

#[derive(Clone, PartialEq, Debug)]
struct Outcome {
    obs: Obs,
    facts: BTreeSet<Fact>,
    cells: BTreeSet<Cell>,
    tip: String,
    volatile: Vec<(u64, bool, bool)>,
    /// the bans the operations asked for (a rejected message), sorted
    bans: Vec<String>,
}

fn outcome_of(node: &Node, w: &World) -> Outcome {
    let (facts, cells) = index_dump(node);
    let tip = node.i().storage.get_tip_header();
    let n: u64 = tip.raw().number().unpack();
    Outcome {
        obs: observe(node, &w.main.chain),
        facts,
        cells,
        tip: format!("{}:{:x}", n, tip.calc_header_hash()),
        volatile: volatile_of(node, w),
        bans: Vec::new(),
    }
}

fn show_outcome(o: &Outcome) -> String {
    let mut blocks: BTreeMap<u64, BTreeSet<u64>> = BTreeMap::new();
    for f in &o.facts {
        blocks.entry(f.0).or_default().insert(f.1);
    }
    format!(
        "{}; indexed blocks {:?}; {} live cells; tip {}; in-memory matched {:?}{}",
        show_obs(&o.obs),
        blocks,
        o.cells.len(),
        &o.tip[..o.tip.len().min(14)],
        o.volatile,
        if o.bans.is_empty() { String::new() } else { format!("; bans {:?}", o.bans) }
    )
}

fn build(w: &World) -> Result<Built, String> {
    let chain = &w.main.chain;
    let sopts = ServerOpts::default();
    super::seed_client_randomness(w.seed);
    let mut node = Node::new(&chain.consensus, LAST_N, 2000, 1);
    let peer = PeerIndex::new(PEER);
    let mut now = chain.tip().timestamp() + 5000;
    set_now(now);
    node.connect(peer);
    let mut lines = vec!["reset 0".to_string()];
    let mut impls = vec!["ok".to_string()];
    {
        let h = Handle::of(&node, w.seed);
        match exec_timed(&h, &Op::Set(0, w.init_scripts.clone())) {
            Ok((Ok(_), _)) => {}
            Ok((Err(e), _)) => return Err(format!("abort:{}", e)),
            Err("timeout") => {
                std::mem::forget(node);
                return Err("timeout:set_scripts does not return".into());
            }
            Err(_) => return Err("harness:thread died".into()),
        }
        let body: Vec<String> = w.init_scripts.iter().map(|(i, n)| format!("{} {}", i, n)).collect();
        lines.push(format!("set 0 | {}", body.join(" ")));
        impls.push(String::new());
        lines.push("dump".into());
        impls.push(show_obs(&observe(&node, chain)));
    }
    let mut held_filters: Option<Bytes> = None;
    let mut held_block: Option<Bytes> = None;
    let lc = SupportProtocols::LightClient.protocol_id();
    // ---- stage 1: sync until a record is pending, its last block and the next batch held back
    for _round in 0..60 {
        now += 3000;
        set_now(now);
        node.im().filter.last_ask_time.write().unwrap().take();
        catch(|| node.tick_all()).map_err(|e| format!("abort:{}", e))?;
        loop {
            let sent = node.collect();
            if sent.is_empty() {
                break;
            }
            for (protocol, p, data) in sent {
                let name = request_name(protocol, &data);
                if name == "GetBlocks" && held_block.is_some() {
                    continue; // the peer is slow
                }
                if name == "GetBlockFilters" && held_filters.is_some() {
                    continue;
                }
                let replies = match server::handle(chain, &sopts, protocol, &data) {
                    Ok(r) => r,
                    Err(e) => {
                        node.server_errors.push(e);
                        continue;
                    }
                };
                let obs_now = observe(&node, chain);
                let n_records = obs_now.records.len();
                let holding = obs_now.min_f >= w.progress_target;
                if name == "GetBlockFilters" && holding && n_records >= w.records_before_hold {
                    if let Some((_, bytes)) = replies.into_iter().next() {
                        held_filters = Some(truncate_filters(&bytes, w.batch));
                    }
                    continue;
                }
                let n_replies = replies.len();
                let mut replies = replies;
                if name == "GetBlocks" {
                    // the request lists the blocks in the iteration order of a HashMap: deliver
                    // them in block order, hold back the one the scenario picked
                    replies.sort_by_key(|(_, bytes)| block_number_of(bytes));
                }
                let held_index = (w.hold_pick % n_replies.max(1) as u64) as usize;
                for (ri, (rp, bytes)) in replies.into_iter().enumerate() {
                    let bytes = if name == "GetBlockFilters" { truncate_filters(&bytes, w.batch) } else { bytes };
                    if name == "GetBlocks" && holding && n_records >= 1 && ri == held_index {
                        held_block = Some(bytes);
                        continue;
                    }
                    let (kind, start) = classify(rp, &bytes);
                    let before = observe(&node, chain);
                    let volatile_empty = node.i().peers.matched_blocks().read().unwrap().is_empty();
                    catch(|| node.deliver(p, rp, bytes)).map_err(|e| format!("abort:{}", e))?;
                    let after = observe(&node, chain);
                    if rp != lc {
                        if let Some(op) = model_op_after(&before, &after, &kind, start, volatile_empty) {
                            lines.push(op);
                            impls.push(String::new());
                            lines.push("dump".into());
                            impls.push(show_obs(&after));
                        }
                    }
                }
            }
        }
        if held_filters.is_some() && held_block.is_some() {
            break;
        }
        if observe(&node, chain).min_f >= chain.tip_number() && held_block.is_none() && observe(&node, chain).records.is_empty() {
            break; // everything is filtered and nothing matched
        }
    }
    let held_block = held_block.ok_or_else(|| "no-pending-block".to_string())?;
    let held_filters = held_filters.ok_or_else(|| "no-next-batch".to_string())?;
    // ---- stage 2: the peer switches to the fork; its proof is held back
    let mut held_fork: Option<Bytes> = None;
    catch(|| node.announce(peer, &w.forked.chain)).map_err(|e| format!("abort:{}", e))?;
    for _round in 0..8 {
        now += 3000;
        set_now(now);
        catch(|| node.tick_all()).map_err(|e| format!("abort:{}", e))?;
        for (protocol, _p, data) in node.collect() {
            if request_name(protocol, &data) == "GetLastStateProof" && held_fork.is_none() {
                match server::handle(&w.forked.chain, &sopts, protocol, &data) {
                    Ok(r) => held_fork = r.into_iter().next().map(|x| x.1),
                    Err(e) => return Err(format!("server:{}", e)),
                }
            }
        }
        if held_fork.is_some() {
            break;
        }
    }
    let held_fork = held_fork.ok_or_else(|| "no-proof-request".to_string())?;
    let ops = vec![w.set_op.clone(), Op::Filters(held_filters), Op::Block(held_block), Op::Fork(held_fork)];
    let o = outcome_of(&node, w);
    let fingerprint = fnv(&format!(
        "{:?} {:?}",
        o,
        ops.iter().map(|o| o.fingerprint()).collect::<Vec<_>>()
    ));
    if std::env::var("C17_DEBUG").is_ok() {
        eprintln!("build: fp {} ops {:?} outcome {}", fingerprint, ops.iter().map(|o| o.fingerprint()).collect::<Vec<_>>(), show_outcome(&o));
    }
    Ok(Built { node, ops, lines, impls, fingerprint })
}

// ---------------------------------------------------------------------------------------------
// serial runs

struct SerialOut {
    /// the write sites of every operation, in run order
    writes: Vec<Vec<String>>,
    outcome: Outcome,
    lines: Vec<String>,
    impls: Vec<String>,
}

/// runs `op` on a thread of its own (with a time limit: a handler that never returns must not
/// hang the harness); returns the result and the write sites
fn exec_timed(h: &Handle, op: &Op) -> Result<(Result<Vec<String>, String>, Vec<String>), &'static str> {
    let (tx, rx) = mpsc::channel();
    let h = h.clone();
    let op = op.clone();
    std::thread::spawn(move || {
        super::seed_client_randomness(h.seed);
        let sites = Arc::new(Mutex::new(Vec::<String>::new()));
        let s2 = Arc::clone(&sites);
        crate::verif_hooks::set_before_write(Some(Box::new(move |site| {
            s2.lock().unwrap().push(site.to_string());
        })));
        let r = catch(|| h.exec(&op));
        crate::verif_hooks::set_before_write(None);
        let w = sites.lock().unwrap().clone();
        let _ = tx.send((r, w));
    });
    match join(&rx) {
        Ok(v) => Ok(v),
        Err(true) => Err("timeout"),
        Err(false) => Err("died"),
    }
}

/// the model op of what `op` did
fn model_line(w: &World, op: &Op, before: &Obs, after: &Obs, volatile_empty: bool, tip_before: &str, tip_after: &str, node: &Node) -> Option<String> {
    match op {
        Op::Set(cmd, list) => {
            let body: Vec<String> = list.iter().map(|(i, n)| format!("{} {}", i, n)).collect();
            Some(format!("set {} | {}", cmd, body.join(" ")))
        }
        Op::Filters(bytes) => {
            let (kind, start) = classify(SupportProtocols::Filter.protocol_id(), bytes);
            model_op_after(before, after, &kind, start, volatile_empty)
        }
        Op::Block(_) => model_op_after(before, after, "SendBlock", 0, volatile_empty),
        Op::Fork(_) => {
            let tip = node.i().storage.get_tip_header().calc_header_hash();
            if tip_before != tip_after && w.main.chain.number_of_hash(&tip).is_none() {
                Some(format!("fork {}", w.fork_at))
            } else {
                None
            }
        }
    }
}

fn run_serial(w: &World, order: &[usize], fp: u64) -> Result<SerialOut, String> {
    let b = build(w)?;
    if b.fingerprint != fp {
        return Err("rebuild-mismatch".into());
    }
    let h = Handle::of(&b.node, w.seed);
    let mut writes = Vec::new();
    let mut bans = Vec::new();
    let mut lines = b.lines.clone();
    let mut impls = b.impls.clone();
    for oi in order {
        let op = &b.ops[*oi];
        let before = observe(&b.node, &w.main.chain);
        let tip_before = outcome_of(&b.node, w).tip;
        let volatile_empty = b.node.i().peers.matched_blocks().read().unwrap().is_empty();
        match exec_timed(&h, op) {
            Ok((Ok(bn), sites)) => {
                bans.extend(bn.into_iter().map(|x| format!("{}: {}", op.name(), x)));
                writes.push(sites);
            }
            Ok((Err(e), _)) => return Err(format!("abort:{}:{}", op.name(), e)),
            Err("timeout") => {
                std::mem::forget(b);
                return Err(format!("timeout:{}", OP_NAMES[*oi]));
            }
            Err(_) => return Err("harness:serial thread died".into()),
        }
        let after = observe(&b.node, &w.main.chain);
        let tip_after = outcome_of(&b.node, w).tip;
        if let Some(l) = model_line(w, op, &before, &after, volatile_empty, &tip_before, &tip_after, &b.node) {
            lines.push(l);
            impls.push(format!("writes {}", writes.last().unwrap().iter().filter(|s| under_lock(*oi, s)).cloned().collect::<Vec<_>>().join(" ")));
            lines.push("dump".into());
            impls.push(show_obs(&after));
        }
    }
    let mut outcome = outcome_of(&b.node, w);
    bans.sort();
    outcome.bans = bans;
    Ok(SerialOut { writes, outcome, lines, impls })
}

/// the readers' view of the store when operation `a` is cut in front of its k-th write
fn run_cut(w: &World, a: usize, k: u64, fp: u64) -> Result<Vec<String>, String> {
    let b = build(w)?;
    if b.fingerprint != fp {
        return Err("rebuild-mismatch".into());
    }
    let h = Handle::of(&b.node, w.seed);
    let mut n = 0u64;
    crate::verif_hooks::set_before_write(Some(Box::new(move |_site| {
        n += 1;
        if n == k {
            panic!("cut at store write {}", k);
        }
    })));
    let r = catch(|| h.exec(&b.ops[a]));
    crate::verif_hooks::set_before_write(None);
    if r.is_ok() {
        return Err("cut-not-reached".into());
    }
    reader_pass(&h).map_err(|e| format!("reader:{}", e))
}

// ---------------------------------------------------------------------------------------------
// two threads, the first paused at its k-th write

#[derive(Default)]
struct Ctl {
    paused: AtomicBool,
    resume: AtomicBool,
    b_writes_while_paused: AtomicU64,
    pause_site: Mutex<String>,
    b_sites: Mutex<Vec<String>>,
}

struct PairOut {
    /// the node after the run (the outcome is read from it on the main thread)
    built: Option<Built>,
    outcome: Option<Outcome>,
    pause_reached: bool,
    pause_site: String,
    lock_held_at_pause: bool,
    b_finished_during_pause: bool,
    b_writes_while_paused: u64,
    b_sites_while_paused: Vec<String>,
    a_result: Result<Vec<String>, String>,
    b_result: Result<Vec<String>, String>,
    deadlock: bool,
    harness_error: Option<String>,
    reader1: Option<Result<Vec<String>, String>>,
    reader2: Option<Result<Vec<String>, String>>,
    reader_blocked: bool,
}

fn wait_for<T>(rx: &mpsc::Receiver<T>, ms: u64) -> Result<T, bool> {
    match rx.recv_timeout(Duration::from_millis(ms)) {
        Ok(v) => Ok(v),
        Err(mpsc::RecvTimeoutError::Timeout) => Err(true),
        Err(mpsc::RecvTimeoutError::Disconnected) => Err(false),
    }
}

/// the join: `Err(true)` = still not there after the time limit and the grace period
fn join<T>(rx: &mpsc::Receiver<T>) -> Result<T, bool> {
    match wait_for(rx, join_ms()) {
        Err(true) => {
            SLOW_JOINS.fetch_add(1, Ordering::SeqCst);
            wait_for(rx, grace_ms())
        }
        r => r,
    }
}

fn run_pair(seed: u64, built: Built, a: usize, b: usize, k: u64, with_readers: bool) -> Result<PairOut, String> {
    let h = Handle::of(&built.node, seed);
    let ctl = Arc::new(Ctl::default());
    let (txa, rxa) = mpsc::channel::<Result<Vec<String>, String>>();
    let (txb, rxb) = mpsc::channel::<Result<Vec<String>, String>>();
    let op_a = built.ops[a].clone();
    let op_b = built.ops[b].clone();
    let (op_a_name, op_b_name) = (op_a.name(), op_b.name());
    // ---- thread A
    {
        let h = h.clone();
        let ctl = Arc::clone(&ctl);
        std::thread::spawn(move || {
            super::seed_client_randomness(h.seed);
            let c2 = Arc::clone(&ctl);
            let mut n = 0u64;
            crate::verif_hooks::set_before_write(Some(Box::new(move |site| {
                n += 1;
                if n == k {
                    *c2.pause_site.lock().unwrap() = site.to_string();
                    c2.paused.store(true, Ordering::SeqCst);
                    let t0 = Instant::now();
                    while !c2.resume.load(Ordering::SeqCst) {
                        std::thread::sleep(Duration::from_micros(200));
                        if t0.elapsed() > Duration::from_secs(60) {
                            break; // never hang the harness
                        }
                    }
                    c2.paused.store(false, Ordering::SeqCst);
                }
            })));
            let r = catch(|| h.exec(&op_a));
            crate::verif_hooks::set_before_write(None);
            let _ = txa.send(r);
        });
    }
    let mut out = PairOut {
        built: None,
        outcome: None,
        pause_reached: false,
        pause_site: String::new(),
        lock_held_at_pause: false,
        b_finished_during_pause: false,
        b_writes_while_paused: 0,
        b_sites_while_paused: Vec::new(),
        a_result: Err("not finished".into()),
        b_result: Err("not finished".into()),
        deadlock: false,
        harness_error: None,
        reader1: None,
        reader2: None,
        reader_blocked: false,
    };
    // ---- wait for the pause (or for A to finish without reaching it)
    let t0 = Instant::now();
    let mut a_early: Option<Result<Vec<String>, String>> = None;
    loop {
        if ctl.paused.load(Ordering::SeqCst) {
            out.pause_reached = true;
            break;
        }
        match rxa.try_recv() {
            Ok(r) => {
                a_early = Some(r);
                break;
            }
            Err(mpsc::TryRecvError::Disconnected) => {
                out.harness_error = Some("thread A died".into());
                out.built = Some(built);
                return Ok(out);
            }
            Err(mpsc::TryRecvError::Empty) => {}
        }
        if t0.elapsed() > Duration::from_millis(join_ms() + grace_ms()) {
            out.deadlock = true;
            ctl.resume.store(true, Ordering::SeqCst);
            std::mem::forget(built);
            return Ok(out);
        }
        std::thread::sleep(Duration::from_micros(100));
    }
    if out.pause_reached {
        out.pause_site = ctl.pause_site.lock().unwrap().clone();
        out.lock_held_at_pause = h.peers.matched_blocks().try_read().is_err();
        if with_readers {
            match reader_thread(&h) {
                Ok(r) => out.reader1 = Some(r),
                Err("timeout") => out.reader_blocked = true,
                Err(_) => out.harness_error = Some("reader thread died".into()),
            }
        }
    }
    // ---- thread B
    {
        let h = h.clone();
        let ctl = Arc::clone(&ctl);
        std::thread::spawn(move || {
            super::seed_client_randomness(h.seed);
            let c2 = Arc::clone(&ctl);
            crate::verif_hooks::set_before_write(Some(Box::new(move |site| {
                if c2.paused.load(Ordering::SeqCst) {
                    c2.b_writes_while_paused.fetch_add(1, Ordering::SeqCst);
                    c2.b_sites.lock().unwrap().push(site.to_string());
                }
            })));
            let r = catch(|| h.exec(&op_b));
            crate::verif_hooks::set_before_write(None);
            let _ = txb.send(r);
        });
    }
    let mut b_early: Option<Result<Vec<String>, String>> = None;
    if out.pause_reached {
        match wait_for(&rxb, pause_ms()) {
            Ok(r) => {
                b_early = Some(r);
                out.b_finished_during_pause = true;
            }
            Err(true) => {}
            Err(false) => {
                out.harness_error = Some("thread B died".into());
            }
        }
        out.b_writes_while_paused = ctl.b_writes_while_paused.load(Ordering::SeqCst);
        out.b_sites_while_paused = ctl.b_sites.lock().unwrap().clone();
        if with_readers && !out.reader_blocked {
            match reader_thread(&h) {
                Ok(r) => out.reader2 = Some(r),
                Err("timeout") => out.reader_blocked = true,
                Err(_) => out.harness_error = Some("reader thread died".into()),
            }
        }
    }
    ctl.resume.store(true, Ordering::SeqCst);
    // ---- join
    out.a_result = match a_early {
        Some(r) => r,
        None => match join(&rxa) {
            Ok(r) => r,
            Err(true) => {
                out.deadlock = true;
                Err("timeout".into())
            }
            Err(false) => {
                out.harness_error = Some("thread A died".into());
                Err("died".into())
            }
        },
    };
    out.b_result = match b_early {
        Some(r) => r,
        None => match join(&rxb) {
            Ok(r) => r,
            Err(true) => {
                out.deadlock = true;
                Err("timeout".into())
            }
            Err(false) => {
                if out.harness_error.is_none() {
                    out.harness_error = Some("thread B died".into());
                }
                Err("died".into())
            }
        },
    };
    let _ = (op_a_name, op_b_name);
    if out.deadlock {
        // the stuck threads still use the store: leak the node instead of closing it under them
        std::mem::forget(built);
    } else {
        out.built = Some(built);
    }
    Ok(out)
}

// ---------------------------------------------------------------------------------------------
// three free threads + noise

struct FreeOut {
    outcome: Option<Outcome>,
    results: Vec<Result<Vec<String>, String>>,
    deadlock: bool,
    harness_error: Option<String>,
    reader_errors: Vec<String>,
    reader_passes: u64,
}

fn run_free(w: &World, ops: &[usize], delays: &[u64], fp: u64) -> Result<FreeOut, String> {
    let built = build(w)?;
    if built.fingerprint != fp {
        return Err("rebuild-mismatch".into());
    }
    let h = Handle::of(&built.node, w.seed);
    let barrier = Arc::new(Barrier::new(ops.len() + 2));
    let stop = Arc::new(AtomicBool::new(false));
    let mut rxs = Vec::new();
    for (ti, oi) in ops.iter().enumerate() {
        let (tx, rx) = mpsc::channel::<Result<Vec<String>, String>>();
        rxs.push(rx);
        let h = h.clone();
        let op = built.ops[*oi].clone();
        let barrier = Arc::clone(&barrier);
        let delay = delays[ti];
        std::thread::spawn(move || {
            super::seed_client_randomness(h.seed);
            barrier.wait();
            let t0 = Instant::now();
            while t0.elapsed() < Duration::from_micros(delay) {
                std::hint::spin_loop();
            }
            let r = catch(|| h.exec(&op));
            let _ = tx.send(r);
        });
    }
    // noise: readers and the timer that reads the matched-blocks map
    let (ntx, nrx) = mpsc::channel::<(u64, Vec<String>)>();
    {
        let h = h.clone();
        let barrier = Arc::clone(&barrier);
        let stop = Arc::clone(&stop);
        std::thread::spawn(move || {
            super::seed_client_randomness(h.seed);
            barrier.wait();
            let mut passes = 0u64;
            let mut errors = Vec::new();
            loop {
                if let Err(e) = catch(|| reader_pass_free(&h)).unwrap_or_else(|e| Err(format!("panic: {}", e))) {
                    errors.push(e);
                }
                if let Err(e) = catch(|| h.idle_blocks_timer()) {
                    errors.push(format!("get_idle_blocks timer panic: {}", e));
                }
                passes += 1;
                if stop.load(Ordering::SeqCst) {
                    break;
                }
            }
            let _ = ntx.send((passes, errors));
        });
    }
    barrier.wait();
    let mut out = FreeOut { outcome: None, results: Vec::new(), deadlock: false, harness_error: None, reader_errors: Vec::new(), reader_passes: 0 };
    for rx in &rxs {
        match join(rx) {
            Ok(r) => out.results.push(r),
            Err(true) => {
                out.deadlock = true;
                out.results.push(Err("timeout".into()));
            }
            Err(false) => {
                out.harness_error = Some("writer thread died".into());
                out.results.push(Err("died".into()));
            }
        }
    }
    stop.store(true, Ordering::SeqCst);
    match join(&nrx) {
        Ok((p, e)) => {
            out.reader_passes = p;
            out.reader_errors = e;
        }
        Err(true) => out.deadlock = true,
        Err(false) => out.harness_error = Some("noise thread died".into()),
    }
    if !out.deadlock && out.harness_error.is_none() {
        let mut o = outcome_of(&built.node, w);
        for (i, r) in out.results.iter().enumerate() {
            if let Ok(b) = r {
                o.bans.extend(b.iter().map(|x| format!("{}: {}", OP_NAMES[ops[i]], x)));
            }
        }
        o.bans.sort();
        out.outcome = Some(o);
    }
    if out.deadlock {
        std::mem::forget(built);
    }
    Ok(out)
}

/// readers while writers are running: the queries must complete; two calls see different
/// snapshots, so only each call on its own is checked (it decodes every entry it iterates over)
fn reader_pass_free(h: &Handle) -> Result<(), String> {
    let rpc = h.rpc();
    for sid in 1..=N_SCRIPTS {
        rpc.get_cells(search_key(sid, false), Order::Asc, 1000u32.into(), None)
            .map_err(|e| format!("get_cells error: {}", e.message))?;
        rpc.get_cells_capacity(search_key(sid, false))
            .map_err(|e| format!("get_cells_capacity error: {}", e.message))?;
        rpc.get_transactions(search_key(sid, true), Order::Asc, 1000u32.into(), None)
            .map_err(|e| format!("get_transactions error: {}", e.message))?;
    }
    rpc.get_scripts().map_err(|e| format!("get_scripts error: {}", e.message))?;
    Ok(())
}

/// a known shape of a non-serialisable outcome, for the signature
fn cause_of(got: &Outcome) -> Option<&'static str> {
    if got.obs.scripts.is_empty() && (!got.obs.records.is_empty() || !got.volatile.is_empty()) {
        // a filter batch went on after `set_scripts` had removed the last script: an empty
        // script set matches every block filter
        return Some("record-for-empty-script-set");
    }
    None
}

// ---------------------------------------------------------------------------------------------
// a reader paused in the middle of a query (needs the `reader_point` hook, see hooks.diff)

#[cfg(feature = "c17_reader_point")]
fn one_query(h: &Handle, sid: u64, q: usize) -> Result<String, String> {
    let rpc = h.rpc();
    let r = match q {
        0 => catch(|| rpc.get_cells(search_key(sid, false), Order::Asc, 1000u32.into(), None).map(|p| serde_json::to_value(&p).expect("json"))),
        1 => catch(|| rpc.get_transactions(search_key(sid, false), Order::Asc, 1000u32.into(), None).map(|p| serde_json::to_value(&p).expect("json"))),
        2 => catch(|| rpc.get_transactions(search_key(sid, true), Order::Desc, 1000u32.into(), None).map(|p| serde_json::to_value(&p).expect("json"))),
        _ => catch(|| rpc.get_cells_capacity(search_key(sid, false)).map(|p| serde_json::to_value(&p).expect("json"))),
    };
    match r {
        Err(e) => Err(format!("panic: {}", e)),
        Ok(Err(e)) => Err(format!("rpc error: {}", e.message)),
        Ok(Ok(v)) => Ok(v.to_string()),
    }
}

#[cfg(feature = "c17_reader_point")]
const QUERY_NAMES: [&str; 4] = ["get_cells", "get_transactions", "get_transactions(grouped)", "get_cells_capacity"];

/// for every writer operation, query and pause point (after the snapshot / after the first
/// entry): the reader is paused inside the query, the writer runs to completion, the reader goes
/// on — it must answer what the query answered before the writer started
#[cfg(feature = "c17_reader_point")]
fn mid_query(rep: &mut Report, w: &World, fp: u64, names: &[&str], replay: &dyn Fn(String) -> Vec<String>) {
    for a in 0..4 {
        for q in 0..4 {
            for point in 1..=2u64 {
                // the script with the largest answer
                let built = match build(w) {
                    Ok(b) if b.fingerprint == fp => b,
                    _ => {
                        rep.count_class("mid-query:rebuild-failed");
                        continue;
                    }
                };
                let h = Handle::of(&built.node, w.seed);
                let sid = (1..=N_SCRIPTS)
                    .max_by_key(|sid| one_query(&h, *sid, 0).map(|s| s.len()).unwrap_or(0))
                    .unwrap_or(1);
                let before = match one_query(&h, sid, q) {
                    Ok(s) => s,
                    Err(e) => {
                        rep.violate("C17|abort|reader", "a reading RPC fails on a quiet store", replay(format!("# {} script {}: {}", QUERY_NAMES[q], sid, e)));
                        continue;
                    }
                };
                let paused = Arc::new(AtomicBool::new(false));
                let resume = Arc::new(AtomicBool::new(false));
                let (tx, rx) = mpsc::channel::<Result<String, String>>();
                {
                    let h = h.clone();
                    let paused = Arc::clone(&paused);
                    let resume = Arc::clone(&resume);
                    std::thread::spawn(move || {
                        let mut n = 0u64;
                        crate::verif_hooks::set_reader_point(Some(Box::new(move |_site| {
                            n += 1;
                            if n == point {
                                paused.store(true, Ordering::SeqCst);
                                let t0 = Instant::now();
                                while !resume.load(Ordering::SeqCst) && t0.elapsed() < Duration::from_secs(60) {
                                    std::thread::sleep(Duration::from_micros(200));
                                }
                            }
                        })));
                        let r = one_query(&h, sid, q);
                        crate::verif_hooks::set_reader_point(None);
                        let _ = tx.send(r);
                    });
                }
                // wait for the pause (or the end of the query: fewer entries than `point`)
                let t0 = Instant::now();
                let mut early = None;
                while !paused.load(Ordering::SeqCst) {
                    if let Ok(r) = rx.try_recv() {
                        early = Some(r);
                        break;
                    }
                    if t0.elapsed() > Duration::from_millis(join_ms()) {
                        break;
                    }
                    std::thread::sleep(Duration::from_micros(100));
                }
                if early.is_some() || !paused.load(Ordering::SeqCst) {
                    rep.count_class("mid-query:pause-not-reached");
                    resume.store(true, Ordering::SeqCst);
                    continue;
                }
                // the writer runs to completion while the reader sits inside its query
                let wr = catch(|| h.exec(&built.ops[a]));
                let after = one_query(&h, sid, q);
                resume.store(true, Ordering::SeqCst);
                let got = match join(&rx) {
                    Ok(r) => r,
                    Err(_) => {
                        rep.violate("C17|reader-blocked|mid-query", "a paused reader does not finish after the writer is done", replay(format!("# {} during {}", QUERY_NAMES[q], names[a])));
                        continue;
                    }
                };
                rep.evaluations += 1;
                rep.count_op(&format!("mid-query:{}", QUERY_NAMES[q]));
                let ctx = format!(
                    "# reader {} (script {}) paused at its reader point {} ({}), then {} runs to completion, then the reader goes on",
                    QUERY_NAMES[q], sid, point, if point == 1 { "after the snapshot" } else { "after the first entry" }, names[a]
                );
                if wr.is_err() {
                    rep.count_class("mid-query:writer-aborted");
                    continue;
                }
                let changed = after.as_ref().map(|s| *s != before).unwrap_or(true);
                match got {
                    Err(e) => rep.violate(
                        &format!("C17|reader-torn|mid-query|{}", QUERY_NAMES[q]),
                        "a reader paused inside a query fails when a writer completes meanwhile",
                        replay(format!("{}\n# {}", ctx, e)),
                    ),
                    Ok(s) if s == before => {
                        rep.count_class(if changed { "mid-query:answer-of-the-snapshot(writer-changed-it)" } else { "mid-query:answer-of-the-snapshot" });
                        if changed {
                            rep.nontrivial.insert(fnv(&format!("{}:{}:mq:{}:{}:{}", w.seed, w.len, a, q, point)));
                        }
                    }
                    Ok(s) => rep.violate(
                        &format!("C17|reader-torn|mid-query|{}", QUERY_NAMES[q]),
                        "a reader paused inside a query while a writer completes answers neither from the point in time of its snapshot",
                        replay(format!(
                            "{}\n# answered {}\n# before the writer: {}\n# after the writer: {}",
                            ctx,
                            if s.len() > 400 { &s[..400] } else { &s },
                            if before.len() > 400 { &before[..400] } else { &before },
                            after.as_ref().map(|x| if x.len() > 400 { x[..400].to_string() } else { x.clone() }).unwrap_or_else(|e| e.clone())
                        )),
                    ),
                }
            }
        }
    }
}

// ---------------------------------------------------------------------------------------------
// one scenario

/// Every ordered pair of the four operations and the timer of the filter protocol
/// (`GET_BLOCK_FILTERS_TOKEN`: it loads the pending matched-blocks record of the store into memory
/// and asks for its blocks): the first is paused by the `lock_event` hook right IN FRONT of its
/// critical section - it has done whatever it does before it takes the lock -, the second runs to
/// completion, the first goes on.  Whatever the first has read before the lock is stale by then;
/// the outcome has to be one of the two serial outcomes.  (Pairs with the timer start from the
/// state after a restart: a record in the store, nothing in memory.)
fn lock_race(rep: &mut Report, w: &World, fp: u64, replay: &dyn Fn(String) -> Vec<String>) {
    use crate::protocols::filter_verif_exports::GET_BLOCK_FILTERS_TOKEN;
    const NAMES: [&str; 5] = ["set", "filters", "block", "fork", "filter-timer"];
    fn run_op(h: &Handle, ops: &[Op], i: usize) {
        if i < 4 {
            let _ = h.exec(&ops[i]);
        } else {
            let peer = PeerIndex::new(PEER);
            let nc = MockContext::new(SupportProtocols::Filter);
            nc.connect(peer);
            let mut f = FilterProtocol::new(h.storage.clone(), Arc::clone(&h.peers));
            block_on(f.notify(as_ctx(&nc), GET_BLOCK_FILTERS_TOKEN));
        }
    }
    let fresh = |restart: bool| -> Option<Built> {
        let b = match build(w) {
            Ok(b) if b.fingerprint == fp => b,
            _ => return None,
        };
        if restart {
            b.node.i().peers.matched_blocks().write().unwrap().clear();
        }
        Some(b)
    };
    let mut serial: BTreeMap<(usize, usize), String> = BTreeMap::new();
    for x in 0..5usize {
        for y in 0..5usize {
            if x == y {
                continue;
            }
            let restart = x == 4 || y == 4;
            // the serial outcomes of this pair
            for (a, b2) in [(x, y), (y, x)] {
                if serial.contains_key(&(a, b2)) {
                    continue;
                }
                let b = match fresh(restart) {
                    Some(b) => b,
                    None => return,
                };
                let h = Handle::of(&b.node, w.seed);
                let ops = b.ops.clone();
                let (tx, rx) = mpsc::channel();
                let h2 = h.clone();
                std::thread::spawn(move || {
                    super::seed_client_randomness(h2.seed);
                    let r = catch(|| {
                        run_op(&h2, &ops, a);
                        run_op(&h2, &ops, b2);
                    });
                    let _ = tx.send(r.is_ok());
                });
                match join(&rx) {
                    Ok(true) => {
                        serial.insert((a, b2), show_outcome(&outcome_of(&b.node, w)));
                    }
                    _ => {
                        std::mem::forget(b);
                        rep.count_class("lock-race:serial-run-failed");
                        return;
                    }
                }
            }
            // x paused in front of its critical section, y to completion, x goes on
            let b = match fresh(restart) {
                Some(b) => b,
                None => return,
            };
            let h = Handle::of(&b.node, w.seed);
            let (reached_tx, reached_rx) = mpsc::channel::<&'static str>();
            let (go_tx, go_rx) = mpsc::channel::<()>();
            let (done_tx, done_rx) = mpsc::channel::<bool>();
            {
                let h = h.clone();
                let ops = b.ops.clone();
                let done_tx = done_tx.clone();
                std::thread::spawn(move || {
                    super::seed_client_randomness(h.seed);
                    let mut first = true;
                    crate::verif_hooks::set_lock_event(Some(Box::new(move |site| {
                        if first {
                            first = false;
                            let _ = reached_tx.send(site);
                            let _ = go_rx.recv_timeout(Duration::from_millis(join_ms()));
                        }
                    })));
                    let r = catch(|| run_op(&h, &ops, x));
                    crate::verif_hooks::set_lock_event(None);
                    let _ = done_tx.send(r.is_ok());
                });
            }
            let site = match wait_for(&reached_rx, pause_ms() * 4) {
                Ok(s) => s,
                Err(_) => {
                    // x has no critical section in this state (or has finished already)
                    rep.count_class(&format!("lock-race:{}:no-critical-section", NAMES[x]));
                    let _ = go_tx.send(());
                    let _ = join(&done_rx);
                    continue;
                }
            };
            let (ydone_tx, ydone_rx) = mpsc::channel::<bool>();
            {
                let h = h.clone();
                let ops = b.ops.clone();
                std::thread::spawn(move || {
                    super::seed_client_randomness(h.seed);
                    let r = catch(|| run_op(&h, &ops, y));
                    let _ = ydone_tx.send(r.is_ok());
                });
            }
            let y_ok = match join(&ydone_rx) {
                Ok(v) => v,
                Err(_) => {
                    rep.violate(
                        &format!("C17|deadlock|pre-lock|{}-{}", NAMES[x], NAMES[y]),
                        "an operation does not return while another one waits in front of its critical section (holding no lock)",
                        replay(format!("# {} paused at `{}`, {} does not return", NAMES[x], site, NAMES[y])),
                    );
                    let _ = go_tx.send(());
                    std::mem::forget(b);
                    return;
                }
            };
            let _ = go_tx.send(());
            let x_ok = match join(&done_rx) {
                Ok(v) => v,
                Err(_) => {
                    rep.violate(
                        &format!("C17|deadlock|pre-lock|{}-{}", NAMES[x], NAMES[y]),
                        "an operation paused in front of its critical section does not return after it is released",
                        replay(format!("# {} paused at `{}`", NAMES[x], site)),
                    );
                    std::mem::forget(b);
                    return;
                }
            };
            rep.count_op("lock-race");
            if !x_ok || !y_ok {
                rep.violate(
                    &format!("C17|abort|pre-lock|{}-{}", NAMES[x], NAMES[y]),
                    "an operation aborts when another one ran while it waited in front of its critical section",
                    replay(format!("# {} paused at `{}`; {} ok: {}, {} ok: {}", NAMES[x], site, NAMES[x], x_ok, NAMES[y], y_ok)),
                );
                continue;
            }
            let got = show_outcome(&outcome_of(&b.node, w));
            let s_xy = &serial[&(x, y)];
            let s_yx = &serial[&(y, x)];
            rep.count_class(&format!("lock-race:{}", if got == *s_yx { "second-then-first" } else if got == *s_xy { "first-then-second" } else { "NEITHER" }));
            if got != *s_xy && got != *s_yx {
                rep.violate(
                    &format!("C17|not-serializable|pre-lock|{}-{}", NAMES[x], NAMES[y]),
                    "an operation that waited in front of its critical section while another one ran ends in a state that neither serial order produces: it acts on something it read before it took the lock",
                    replay(format!("# {} paused at `{}` while {} ran\n# got   {}\n# {};{}  {}\n# {};{}  {}", NAMES[x], site, NAMES[y], got, NAMES[x], NAMES[y], s_xy, NAMES[y], NAMES[x], s_yx)),
                );
            }
        }
    }
}

fn pick_ks(n: u64, thorough: bool) -> Vec<u64> {
    if thorough || n <= 5 {
        (1..=n).collect()
    } else {
        let mut v = vec![1, 2, n / 2 + 1, n - 1, n];
        v.sort();
        v.dedup();
        v
    }
}

fn first_diff(a: &[String], b: &[String]) -> String {
    for (x, y) in a.iter().zip(b.iter()) {
        if x != y {
            let cut = |s: &String| if s.len() > 300 { format!("{}…", &s[..300]) } else { s.clone() };
            return format!("got `{}` expected `{}`", cut(x), cut(y));
        }
    }
    format!("{} vs {} answers", a.len(), b.len())
}

struct ModelBuf {
    lines: Vec<String>,
    impls: Vec<String>,
    owner: Vec<usize>,
}

fn scenario(rep: &mut Report, opts: &Options, si: usize, seed: u64, len: usize, mb: &mut ModelBuf) {
    let w = make_world(seed, len);
    let replay = |extra: String| vec![format!("history-seed {} len {}", seed, len), format!("# {}", w.desc), extra];
    let b0 = match build(&w) {
        Ok(b) => b,
        Err(e) => {
            let class = e.split(':').next().unwrap_or("").to_string();
            rep.count_class(&format!("build:{}", class));
            if class == "timeout" {
                rep.violate("C17|deadlock|build", "an operation does not return while the scenario state is built (single-threaded)", replay(format!("# {}", e)));
            }
            if class == "abort" {
                rep.violate(
                    &format!("C17|abort|build|{}", super::c14::panic_class(&e)),
                    "the client aborts while the scenario state is built (single-threaded)",
                    replay(format!("# {}", e)),
                );
            }
            return;
        }
    };
    rep.count_class("build:ok");
    if std::env::var("C17_LIST").is_ok() {
        eprintln!("history-seed {} len {}: {}\n    state {}", seed, len, w.desc, show_outcome(&outcome_of(&b0.node, &w)));
        return;
    }
    let fp = b0.fingerprint;
    let names: Vec<&str> = b0.ops.iter().map(|o| o.name()).collect();
    if si % 3 == 0 {
        rep.sample(&format!("history-seed {} len {}: {}; state {}", seed, len, w.desc, show_outcome(&outcome_of(&b0.node, &w))));
    }
    drop(b0);

    // ---- serial references: every ordered pair
    let mut serial: BTreeMap<(usize, usize), SerialOut> = BTreeMap::new();
    for a in 0..4 {
        for b in 0..4 {
            if a == b {
                continue;
            }
            match run_serial(&w, &[a, b], fp) {
                Ok(s) => {
                    for (l, i) in s.lines.iter().zip(s.impls.iter()) {
                        mb.lines.push(l.clone());
                        mb.impls.push(i.clone());
                        mb.owner.push(si);
                    }
                    rep.count_op(&format!("serial:{}+{}", names[a], names[b]));
                    serial.insert((a, b), s);
                }
                Err(e) => {
                    let class = e.split(':').next().unwrap_or("").to_string();
                    rep.count_class(&format!("serial:{}", class));
                    if class == "abort" {
                        rep.violate(
                            &format!("C17|abort|serial|{}+{}|{}", names[a], names[b], super::c14::panic_class(&e)),
                            "the client aborts when the two operations run one after the other on one thread",
                            replay(format!("# {}", e)),
                        );
                    }
                    if class == "timeout" {
                        rep.violate(
                            &format!("C17|deadlock|serial|{}+{}", names[a], names[b]),
                            "an operation does not return when the two operations run one after the other",
                            replay(format!("# {}", e)),
                        );
                    }
                    if class == "rebuild-mismatch" {
                        rep.notes.push(format!("history-seed {} len {}: the state could not be rebuilt identically (harness artefact); scenario skipped", seed, len));
                    }
                    return;
                }
            }
        }
    }
    // the writes of every operation when it runs first
    let writes: Vec<Vec<String>> = (0..4).map(|a| serial[&(a, (a + 1) % 4)].writes[0].clone()).collect();
    for a in 0..4 {
        rep.count_class(&format!("writes:{}={}", names[a], writes[a].len().min(9)));
    }

    // ---- the readers' reference views at every cut
    let mut cuts: BTreeMap<(usize, u64), Vec<String>> = BTreeMap::new();

    // ---- pairs: the states are rebuilt one after the other (the fake clock is global), the
    // concurrent phases (which do not touch the clock) run on a few workers in parallel
    let mut tasks: Vec<(usize, usize, u64)> = Vec::new();
    for a in 0..4 {
        let n = writes[a].len() as u64;
        for b in 0..4 {
            if a != b {
                for k in pick_ks(n, opts.thorough()) {
                    tasks.push((a, b, k));
                }
            }
        }
    }
    let builts: Vec<Mutex<Option<Result<Built, String>>>> = tasks
        .iter()
        .map(|_| {
            Mutex::new(Some(build(&w).and_then(|b| if b.fingerprint == fp { Ok(b) } else { Err("rebuild-mismatch".to_string()) })))
        })
        .collect();
    let results: Vec<Mutex<Option<Result<PairOut, String>>>> = tasks.iter().map(|_| Mutex::new(None)).collect();
    {
        let next = AtomicU64::new(0);
        let stop = AtomicBool::new(false);
        let stop_ref = &stop;
        let workers = std::env::var("C17_WORKERS").ok().and_then(|s| s.parse().ok()).unwrap_or(6usize).max(1);
        let (seed_v, tasks_ref, builts_ref, results_ref, next_ref) = (seed, &tasks, &builts, &results, &next);
        std::thread::scope(|scope| {
            for _ in 0..workers {
                scope.spawn(move || loop {
                    let i = next_ref.fetch_add(1, Ordering::SeqCst) as usize;
                    if i >= tasks_ref.len() {
                        break;
                    }
                    let (a, b, k) = tasks_ref[i];
                    let built = builts_ref[i].lock().unwrap().take().expect("built");
                    let r = match built {
                        Ok(_) if stop_ref.load(Ordering::SeqCst) => Err("skipped-after-deadlock".to_string()),
                        Ok(built) => run_pair(seed_v, built, a, b, k, true),
                        Err(e) => Err(e),
                    };
                    if let Ok(p) = &r {
                        if p.deadlock {
                            stop_ref.store(true, Ordering::SeqCst);
                        }
                    }
                    *results_ref[i].lock().unwrap() = Some(r);
                });
            }
        });
    }
    {
        for (ti, (a, b, k)) in tasks.iter().enumerate() {
            let (a, b, k) = (*a, *b, *k);
            let n = writes[a].len() as u64;
            {
                let tag = format!("{}+{}", names[a], names[b]);
                let s_ab = &serial[&(a, b)];
                let s_ba = &serial[&(b, a)];
                let orders_differ = s_ab.outcome != s_ba.outcome;
                rep.evaluations += 1;
                let mut p = match results[ti].lock().unwrap().take().expect("result") {
                    Ok(p) => p,
                    Err(e) => {
                        rep.count_class(&format!("pair:{}", e.split(':').next().unwrap_or("")));
                        continue;
                    }
                };
                if let Some(built) = p.built.take() {
                    if !p.deadlock && p.harness_error.is_none() {
                        let mut o = outcome_of(&built.node, &w);
                        for (name, r) in [(names[a], &p.a_result), (names[b], &p.b_result)] {
                            if let Ok(bn) = r {
                                o.bans.extend(bn.iter().map(|x| format!("{}: {}", name, x)));
                            }
                        }
                        o.bans.sort();
                        p.outcome = Some(o);
                    }
                }
                let ctx = format!("# pair {} on two threads, the first paused in front of its store write {} of {} ({})", tag, k, n, p.pause_site);
                if let Some(e) = &p.harness_error {
                    rep.count_class("harness-error");
                    rep.notes.push(format!("history-seed {} len {}: {} — {}", seed, len, ctx, e));
                    continue;
                }
                if p.deadlock {
                    rep.violate(
                        &format!("C17|deadlock|{}", tag),
                        "two operations on two threads do not finish within the time limit",
                        replay(ctx.clone()),
                    );
                    // the stuck threads keep the process busy: give up on this scenario
                    return;
                }
                rep.count_op(&format!("pair:{}", tag));
                // ---- aborts
                let mut aborted = false;
                for (who, r) in [(names[a], &p.a_result), (names[b], &p.b_result)] {
                    if let Err(e) = r {
                        aborted = true;
                        rep.violate(
                            &format!("C17|abort|{}|{}", tag, super::c14::panic_class(e)),
                            "an operation aborts when it runs concurrently with another one",
                            replay(format!("{}\n# {} panicked: {}", ctx, who, e)),
                        );
                    }
                }
                if aborted {
                    continue;
                }
                if !p.pause_reached {
                    rep.count_class("pause-not-reached");
                }
                // ---- the critical section
                let locked = p.pause_reached && under_lock(a, &p.pause_site);
                if p.pause_reached {
                    if locked {
                        if p.lock_held_at_pause {
                            rep.count_class("lock-held-at-write");
                        } else {
                            rep.violate(
                                &format!("C17|write-outside-lock|{}@{}", names[a], p.pause_site),
                                "an operation writes to the store without holding the matched-blocks lock",
                                replay(ctx.clone()),
                            );
                        }
                        if p.b_writes_while_paused > 0 {
                            rep.count_class("writes-while-paused");
                            rep.violate(
                                &format!("C17|lock-not-held|{}", tag),
                                "the second operation writes to the store while the first is paused inside its critical section",
                                replay(format!("{}\n# the second thread wrote at {:?}", ctx, p.b_sites_while_paused)),
                            );
                        } else if p.b_finished_during_pause {
                            rep.count_class("second-finished-without-write");
                        } else {
                            rep.count_class("blocked-by-lock");
                        }
                    } else if p.b_finished_during_pause {
                        rep.count_class("second-ran-during-unlocked-tail");
                    } else {
                        rep.count_class("second-slow-during-unlocked-tail");
                    }
                }
                // ---- serialisability
                let got = p.outcome.as_ref().expect("outcome");
                let is_ab = *got == s_ab.outcome;
                let is_ba = *got == s_ba.outcome;
                if !is_ab && !is_ba {
                    rep.violate(
                        &match cause_of(got) {
                            Some(c) => format!("C17|not-serializable|{}", c),
                            None => format!("C17|not-serializable|{}", tag),
                        },
                        "the outcome of two concurrent operations is the outcome of neither serial order",
                        replay(format!(
                            "{}\n# concurrent: {}\n# {} then {}: {}\n# {} then {}: {}",
                            ctx,
                            show_outcome(got),
                            names[a],
                            names[b],
                            show_outcome(&s_ab.outcome),
                            names[b],
                            names[a],
                            show_outcome(&s_ba.outcome)
                        )),
                    );
                } else if is_ab && is_ba {
                    rep.count_class("outcome:orders-agree");
                } else if is_ab {
                    rep.count_class("outcome:first-then-second");
                } else {
                    rep.count_class("outcome:second-then-first");
                }
                let really_blocked = locked && !p.b_finished_during_pause && p.b_writes_while_paused == 0;
                if orders_differ || really_blocked {
                    rep.nontrivial.insert(fnv(&format!("{}:{}:{}:{}", seed, len, tag, k)));
                }
                // ---- readers at the pause
                if p.reader_blocked {
                    rep.violate(
                        &format!("C17|reader-blocked|{}", tag),
                        "a reading RPC does not return while a writer is paused",
                        replay(ctx.clone()),
                    );
                }
                if let Some(r1) = &p.reader1 {
                    rep.count_op("reader-pass");
                    match r1 {
                        Err(e) => rep.violate(
                            &format!("C17|reader-torn|{}@{}", names[a], p.pause_site),
                            "a reader sees an inconsistent index while a writer is paused",
                            replay(format!("{}\n# {}", ctx, e)),
                        ),
                        Ok(view) => {
                            let reference = match cuts.get(&(a, k)) {
                                Some(v) => Some(v.clone()),
                                None => match run_cut(&w, a, k, fp) {
                                    Ok(v) => {
                                        cuts.insert((a, k), v.clone());
                                        Some(v)
                                    }
                                    Err(e) => {
                                        rep.count_class(&format!("cut:{}", e.split(':').next().unwrap_or("")));
                                        None
                                    }
                                },
                            };
                            if let Some(reference) = reference {
                                if *view == reference {
                                    rep.count_class("reader:equals-cut-store");
                                } else {
                                    rep.violate(
                                        &format!("C17|reader-torn|{}@{}", names[a], p.pause_site),
                                        "a reader running while a writer is paused sees something else than the store cut at that write",
                                        replay(format!("{}\n# {}", ctx, first_diff(view, &reference))),
                                    );
                                }
                            }
                            if let Some(Ok(v2)) = &p.reader2 {
                                if p.b_writes_while_paused == 0 && !p.b_finished_during_pause && v2 != view {
                                    rep.violate(
                                        &format!("C17|reader-torn|{}+{}-blocked", names[a], names[b]),
                                        "the readers' view changes while both writers are paused / blocked",
                                        replay(format!("{}\n# {}", ctx, first_diff(v2, view))),
                                    );
                                }
                            }
                            if let Some(Err(e)) = &p.reader2 {
                                rep.violate(
                                    &format!("C17|reader-torn|{}+{}-second", names[a], names[b]),
                                    "a reader sees an inconsistent index while a writer is paused and another is blocked or done",
                                    replay(format!("{}\n# {}", ctx, e)),
                                );
                            }
                        }
                    }
                }
            }
        }
    }

    #[cfg(feature = "c17_reader_point")]
    mid_query(rep, &w, fp, &names, &replay);
    lock_race(rep, &w, fp, &replay);

    // ---- triples on three free threads
    let mut rng = Rng::new(seed ^ 0x7217);
    let all_triples: Vec<[usize; 3]> = vec![[0, 1, 2], [0, 1, 3], [0, 2, 3], [1, 2, 3]];
    let n_triples = if opts.thorough() { 4 } else { 2 };
    let runs = if opts.thorough() { 8 } else { 3 };
    let first = rng.below(4) as usize;
    for ti in 0..n_triples {
        let t = all_triples[(first + ti) % 4];
        let tag = format!("{}+{}+{}", names[t[0]], names[t[1]], names[t[2]]);
        let perms: [[usize; 3]; 6] = [[0, 1, 2], [0, 2, 1], [1, 0, 2], [1, 2, 0], [2, 0, 1], [2, 1, 0]];
        let mut refs: Vec<(Vec<usize>, Outcome)> = Vec::new();
        let mut ok = true;
        for p in perms {
            let order: Vec<usize> = p.iter().map(|i| t[*i]).collect();
            match run_serial(&w, &order, fp) {
                Ok(s) => {
                    for (l, i) in s.lines.iter().zip(s.impls.iter()) {
                        mb.lines.push(l.clone());
                        mb.impls.push(i.clone());
                        mb.owner.push(si);
                    }
                    rep.count_op("serial:triple");
                    refs.push((order, s.outcome));
                }
                Err(e) => {
                    let class = e.split(':').next().unwrap_or("").to_string();
                    rep.count_class(&format!("serial:{}", class));
                    if class == "abort" {
                        rep.violate(
                            &format!("C17|abort|serial|{}|{}", tag, super::c14::panic_class(&e)),
                            "the client aborts when the three operations run one after the other on one thread",
                            replay(format!("# order {:?}: {}", order.iter().map(|i| names[*i]).collect::<Vec<_>>(), e)),
                        );
                    }
                    ok = false;
                    break;
                }
            }
        }
        if !ok {
            continue;
        }
        let distinct: BTreeSet<String> = refs.iter().map(|r| format!("{:?}", r.1)).collect();
        for ri in 0..runs {
            rep.evaluations += 1;
            // shuffled start: who leaves the barrier first
            let mut order = vec![0usize, 1, 2];
            for i in (1..3).rev() {
                let j = rng.below(i as u64 + 1) as usize;
                order.swap(i, j);
            }
            let ops: Vec<usize> = order.iter().map(|i| t[*i]).collect();
            let delays: Vec<u64> = (0..3).map(|_| *rng.pick(&[0u64, 0, 20, 100, 400, 1500])).collect();
            let f = match run_free(&w, &ops, &delays, fp) {
                Ok(f) => f,
                Err(e) => {
                    rep.count_class(&format!("free:{}", e.split(':').next().unwrap_or("")));
                    continue;
                }
            };
            let ctx = format!("# triple {} on three free threads (start order {:?}, delays {:?} us, run {})", tag, ops.iter().map(|i| names[*i]).collect::<Vec<_>>(), delays, ri);
            if let Some(e) = &f.harness_error {
                rep.count_class("harness-error");
                rep.notes.push(format!("history-seed {} len {}: {} — {}", seed, len, ctx, e));
                continue;
            }
            if f.deadlock {
                rep.violate(&format!("C17|deadlock|{}", tag), "three operations on three threads (plus readers) do not finish within the time limit", replay(ctx));
                return;
            }
            rep.count_op(&format!("free:{}", tag));
            rep.count_class(&format!("free:reader-passes={}", f.reader_passes.min(9)));
            let mut aborted = false;
            for (i, r) in f.results.iter().enumerate() {
                if let Err(e) = r {
                    aborted = true;
                    rep.violate(
                        &format!("C17|abort|{}|{}", tag, super::c14::panic_class(e)),
                        "an operation aborts when it runs concurrently with others",
                        replay(format!("{}\n# {} panicked: {}", ctx, names[ops[i]], e)),
                    );
                }
            }
            for e in &f.reader_errors {
                rep.violate(
                    &format!("C17|abort|reader-during-{}", tag),
                    "a reading RPC or the idle-blocks timer fails while writers are running",
                    replay(format!("{}\n# {}", ctx, e)),
                );
            }
            if aborted {
                continue;
            }
            let got = f.outcome.as_ref().expect("outcome");
            match refs.iter().find(|r| r.1 == *got) {
                Some(_) => {
                    rep.count_class("free:serializable");
                    if distinct.len() > 1 {
                        rep.nontrivial.insert(fnv(&format!("{}:{}:{}:{}", seed, len, tag, ri)));
                    }
                }
                None => {
                    let mut lines = vec![ctx.clone(), format!("# concurrent: {}", show_outcome(got))];
                    for (o, r) in &refs {
                        lines.push(format!("# serial {:?}: {}", o.iter().map(|i| names[*i]).collect::<Vec<_>>(), show_outcome(r)));
                    }
                    rep.violate(
                        &match cause_of(got) {
                            Some(c) => format!("C17|not-serializable|{}", c),
                            None => format!("C17|not-serializable|{}", tag),
                        },
                        "the outcome of three concurrent operations is the outcome of none of the six serial orders",
                        replay(lines.join("\n")),
                    );
                }
            }
        }
    }
}

pub fn run(opts: &Options) -> Report {
    let mut rep = Report::default();
    rep.rule = format!(
        "client states built from a seed: dummy-PoW chain of 30..60 blocks paying to / spending from 3 \
        scripts, one honest peer sending filter batches of 4..10, 1..3 scripts registered, sync stopped \
        at a random point of the filter sync with 1..5 matched-blocks records pending and all blocks \
        but one of the earliest record delivered; four captured operations: set_scripts (all / partial \
        / delete, 0..3 random scripts and numbers), the next BlockFilters, the SendBlock that completes \
        the earliest record, a SendLastStateProof switching to a fork of depth 1..3 (one in three: \
        4..10; last-N is 12); every ordered pair serially (both orders, each also through the Sync Lean \
        model) and on two OS threads, the first paused in front of every one of its store writes \
        (quick: at most 5 positions per operation) until the second has finished or has been blocked \
        for {} ms; at every pause: is the lock held, does the second thread write, three reading RPCs \
        against the store cut at that write{}; 2 (thorough 4) triples on three free threads with \
        shuffled start plus a reader / timer thread, against the six serial outcomes; evaluation = one \
        concurrent run; non-trivial = the serial orders differ or the second thread was really blocked \
        by the lock; distinct = (seed, pair, write position)",
        pause_ms(),
        if cfg!(feature = "c17_reader_point") {
            "; readers paused inside a query (after the snapshot / after the first entry) while a writer runs to completion"
        } else {
            ""
        }
    );
    let mut rng = Rng::new(opts.seed ^ fnv("C17"));
    let mut seeds: Vec<(u64, usize)> = Vec::new();
    if let Some(p) = &opts.replay {
        seeds = parse_seeds(&std::fs::read_to_string(p).expect("replay"));
    } else {
        let corpus = std::env::var("C17_CORPUS").unwrap_or_else(|_| "/verif/corpus/C17".to_string());
        if let Ok(rd) = std::fs::read_dir(corpus) {
            let mut files: Vec<_> = rd.flatten().map(|e| e.path()).collect();
            files.sort();
            for f in files {
                seeds.extend(parse_seeds(&std::fs::read_to_string(f).unwrap_or_default()));
            }
        }
        let n = std::env::var("C17_SCENARIOS")
            .ok()
            .and_then(|s| s.parse().ok())
            .unwrap_or(if opts.thorough() { 200 } else { 6 });
        for _ in 0..n {
            seeds.push((rng.next(), rng.range(30, 60) as usize));
        }
    }
    let mut mb = ModelBuf { lines: Vec::new(), impls: Vec::new(), owner: Vec::new() };
    for (si, (seed, len)) in seeds.iter().enumerate() {
        scenario(&mut rep, opts, si, *seed, *len, &mut mb);
    }
    ckb_systemtime::faketime().disable_faketime();
    let slow = SLOW_JOINS.load(Ordering::SeqCst);
    if slow > 0 {
        *rep.classes.entry("slow-join(not-a-deadlock-unless-reported)".to_string()).or_default() += slow;
    }
    let answers = run_model(opts, "sync", &mb.lines);
    let mut bad = BTreeSet::new();
    for (i, a) in answers.iter().enumerate() {
        if mb.impls[i].is_empty() {
            continue;
        }
        if *a == mb.impls[i] {
            rep.traces_validated += 1;
        } else if bad.insert(mb.owner[i]) {
            let (seed, len) = seeds[mb.owner[i]];
            rep.disagree(
                &format!("{} after `{}`  [history-seed {} len {}]", mb.lines[i], mb.lines[i.saturating_sub(1)], seed, len),
                &mb.impls[i],
                a,
            );
        }
    }
    rep
}

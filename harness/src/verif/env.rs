//! The harness' own environment for the repository's protocol objects: a temporary store, a
//! `Peers` table, the dummy-PoW dev consensus of the repository's tests, header builders and a
//! recording `CKBProtocolContext`.

use std::collections::HashSet;
use std::future::Future;
use std::pin::Pin;
use std::sync::{Arc, Mutex};
use std::time::Duration;

use ckb_chain_spec::{consensus::Consensus, ChainSpec};
use ckb_network::{
    async_trait, bytes::Bytes as P2pBytes, Behaviour, CKBProtocolContext, Error, Peer, PeerIndex,
    ProtocolId, SupportProtocols, TargetSession,
};
use ckb_resource::Resource;
use ckb_types::{
    core::{HeaderBuilder, HeaderView},
    packed,
    prelude::*,
    utilities::merkle_mountain_range::VerifiableHeader,
    U256,
};

use crate::protocols::{LightClientProtocol, Peers};
use crate::storage::Storage;

pub const DUMMY_POW_SPEC: &str = "/repo/src/tests/specs/dummy_pow.toml";

pub fn dummy_consensus() -> Consensus {
    let resource = Resource::file_system(DUMMY_POW_SPEC.into());
    let chain_spec = ChainSpec::load_from(&resource).expect("load spec should be OK");
    chain_spec
        .build_consensus()
        .expect("build consensus should be OK")
}

pub struct Env {
    pub tmp: tempfile::TempDir,
    pub storage: Storage,
    pub peers: Arc<Peers>,
    pub consensus: Consensus,
}

impl Env {
    pub fn new(max_outbound_peers: u32, check_point_interval: u64) -> Env {
        Self::with_consensus(dummy_consensus(), max_outbound_peers, check_point_interval)
    }

    pub fn with_consensus(
        consensus: Consensus,
        max_outbound_peers: u32,
        check_point_interval: u64,
    ) -> Env {
        let tmp = tempfile::Builder::new()
            .prefix("lcverif")
            .tempdir()
            .expect("tempdir");
        let storage = Storage::new(tmp.path().to_str().unwrap());
        storage.init_genesis_block(consensus.genesis_block().data());
        let peers = Arc::new(Peers::new(
            max_outbound_peers,
            check_point_interval,
            storage.get_last_check_point(),
        ));
        Env {
            tmp,
            storage,
            peers,
            consensus,
        }
    }

    pub fn protocol(&self) -> LightClientProtocol {
        LightClientProtocol::new(
            self.storage.clone(),
            Arc::clone(&self.peers),
            self.consensus.clone(),
        )
    }
}

/// a header with the given fields (everything else default)
pub fn header(
    number: u64,
    epoch_full: u64,
    compact_target: u32,
    parent_hash: &packed::Byte32,
    timestamp: u64,
) -> HeaderView {
    HeaderBuilder::default()
        .number(number.pack())
        .epoch(epoch_full.pack())
        .compact_target(compact_target.pack())
        .parent_hash(parent_hash.clone())
        .timestamp(timestamp.pack())
        .build()
}

/// a chain root digest carrying `total_difficulty` (other fields default / as given)
pub fn digest_with_td(total_difficulty: &U256, end_number: u64) -> packed::HeaderDigest {
    packed::HeaderDigest::new_builder()
        .total_difficulty(total_difficulty.pack())
        .end_number(end_number.pack())
        .build()
}

/// a verifiable header whose `total_difficulty()` is `parent_td + difficulty(header)`
pub fn verifiable(header: HeaderView, parent_td: &U256) -> VerifiableHeader {
    let n = header.number();
    VerifiableHeader::new(
        header,
        Default::default(),
        None,
        digest_with_td(parent_td, n.saturating_sub(1)),
    )
}

// ---------------------------------------------------------------------------------------------
// recording network context

#[derive(Default)]
pub struct Recorded {
    pub sent: Vec<(ProtocolId, PeerIndex, P2pBytes)>,
    pub banned: Vec<(PeerIndex, Duration, String)>,
    pub disconnected: Vec<PeerIndex>,
}

pub struct MockContext {
    protocol: SupportProtocols,
    pub rec: Mutex<Recorded>,
    pub connected: Mutex<HashSet<PeerIndex>>,
    /// network identities for `get_peer` (needed by the relay protocol)
    pub peer_infos: Mutex<std::collections::HashMap<PeerIndex, Peer>>,
}

impl MockContext {
    pub fn new(protocol: SupportProtocols) -> Arc<MockContext> {
        Arc::new(MockContext {
            protocol,
            rec: Default::default(),
            connected: Default::default(),
            peer_infos: Default::default(),
        })
    }
    pub fn take(&self) -> Recorded {
        std::mem::take(&mut *self.rec.lock().unwrap())
    }
    pub fn connect(&self, p: PeerIndex) {
        self.connected.lock().unwrap().insert(p);
    }
    /// give peer `p` a network identity; returns its peer id
    pub fn identify(&self, p: PeerIndex) -> ckb_network::PeerId {
        let id = ckb_network::PeerId::random();
        let addr: ckb_network::multiaddr::Multiaddr =
            format!("/ip4/127.0.0.1/tcp/{}/p2p/{}", 8000 + p.value() % 1000, id.to_base58())
                .parse()
                .expect("multiaddr");
        let peer = Peer::new(p, ckb_network::SessionType::Outbound, addr, false);
        self.peer_infos.lock().unwrap().insert(p, peer);
        id
    }
}

pub fn as_ctx(c: &Arc<MockContext>) -> Arc<dyn CKBProtocolContext + Sync> {
    Arc::clone(c) as Arc<dyn CKBProtocolContext + Sync>
}

#[async_trait]
impl CKBProtocolContext for MockContext {
    async fn set_notify(&self, _interval: Duration, _token: u64) -> Result<(), Error> {
        Ok(())
    }
    async fn remove_notify(&self, _token: u64) -> Result<(), Error> {
        Ok(())
    }
    async fn async_quick_send_message(
        &self,
        proto_id: ProtocolId,
        peer_index: PeerIndex,
        data: P2pBytes,
    ) -> Result<(), Error> {
        self.send_message(proto_id, peer_index, data)
    }
    async fn async_quick_send_message_to(
        &self,
        peer_index: PeerIndex,
        data: P2pBytes,
    ) -> Result<(), Error> {
        self.send_message_to(peer_index, data)
    }
    async fn async_quick_filter_broadcast(
        &self,
        _target: TargetSession,
        _data: P2pBytes,
    ) -> Result<(), Error> {
        Ok(())
    }
    async fn async_future_task(
        &self,
        _task: Pin<Box<dyn Future<Output = ()> + 'static + Send>>,
        _blocking: bool,
    ) -> Result<(), Error> {
        Ok(())
    }
    async fn async_send_message(
        &self,
        proto_id: ProtocolId,
        peer_index: PeerIndex,
        data: P2pBytes,
    ) -> Result<(), Error> {
        self.send_message(proto_id, peer_index, data)
    }
    async fn async_send_message_to(
        &self,
        peer_index: PeerIndex,
        data: P2pBytes,
    ) -> Result<(), Error> {
        self.send_message_to(peer_index, data)
    }
    fn quick_send_message(
        &self,
        proto_id: ProtocolId,
        peer_index: PeerIndex,
        data: P2pBytes,
    ) -> Result<(), Error> {
        self.send_message(proto_id, peer_index, data)
    }
    fn quick_send_message_to(&self, peer_index: PeerIndex, data: P2pBytes) -> Result<(), Error> {
        self.send_message_to(peer_index, data)
    }
    async fn async_filter_broadcast(
        &self,
        _target: TargetSession,
        _data: P2pBytes,
    ) -> Result<(), Error> {
        Ok(())
    }
    async fn async_disconnect(&self, peer_index: PeerIndex, message: &str) -> Result<(), Error> {
        self.disconnect(peer_index, message)
    }
    fn quick_filter_broadcast(&self, _target: TargetSession, _data: P2pBytes) -> Result<(), Error> {
        Ok(())
    }
    fn future_task(
        &self,
        _task: Pin<Box<dyn Future<Output = ()> + 'static + Send>>,
        _blocking: bool,
    ) -> Result<(), Error> {
        Ok(())
    }
    fn send_message(
        &self,
        proto_id: ProtocolId,
        peer_index: PeerIndex,
        data: P2pBytes,
    ) -> Result<(), Error> {
        self.rec
            .lock()
            .unwrap()
            .sent
            .push((proto_id, peer_index, data));
        Ok(())
    }
    fn send_message_to(&self, peer_index: PeerIndex, data: P2pBytes) -> Result<(), Error> {
        let protocol_id = self.protocol_id();
        self.send_message(protocol_id, peer_index, data)
    }
    fn filter_broadcast(&self, _target: TargetSession, _data: P2pBytes) -> Result<(), Error> {
        Ok(())
    }
    fn disconnect(&self, peer_index: PeerIndex, _message: &str) -> Result<(), Error> {
        self.connected.lock().unwrap().remove(&peer_index);
        self.rec.lock().unwrap().disconnected.push(peer_index);
        Ok(())
    }
    fn get_peer(&self, peer_index: PeerIndex) -> Option<Peer> {
        self.peer_infos.lock().unwrap().get(&peer_index).cloned()
    }
    fn with_peer_mut(&self, _peer_index: PeerIndex, _f: Box<dyn FnOnce(&mut Peer)>) {}
    fn connected_peers(&self) -> Vec<PeerIndex> {
        let mut v: Vec<PeerIndex> = self.connected.lock().unwrap().iter().cloned().collect();
        v.sort();
        v
    }
    fn report_peer(&self, _peer_index: PeerIndex, _behaviour: Behaviour) {}
    fn ban_peer(&self, peer_index: PeerIndex, duration: Duration, reason: String) {
        self.rec
            .lock()
            .unwrap()
            .banned
            .push((peer_index, duration, reason));
    }
    fn protocol_id(&self) -> ProtocolId {
        self.protocol.protocol_id()
    }
    fn ckb2023(&self) -> bool {
        false
    }
}

/// Drive an async trait method of a protocol handler to completion (the handlers never wait on
/// anything but the mock context).
pub fn block_on<F: Future>(f: F) -> F::Output {
    thread_local! {
        static RT: tokio::runtime::Runtime = tokio::runtime::Builder::new_current_thread()
            .build()
            .expect("tokio runtime");
    }
    RT.with(|rt| rt.block_on(f))
}

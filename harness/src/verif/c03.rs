//! C03 — the script index equals the chain (storage level): histories of `filter_block`,
//! `add_fetched_tx`, `add_fetched_header`, `update_block_number`, `rollback_to_block` on random
//! transaction graphs, compared with the `Index` Lean layer (full keyspace dumps) and with an
//! independent ground-truth indexer (live cells / activity of every registered script).

use std::collections::{BTreeMap, BTreeSet};

use ckb_types::{
    core::{HeaderBuilder, TransactionView},
    packed::{self, Byte32, Script},
    prelude::*,
};
use rocksdb::{prelude::*, IteratorMode};

use super::env::Env;
use super::simchain::{script, tx};
use super::{fnv, run_model, Options, Report, Rng};
use crate::storage::{
    extract_raw_data, HeaderWithExtension, KeyPrefix, ScriptStatus, ScriptType, SetScriptsCommand,
};

const N_SCRIPTS: u64 = 5;

fn script_of(id: u64) -> Script {
    script(id as u8, &[id as u8, 0x00])
}

#[derive(Clone, Debug)]
struct OutSpec {
    lock: u64,
    type_: u64, // 0 = none
    cap: u64,
}

#[derive(Clone, Debug)]
struct TxSpec {
    view: TransactionView,
    inputs: Vec<(Byte32, u32)>,
    outputs: Vec<OutSpec>,
}

struct Abs {
    tx_ids: BTreeMap<Byte32, u64>,
    block_ids: BTreeMap<Byte32, u64>,
    script_ids: BTreeMap<Vec<u8>, u64>,
}

impl Abs {
    fn new() -> Abs {
        let mut script_ids = BTreeMap::new();
        for id in 1..=N_SCRIPTS {
            script_ids.insert(extract_raw_data(&script_of(id)), id);
        }
        Abs {
            tx_ids: BTreeMap::new(),
            block_ids: BTreeMap::new(),
            script_ids,
        }
    }
    fn tx(&mut self, h: &Byte32) -> u64 {
        let n = self.tx_ids.len() as u64 + 1;
        *self.tx_ids.entry(h.clone()).or_insert(n)
    }
    fn block(&mut self, h: &Byte32) -> u64 {
        let n = self.block_ids.len() as u64 + 1;
        *self.block_ids.entry(h.clone()).or_insert(n)
    }
}

fn mk_tx(rng: &mut Rng, spendable: &mut Vec<(Byte32, u32)>, salt: u64, consume: bool) -> TxSpec {
    let n_in = if spendable.is_empty() { 0 } else { rng.below(3) as usize };
    let mut inputs = Vec::new();
    for _ in 0..n_in {
        if spendable.is_empty() {
            break;
        }
        let i = rng.below(spendable.len() as u64) as usize;
        let c = if consume { spendable.remove(i) } else { spendable[i].clone() };
        if !inputs.contains(&c) {
            inputs.push(c);
        }
    }
    let n_out = rng.range(1, 3) as usize;
    let outputs: Vec<OutSpec> = (0..n_out)
        .map(|_| OutSpec {
            lock: rng.range(1, N_SCRIPTS),
            type_: if rng.chance(1, 3) { rng.range(1, N_SCRIPTS) } else { 0 },
            cap: *rng.pick(&[100u64, 200, 6100000000]),
        })
        .collect();
    let outs: Vec<(Script, Option<Script>, u64, Vec<u8>)> = outputs
        .iter()
        .map(|o| {
            (
                script_of(o.lock),
                if o.type_ == 0 { None } else { Some(script_of(o.type_)) },
                o.cap,
                vec![],
            )
        })
        .collect();
    let view = tx(&inputs, &outs, salt);
    TxSpec { view, inputs, outputs }
}

fn tx_text(abs: &mut Abs, t: &TxSpec) -> String {
    let ins: Vec<String> = t
        .inputs
        .iter()
        .map(|(h, i)| format!("{} {}", abs.tx(h), i))
        .collect();
    let outs: Vec<String> = t
        .outputs
        .iter()
        .map(|o| format!("{} {} {}", o.lock, o.type_, o.cap))
        .collect();
    format!("{} ; {} ; {}", abs.tx(&t.view.hash()), ins.join(" "), outs.join(" "))
}

fn fmt_rows(rows: &mut Vec<Vec<u64>>) -> String {
    rows.sort();
    let body: Vec<String> = rows
        .iter()
        .map(|r| format!("[{}]", r.iter().map(|x| x.to_string()).collect::<Vec<_>>().join(", ")))
        .collect();
    format!("[{}]", body.join(", "))
}

/// canonical dump of the store, in the format of `Index.dump`
fn dump(env: &Env, abs: &Abs) -> String {
    let mut cells = Vec::new();
    let mut hist = Vec::new();
    let mut txs = Vec::new();
    let mut scripts = Vec::new();
    let mut nums = Vec::new();
    let be64 = |b: &[u8]| u64::from_be_bytes(b.try_into().unwrap());
    let be32 = |b: &[u8]| u32::from_be_bytes(b.try_into().unwrap()) as u64;
    let meta_prefix: Vec<u8> = {
        let mut v = vec![KeyPrefix::Meta as u8];
        v.extend_from_slice(b"FILTER_SCRIPTS");
        v
    };
    for (k, v) in env.storage.db.iterator(IteratorMode::Start) {
        let p = k[0];
        if p == KeyPrefix::CellLockScript as u8 || p == KeyPrefix::CellTypeScript as u8 {
            let n = k.len();
            let raw = &k[1..n - 16];
            let sid = *abs.script_ids.get(raw).unwrap_or(&999);
            let h = Byte32::from_slice(&v).unwrap();
            cells.push(vec![
                (p == KeyPrefix::CellTypeScript as u8) as u64,
                sid,
                be64(&k[n - 16..n - 8]),
                be32(&k[n - 8..n - 4]),
                be32(&k[n - 4..]),
                *abs.tx_ids.get(&h).unwrap_or(&0),
            ]);
        } else if p == KeyPrefix::TxLockScript as u8 || p == KeyPrefix::TxTypeScript as u8 {
            let n = k.len();
            let raw = &k[1..n - 17];
            let sid = *abs.script_ids.get(raw).unwrap_or(&999);
            let h = Byte32::from_slice(&v).unwrap();
            hist.push(vec![
                (p == KeyPrefix::TxTypeScript as u8) as u64,
                sid,
                be64(&k[n - 17..n - 9]),
                be32(&k[n - 9..n - 5]),
                be32(&k[n - 5..n - 1]),
                k[n - 1] as u64,
                *abs.tx_ids.get(&h).unwrap_or(&0),
            ]);
        } else if p == KeyPrefix::TxHash as u8 {
            let h = Byte32::from_slice(&k[1..]).unwrap();
            if let Some(id) = abs.tx_ids.get(&h) {
                txs.push(vec![*id, be64(&v[0..8]), be32(&v[8..12])]);
            }
        } else if p == KeyPrefix::BlockNumber as u8 {
            let n = be64(&k[1..]);
            let h = Byte32::from_slice(&v).unwrap();
            if let Some(id) = abs.block_ids.get(&h) {
                nums.push(vec![n, *id]);
            }
        } else if p == KeyPrefix::Meta as u8 && k.starts_with(&meta_prefix) {
            let raw_script = &k[meta_prefix.len()..k.len() - 1];
            let s = Script::from_slice(raw_script).unwrap();
            let sid = *abs.script_ids.get(&extract_raw_data(&s)).unwrap_or(&999);
            scripts.push(vec![k[k.len() - 1] as u64, sid, be64(&v)]);
        }
    }
    format!(
        "cells {} hist {} txs {} scripts {} nums {}",
        fmt_rows(&mut cells),
        fmt_rows(&mut hist),
        fmt_rows(&mut txs),
        fmt_rows(&mut scripts),
        fmt_rows(&mut nums)
    )
}

/// ground truth: live cells and activity of script (is_type, id) registered from `start`
/// on the block list (all blocks with number > start are considered)
struct Truth {
    /// (is_type, script, bn, txi, oi) of live cells
    cells: BTreeSet<(u64, u64, u64, u64, u64)>,
    /// (is_type, script, bn, txi, ioi, is_output)
    activity: BTreeSet<(u64, u64, u64, u64, u64, u64)>,
    /// activity of inputs whose creating block is at or below the script's start (not
    /// attributable by an index that starts later)
    early_inputs: BTreeSet<(u64, u64, u64, u64, u64, u64)>,
}

fn ground_truth(blocks: &[(u64, Vec<TxSpec>)], scripts_reg: &BTreeMap<(u64, u64), u64>) -> Truth {
    // at storage level every block handed to `filter_block` counts, whatever the start number
    let scripts: BTreeMap<(u64, u64), u64> = scripts_reg.keys().map(|k| (*k, 0u64)).collect();
    let scripts = &scripts;
    let mut t = Truth {
        cells: BTreeSet::new(),
        activity: BTreeSet::new(),
        early_inputs: BTreeSet::new(),
    };
    // every output ever created: (tx hash, idx) -> (bn, txi, spec)
    let mut created: BTreeMap<(Byte32, u32), (u64, u64, OutSpec)> = BTreeMap::new();
    for (bn, txs) in blocks {
        for (txi, tx) in txs.iter().enumerate() {
            for (ii, (h, idx)) in tx.inputs.iter().enumerate() {
                if let Some((cbn, ctxi, o)) = created.get(&(h.clone(), *idx)).cloned() {
                    for (is_type, sid) in [(0u64, o.lock), (1u64, o.type_)] {
                        if sid == 0 {
                            continue;
                        }
                        if let Some(start) = scripts.get(&(is_type, sid)) {
                            if *bn > *start {
                                let a = (is_type, sid, *bn, txi as u64, ii as u64, 0);
                                if cbn > *start {
                                    t.activity.insert(a);
                                } else {
                                    t.early_inputs.insert(a);
                                }
                            }
                            t.cells.remove(&(is_type, sid, cbn, ctxi, *idx as u64));
                        }
                    }
                }
            }
            for (oi, o) in tx.outputs.iter().enumerate() {
                created.insert((tx.view.hash(), oi as u32), (*bn, txi as u64, o.clone()));
                for (is_type, sid) in [(0u64, o.lock), (1u64, o.type_)] {
                    if sid == 0 {
                        continue;
                    }
                    if let Some(start) = scripts.get(&(is_type, sid)) {
                        if *bn > *start {
                            t.cells.insert((is_type, sid, *bn, txi as u64, oi as u64));
                            t.activity.insert((is_type, sid, *bn, txi as u64, oi as u64, 1));
                        }
                    }
                }
            }
        }
    }
    t
}

fn parse_rows(section: &str) -> Vec<Vec<u64>> {
    // "[[a, b], [c, d]]"
    let inner = section.trim();
    let inner = &inner[1..inner.len() - 1];
    if inner.is_empty() {
        return vec![];
    }
    inner
        .split("], [")
        .map(|r| {
            r.trim_matches(|c| c == '[' || c == ']')
                .split(", ")
                .filter(|x| !x.is_empty())
                .map(|x| x.parse().unwrap())
                .collect()
        })
        .collect()
}

fn sections(d: &str) -> (Vec<Vec<u64>>, Vec<Vec<u64>>) {
    let cells_start = d.find("cells ").unwrap() + 6;
    let hist_start = d.find(" hist ").unwrap();
    let txs_start = d.find(" txs ").unwrap();
    (
        parse_rows(&d[cells_start..hist_start]),
        parse_rows(&d[hist_start + 6..txs_start]),
    )
}

fn run_history(rep: &mut Report, seed: u64, len: usize) -> (Vec<String>, Vec<String>) {
    let mut rng = Rng::new(seed);
    let replay = vec![format!("history-seed {} len {}", seed, len)];
    let env = Env::new(1, 2000);
    let mut abs = Abs::new();
    let mut lines = vec!["reset".to_string()];
    let mut impls = vec!["ok".to_string()];
    // registered scripts (fixed for the history): (is_type, id) -> start number
    let mut scripts: BTreeMap<(u64, u64), u64> = BTreeMap::new();
    let n_scripts = rng.range(1, 4);
    let mut statuses = Vec::new();
    for _ in 0..n_scripts {
        let id = rng.range(1, N_SCRIPTS);
        let is_type = rng.chance(1, 4) as u64;
        let start = *rng.pick(&[1u64, 1, 2, 4]);
        if scripts.insert((is_type, id), start).is_none() {
            statuses.push(ScriptStatus {
                script: script_of(id),
                script_type: if is_type == 1 { ScriptType::Type } else { ScriptType::Lock },
                block_number: start,
            });
            lines.push(format!("script {} {} {}", is_type, id, start));
            impls.push("ok".into());
        }
    }
    env.storage.update_filter_scripts(statuses, SetScriptsCommand::All);

    let mut blocks: Vec<(u64, Vec<TxSpec>)> = Vec::new();
    let mut spendable: Vec<(Byte32, u32)> = Vec::new();
    let mut number = 1u64;
    let mut salt = seed;
    // whether the index is still "clean" (every block filtered exactly once, in order)
    let mut clean = true;
    let mut all_txs: Vec<TxSpec> = Vec::new();
    // a transaction of the NEXT block whose fetch result is stored before the block is filtered
    // (fetch_transaction for a transaction under the proved tip the filter sync has not reached)
    let mut pending: Option<TxSpec> = None;
    for _ in 0..len {
        rep.evaluations += 1;
        match rng.below(12) {
            0 | 1 | 2 | 3 | 4 | 5 | 6 => {
                // next block
                let n_tx = rng.range(1, 4) as usize;
                let mut txs = Vec::new();
                let pending_at = if pending.is_some() { rng.below(n_tx as u64 + 1) as usize } else { usize::MAX };
                for k in 0..=n_tx {
                    if k == pending_at {
                        let t = pending.take().unwrap();
                        for i in 0..t.outputs.len() {
                            spendable.push((t.view.hash(), i as u32)); // later transactions of the block may spend it
                        }
                        txs.push(t);
                        rep.count_class("c03:fetched-before-filtered");
                    }
                    if k == n_tx {
                        break;
                    }
                    salt += 1;
                    let t = mk_tx(&mut rng, &mut spendable, salt, true);
                    for i in 0..t.outputs.len() {
                        spendable.push((t.view.hash(), i as u32)); // same-block chains allowed
                    }
                    txs.push(t);
                }
                let header = HeaderBuilder::default().number(number.pack()).timestamp(salt.pack()).build();
                let block = packed::Block::new_builder()
                    .header(header.data())
                    .transactions(txs.iter().map(|t| t.view.data()).collect::<Vec<_>>().pack())
                    .build();
                env.storage.filter_block(block.clone());
                // as the block handler does after indexing a batch
                env.storage.update_block_number(number);
                let bh = abs.block(&header.hash());
                let body: Vec<String> = txs.iter().map(|t| tx_text(&mut abs, t)).collect();
                lines.push(format!("block {} {} | {}", number, bh, body.join(" | ")));
                impls.push("ok".into());
                lines.push(format!("updnum {}", number));
                impls.push("ok".into());
                all_txs.extend(txs.iter().cloned());
                blocks.push((number, txs));
                number += 1;
                rep.count_op("block");
            }
            7 | 8 => {
                // a fetch result arrives for a transaction (possibly one that is already indexed)
                if pending.is_none() && rng.chance(1, 2) {
                    // ... or for a transaction of the next block
                    salt += 1;
                    let t = mk_tx(&mut rng, &mut spendable, salt, true);
                    let hdr = HeaderBuilder::default().number(number.pack()).timestamp((number + 7_000_000).pack()).build();
                    env.storage.add_fetched_tx(
                        &t.view.data(),
                        &HeaderWithExtension { header: hdr.data(), extension: None },
                    );
                    let bh = abs.block(&hdr.hash());
                    lines.push(format!("fetched {} {} | {}", number, bh, tx_text(&mut abs, &t)));
                    impls.push("ok".into());
                    rep.count_op("fetched-ahead");
                    pending = Some(t);
                    let d = dump(&env, &abs);
                    lines.push("dump".into());
                    impls.push(d);
                    continue;
                }
                if all_txs.is_empty() {
                    continue;
                }
                let t = rng.pick(&all_txs).clone();
                let bn = blocks
                    .iter()
                    .find(|(_, txs)| txs.iter().any(|x| x.view.hash() == t.view.hash()))
                    .map(|(n, _)| *n)
                    .unwrap();
                let header = HeaderBuilder::default()
                    .number(bn.pack())
                    .timestamp(
                        // the header of that block as built above is not kept; the fetched header
                        // is the block's: rebuild it identically
                        0u64.pack(),
                    )
                    .build();
                // find the real header hash of that block: re-create with the same fields
                let _ = header;
                let real = blocks.iter().position(|(n, _)| *n == bn).unwrap();
                let _ = real;
                // we kept only ids of the headers: use a fresh header value of the same number
                let hdr = HeaderBuilder::default().number(bn.pack()).timestamp((bn + 7_000_000).pack()).build();
                env.storage.add_fetched_tx(
                    &t.view.data(),
                    &HeaderWithExtension { header: hdr.data(), extension: None },
                );
                let bh = abs.block(&hdr.hash());
                lines.push(format!("fetched {} {} | {}", bn, bh, tx_text(&mut abs, &t)));
                impls.push("ok".into());
                rep.count_op("fetched");
            }
            9 => {
                let bn = rng.range(1, number + 2);
                let hdr = HeaderBuilder::default().number(bn.pack()).timestamp((bn + 9_000_000).pack()).build();
                env.storage.add_fetched_header(&HeaderWithExtension { header: hdr.data(), extension: None });
                let bh = abs.block(&hdr.hash());
                lines.push(format!("header {} {}", bn, bh));
                impls.push("ok".into());
                rep.count_op("header");
            }
            10 => {
                let n = rng.range(0, number + 1);
                env.storage.update_block_number(n);
                for v in scripts.values_mut() {
                    // raising the recorded number does not change what the ground truth covers:
                    // blocks up to `n` were either filtered or do not exist yet in `clean` runs
                    let _ = v;
                }
                if n >= number {
                    clean = false; // claims progress beyond the filtered blocks
                }
                lines.push(format!("updnum {}", n));
                impls.push("ok".into());
                rep.count_op("updnum");
            }
            _ => {
                // fork: roll back to block `to` (it and everything above disappears)
                if number <= 2 {
                    continue;
                }
                let to = rng.range(2, number);
                let before = dump(&env, &abs);
                let _ = before;
                env.storage.rollback_to_block(to);
                lines.push(format!("rollback {}", to));
                impls.push("ok".into());
                // ground truth: the chain is cut; outputs of removed blocks are no longer spendable
                let removed: BTreeSet<Byte32> = blocks
                    .iter()
                    .filter(|(n, _)| *n >= to)
                    .flat_map(|(_, txs)| txs.iter().map(|t| t.view.hash()))
                    .collect();
                // inputs consumed by removed blocks become spendable again
                for (_, txs) in blocks.iter().filter(|(n, _)| *n >= to) {
                    for t in txs {
                        for i in &t.inputs {
                            if !removed.contains(&i.0) && !spendable.contains(i) {
                                spendable.push(i.clone());
                            }
                        }
                    }
                }
                if let Some(t) = pending.take() {
                    // the announced transaction belongs to the abandoned continuation
                    for i in &t.inputs {
                        if !spendable.contains(i) {
                            spendable.push(i.clone());
                        }
                    }
                }
                spendable.retain(|(h, _)| !removed.contains(h));
                blocks.retain(|(n, _)| *n < to);
                all_txs.retain(|t| !removed.contains(&t.view.hash()));
                // the scripts' recorded numbers go back to `to` where they were above; the ground
                // truth keeps the registration number (what the user asked for)
                number = to;
                rep.count_op("rollback");
            }
        }
        let d = dump(&env, &abs);
        lines.push("dump".into());
        impls.push(d.clone());
        // ---- property oracle: the index of every registered script equals the chain
        if clean {
            let truth = ground_truth(&blocks, &scripts);
            let (cells, hist) = sections(&d);
            let got_cells: BTreeSet<(u64, u64, u64, u64, u64)> =
                cells.iter().map(|r| (r[0], r[1], r[2], r[3], r[4])).collect();
            let got_hist: BTreeSet<(u64, u64, u64, u64, u64, u64)> =
                hist.iter().map(|r| (r[0], r[1], r[2], r[3], r[4], r[5])).collect();
            if got_cells != truth.cells {
                let phantom: Vec<_> = got_cells.difference(&truth.cells).cloned().collect();
                let missing: Vec<_> = truth.cells.difference(&got_cells).cloned().collect();
                let after_fetch = lines.iter().any(|l| l.starts_with("fetched"));
                let after_rollback = lines.iter().any(|l| l.starts_with("rollback"));
                rep.violate(
                    &format!(
                        "C03|cells|{}{}{}",
                        if !phantom.is_empty() { "phantom" } else { "missing" },
                        if after_fetch { "|after-fetched-tx" } else { "" },
                        if after_rollback { "|after-rollback" } else { "" }
                    ),
                    "the live-cell index of a registered script differs from the chain",
                    vec![
                        replay[0].clone(),
                        format!("# at op line {}", lines.len()),
                        format!("# phantom (is_type, script, block, tx, output): {:?}", phantom),
                        format!("# missing: {:?}", missing),
                    ],
                );
            }
            let expected_hist: BTreeSet<_> = truth.activity.clone();
            let unexpected: Vec<_> = got_hist
                .difference(&expected_hist)
                .filter(|a| !truth.early_inputs.contains(a))
                .cloned()
                .collect();
            let missing: Vec<_> = expected_hist.difference(&got_hist).cloned().collect();
            if !unexpected.is_empty() || !missing.is_empty() {
                let after_fetch = lines.iter().any(|l| l.starts_with("fetched"));
                let after_rollback = lines.iter().any(|l| l.starts_with("rollback"));
                rep.violate(
                    &format!(
                        "C03|activity|{}{}{}",
                        if !missing.is_empty() { "missing" } else { "unexpected" },
                        if after_fetch { "|after-fetched-tx" } else { "" },
                        if after_rollback { "|after-rollback" } else { "" }
                    ),
                    "the transaction history of a registered script differs from the chain",
                    vec![
                        replay[0].clone(),
                        format!("# at op line {}", lines.len()),
                        format!("# unexpected: {:?}", unexpected),
                        format!("# missing: {:?}", missing),
                    ],
                );
            }
            // inputs spending cells created at or before the start number cannot be attributed
            let lost: Vec<_> = truth.early_inputs.difference(&got_hist).cloned().collect();
            if !lost.is_empty() {
                rep.violate(
                    "C03|activity|input-of-pre-registration-cell-not-recorded",
                    "an input spending a cell created at or before the script's start number is not in get_transactions",
                    vec![replay[0].clone(), format!("# lost: {:?}", lost)],
                );
            }
            if !truth.cells.is_empty() {
                rep.nontrivial.insert(fnv(&format!("{}:{}", seed, len)));
            }
        }
    }
    (lines, impls)
}

pub fn run(opts: &Options) -> Report {
    let mut rep = Report::default();
    rep.rule = "histories at storage level: 1..4 registered scripts (lock / type, start numbers \
        1,2,4) over 5 scripts; blocks of 1..4 transactions with same-block spend chains, multi-script \
        and typed outputs; every block is passed to filter_block in number order, interleaved with \
        add_fetched_tx of already indexed transactions, add_fetched_header, update_block_number and \
        rollback_to_block; after every operation the five keyspaces are dumped and compared with the \
        model, and with a ground-truth indexer (live cells and activity per script); non-trivial = a \
        registered script has live cells; distinct = distinct history seed"
        .into();
    let mut rng = Rng::new(opts.seed);
    let parse = |text: &str| -> Vec<(u64, usize)> {
        text.lines()
            .filter_map(|l| {
                let t: Vec<&str> = l.split_whitespace().collect();
                if t.first() == Some(&"history-seed") && t.len() >= 4 {
                    Some((t[1].parse().ok()?, t[3].parse().ok()?))
                } else {
                    None
                }
            })
            .collect()
    };
    let mut seeds: Vec<(u64, usize)> = Vec::new();
    if let Some(p) = &opts.replay {
        seeds = parse(&std::fs::read_to_string(p).expect("replay"));
    } else {
        if let Ok(rd) = std::fs::read_dir("/verif/corpus/C03") {
            for e in rd.flatten() {
                seeds.extend(parse(&std::fs::read_to_string(e.path()).unwrap_or_default()));
            }
        }
        let n = if opts.thorough() { 4000 } else { 250 };
        for _ in 0..n {
            seeds.push((rng.next(), rng.range(5, 30) as usize));
        }
    }
    let mut all_lines = Vec::new();
    let mut all_impls = Vec::new();
    let mut owner = Vec::new();
    for (i, (seed, len)) in seeds.iter().enumerate() {
        let (l, im) = run_history(&mut rep, *seed, *len);
        if std::env::var("VERIF_TRACE").is_ok() {
            for (a, b) in l.iter().zip(im.iter()) {
                eprintln!("{}   #{}", a, b);
            }
        }
        if i % 41 == 0 {
            rep.sample(&format!(
                "history-seed {} len {}: {}",
                seed,
                len,
                l.iter().filter(|x| !x.starts_with("dump")).take(8).cloned().collect::<Vec<_>>().join(" / ")
            ));
        }
        for _ in 0..l.len() {
            owner.push(i);
        }
        all_lines.extend(l);
        all_impls.extend(im);
    }
    let answers = run_model(opts, "index", &all_lines);
    let mut bad = BTreeSet::new();
    for (i, a) in answers.iter().enumerate() {
        if *a == all_impls[i] {
            rep.traces_validated += 1;
        } else if bad.insert(owner[i]) {
            let (seed, len) = seeds[owner[i]];
            // show the first differing position
            let pos = a.bytes().zip(all_impls[i].bytes()).position(|(x, y)| x != y).unwrap_or(0);
            let from = pos.saturating_sub(80);
            rep.disagree(
                &format!("{} (line {})  [history-seed {} len {}]", all_lines[i], i, seed, len),
                &all_impls[i].chars().skip(from).take(260).collect::<String>(),
                &a.chars().skip(from).take(260).collect::<String>(),
            );
        }
    }
    rep
}

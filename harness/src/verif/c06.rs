//! C06 — block filters are acted on only if authentic and attributed to the right block.
//! A full client with two honest peers and one proven peer that lies on the filter protocol
//! (tampered filters, substituted block hashes, shifted start numbers, wrong counts, fake
//! partial filter-hash chains inside a finalized check point interval), at every position
//! relative to the finalized / cached check points.  Oracles: a message that moves the filtered
//! height or records matched blocks must carry the chain's own filters and block hashes in the
//! accepted prefix; after convergence with the honest peers the index must equal the ground
//! truth.  Every `BlockFilters` delivery is compared with the `Filter` Lean layer (`msg` op), and
//! every `BlockFilterHashes` delivery that takes the cached branch of `BlockFilterHashesProcess`
//! (honest rounds, attack messages, convergence) with its `hashes` op: ban code, the request for
//! more hashes and the resulting cache.

use std::collections::BTreeSet;

use ckb_network::{bytes::Bytes, PeerIndex, SupportProtocols};
use ckb_types::{packed, packed::Byte32, prelude::*, utilities::calc_filter_hash};

use super::c04::{index_dump, parse_seeds, short, Branch, Fact};
use super::node::{set_now, Node};
use super::server::{self, ServerOpts};
use super::sync::{script_of, N_SCRIPTS};
use super::{catch, fnv, run_model, Options, Report, Rng};
use crate::service::{BlockFilterRpc, ScriptStatus, ScriptType, SetScriptsCommand};

const LAST_N: u64 = 5;

fn fmsg<T: Into<packed::BlockFilterMessageUnion>>(content: T) -> Bytes {
    packed::BlockFilterMessage::new_builder().set(content).build().as_bytes()
}

#[derive(Clone, Debug, PartialEq)]
enum Attack {
    TamperFilter,
    SubstituteHashOnChain,
    SubstituteHashRandom,
    ShiftedContent,
    WrongStart,
    CountMismatch,
    Truncated,
    PartialCache,
    FromUnproven,
    HonestUnsolicited,
    UnverifiedTail,
    /// a full interval of made-up filter hashes from one proved peer, ending exactly at the next
    /// check point (the last one made up too)
    ForgedFullCache,
    /// the same with the right hash in the last position (the next check point itself)
    ForgedCacheRightEnd,
    /// after the finalized check point: one honest proved peer holds the latest filter hashes, the
    /// lying proved peer holds made-up ones (a chain over quiet filters), the third peer holds none
    /// for those blocks; quorum 2.  No hash is held by two peers: quiet filters from the liar must
    /// have no effect
    MinorityLatestHashes,
}

/// the attacks a history seed picks from with its own random stream (the pinned seeds of
/// /verif/corpus/C06 depend on this number)
const N_BASE_ATTACKS: usize = 13;

const ATTACKS: [Attack; 14] = [
    Attack::TamperFilter,
    Attack::SubstituteHashOnChain,
    Attack::SubstituteHashRandom,
    Attack::ShiftedContent,
    Attack::WrongStart,
    Attack::CountMismatch,
    Attack::Truncated,
    Attack::PartialCache,
    Attack::FromUnproven,
    Attack::HonestUnsolicited,
    Attack::UnverifiedTail,
    Attack::ForgedFullCache,
    Attack::ForgedCacheRightEnd,
    Attack::MinorityLatestHashes,
];

/// The attacks appended after the pinned seeds were recorded take over a generated history with
/// probability 1/8, decided by a stream of its own, and are written into the history's `len`:
/// `len = 1000 * k + rounds` runs `ATTACKS[N_BASE_ATTACKS + k - 1]`.  A history with `len < 1000`
/// (every pinned one) is bit for bit the history it was before.
fn appended_attack_code(seed: u64) -> usize {
    let mut r = Rng::new(seed ^ fnv("C06-appended-attacks"));
    if r.chance(1, 8) {
        1000 * (1 + r.below((ATTACKS.len() - N_BASE_ATTACKS) as u64) as usize)
    } else {
        0
    }
}

/// ids for byte strings (hashes, filters)
#[derive(Default)]
struct Abs {
    ids: std::collections::HashMap<Vec<u8>, u64>,
}
impl Abs {
    fn id(&mut self, b: &[u8]) -> u64 {
        let n = self.ids.len() as u64 + 1;
        *self.ids.entry(b.to_vec()).or_insert(n)
    }
}

/// MinorityLatestHashes: a `BlockFilterHashes` answer for blocks after the finalized check point
/// is cut after block `cap` (`None`: nothing is left, the peer stays silent); every other message
/// passes
fn cap_latest_hashes(node: &Node, m: Bytes, cap: u64) -> Option<Bytes> {
    let parsed = packed::BlockFilterMessageReader::from_compatible_slice(&m).ok().and_then(|r| match r.to_enum() {
        packed::BlockFilterMessageUnionReader::BlockFilterHashes(b) => Some(b.to_entity()),
        _ => None,
    });
    let Some(bh) = parsed else { return Some(m) };
    let start: u64 = bh.start_number().unpack();
    let (fin_idx, _) = node.i().storage.get_last_check_point();
    if start <= node.i().peers.calc_check_point_number(fin_idx) {
        return Some(m);
    }
    let keep = (cap + 1).saturating_sub(start) as usize;
    let hashes: Vec<Byte32> = bh.block_filter_hashes().into_iter().take(keep).collect();
    if hashes.is_empty() {
        return None;
    }
    Some(fmsg(bh.as_builder().block_filter_hashes(hashes.pack()).build()))
}

/// the `st` op: the client's state right now (+ the hashes it holds: check points, cache, latest)
fn st_line(node: &Node, abs: &mut Abs, interval: u64) -> (String, Vec<Byte32>, Vec<Byte32>, Vec<Byte32>) {
    let st = &node.i().storage;
    let peers = &node.i().peers;
    let (fin_idx, _) = st.get_last_check_point();
    let cps: Vec<Byte32> = st.get_check_points(0, fin_idx as usize + 2);
    let (cached_idx, cached) = peers.get_cached_block_filter_hashes();
    let latest = peers.get_latest_block_filter_hashes(fin_idx);
    let ids = |abs: &mut Abs, v: &[Byte32]| v.iter().map(|h| abs.id(h.as_slice()).to_string()).collect::<Vec<_>>().join(" ");
    let line = format!(
        "st {} {} {} {} {} | {} | {} | {}",
        interval,
        st.get_min_filtered_block_number(),
        st.is_filter_scripts_empty() as u8,
        fin_idx,
        cached_idx,
        ids(abs, &cps),
        ids(abs, &cached),
        ids(abs, &latest)
    );
    (line, cps, cached, latest)
}

/// the canonical form of a cache: `cache <index> <length> : <ids…>` (what the `hashes` op prints)
fn cache_text(abs: &mut Abs, idx: u32, cached: &[Byte32]) -> String {
    format!(
        "cache {} {} : {}",
        idx,
        cached.len(),
        cached.iter().map(|h| abs.id(h.as_slice()).to_string()).collect::<Vec<_>>().join(" ")
    )
}

/// does a `BlockFilterHashes` message from `from` take the cached branch of
/// `BlockFilterHashesProcess::execute`?  (the tests of the code, on the client's state right now)
fn takes_cached_branch(node: &Node, from: PeerIndex, start: u64) -> bool {
    let peers = &node.i().peers;
    let proved = peers.get_state(&from).map(|s| s.get_prove_state().is_some()).unwrap_or(false);
    if !proved {
        return false;
    }
    let (fin_idx, _) = node.i().storage.get_last_check_point();
    let fin_number = peers.calc_check_point_number(fin_idx);
    let (cached_idx, _) = peers.get_cached_block_filter_hashes();
    let cached_number = peers.calc_check_point_number(cached_idx);
    let next_number = peers.calc_check_point_number(cached_idx + 1);
    start <= fin_number && cached_number < start && start <= next_number
}

/// a `BlockFilterHashes` delivery that takes the cached branch: the `hashes` op of the model and
/// what the implementation let us observe (ban code, request for more hashes, new cache)
fn deliver_hashes_checked(
    node: &mut Node,
    abs: &mut Abs,
    interval: u64,
    from: PeerIndex,
    bh: packed::BlockFilterHashes,
    m: Bytes,
    sink: &mut Sink,
) -> Result<(), String> {
    let start: u64 = bh.start_number().unpack();
    let parent = bh.parent_block_filter_hash();
    let hashes: Vec<Byte32> = bh.block_filter_hashes().into_iter().collect();
    let (line, _, _, _) = st_line(node, abs, interval);
    let op = format!(
        "hashes 1 {} {} | {}",
        start,
        abs.id(parent.as_slice()),
        hashes.iter().map(|h| abs.id(h.as_slice()).to_string()).collect::<Vec<_>>().join(" ")
    );
    let (ci0, c0) = node.i().peers.get_cached_block_filter_hashes();
    let before = cache_text(abs, ci0, &c0);
    // requests and bans stay queued for the caller: look at what is new only
    let (sent0, bans0) = {
        let rec = node.i().nc_filter.rec.lock().unwrap();
        (rec.sent.len(), rec.banned.len())
    };
    catch(|| node.deliver(from, SupportProtocols::Filter.protocol_id(), m))?;
    let (ban, ask) = {
        let rec = node.i().nc_filter.rec.lock().unwrap();
        let ban = rec.banned[bans0.min(rec.banned.len())..].iter().find(|b| b.0 == from).map(|b| {
            b.2.split('(').nth(1).and_then(|t| t.split(')').next()).unwrap_or("?").to_string()
        });
        let ask = rec.sent[sent0.min(rec.sent.len())..].iter().find_map(|(_, _, data)| {
            packed::BlockFilterMessageReader::from_compatible_slice(data).ok().and_then(|r| match r.to_enum() {
                packed::BlockFilterMessageUnionReader::GetBlockFilterHashes(g) => Some(Unpack::<u64>::unpack(&g.start_number())),
                _ => None,
            })
        });
        (ban, ask)
    };
    let (ci, c) = node.i().peers.get_cached_block_filter_hashes();
    let after = cache_text(abs, ci, &c);
    let outcome = if let Some(code) = ban {
        format!("banned {}", code)
    } else if let Some(n) = ask {
        format!("updated ask {}", n)
    } else if after != before {
        "updated ask none".to_string()
    } else {
        // ignored, or written again with the same content and no request for more hashes
        "quiet".to_string()
    };
    sink.lines.push(line);
    sink.impls.push(String::new());
    sink.pre.push(String::new());
    sink.owner.push(sink.cur);
    sink.lines.push(op);
    sink.impls.push(format!("{} {}", outcome, after));
    sink.pre.push(before);
    sink.owner.push(sink.cur);
    Ok(())
}

/// Function-level differential of the cached branch on the live client: made-up finalized check
/// points, a made-up position of the filtered height and a made-up (consistent) partial cache,
/// then one filter-hashes message from a proved peer: continuous / overlapping / with a gap,
/// ending before / at / after the next check point, honest or with one wrong hash (in the
/// overlap, in the new part, at the check point) or a wrong parent.  Runs after the oracles of
/// the history: the state it leaves is thrown away.
fn probe_cached_hashes(node: &mut Node, abs: &mut Abs, interval: u64, seed: u64, sink: &mut Sink, rep: &mut Report) -> Result<(), String> {
    let mut r = Rng::new(seed ^ fnv("C06-cache-probes"));
    let Some(from) = [1usize, 2, 3]
        .into_iter()
        .map(PeerIndex::new)
        .find(|p| node.i().peers.get_state(p).map(|s| s.get_prove_state().is_some()).unwrap_or(false))
    else {
        return Ok(());
    };
    let rnd = |r: &mut Rng| -> Byte32 {
        let mut h = [0u8; 32];
        h[..8].copy_from_slice(&r.next().to_le_bytes());
        h[8..16].copy_from_slice(&r.next().to_le_bytes());
        h.pack()
    };
    // four made-up finalized check points after the genesis one
    let fin_idx: u32 = 4;
    let mut cps: Vec<Byte32> = node.i().storage.get_check_points(0, 1);
    for _ in 0..fin_idx {
        cps.push(rnd(&mut r));
    }
    node.i().storage.update_check_points(1, &cps[1..]);
    node.i().storage.update_max_check_point_index(fin_idx);
    let probes = if interval > 100 { 3 } else { 12 };
    for _ in 0..probes {
        let c = r.below(fin_idx as u64);
        let base = c * interval;
        // the hashes of the interval: the last one is the next check point
        let mut truth: Vec<Byte32> = (1..interval).map(|_| rnd(&mut r)).collect();
        truth.push(cps[c as usize + 1].clone());
        let l = match r.below(4) {
            0 => 0,
            1 => interval,
            _ => r.below(interval + 1),
        };
        let min_f = base + r.below(interval);
        node.i().storage.update_min_filtered_block_number(min_f);
        // leave the interval and come back: the cache is emptied, then filled by hand
        node.i().peers.update_min_filtered_block_number(base + 2 * interval);
        node.i().peers.update_min_filtered_block_number(min_f);
        node.i().peers.update_cached_block_filter_hashes(truth[..l as usize].to_vec());
        // the message
        let off = match r.below(6) {
            0 => 0,
            1 => l,
            2 => (l + 1 + r.below(2)).min(interval - 1), // a gap (or the end of the interval)
            _ => r.below(l + 1),
        }
        .min(interval - 1);
        let start = base + 1 + off;
        let to_next = interval - off; // hashes up to the next check point
        let len = match r.below(6) {
            0 => to_next,
            1 => to_next + 1 + r.below(3),
            2 => 0,
            3 => to_next.saturating_sub(1),
            _ => r.below(to_next + 3),
        };
        let mut hashes: Vec<Byte32> = (0..len).map(|i| truth.get((off + i) as usize).cloned().unwrap_or_else(|| rnd(&mut r))).collect();
        let mut parent = if off == 0 { cps[c as usize].clone() } else { truth[off as usize - 1].clone() };
        let mut what = "honest";
        match r.below(8) {
            0 if !hashes.is_empty() => {
                let i = r.below(hashes.len() as u64) as usize;
                hashes[i] = rnd(&mut r);
                what = "one-wrong-hash";
            }
            1 if len >= to_next => {
                hashes[to_next as usize - 1] = rnd(&mut r);
                what = "wrong-check-point";
            }
            2 => {
                parent = rnd(&mut r);
                what = "wrong-parent";
            }
            3 if len >= to_next && to_next >= 2 => {
                // the forged middle: everything but the check point made up
                for h in hashes.iter_mut().take(to_next as usize - 1) {
                    *h = rnd(&mut r);
                }
                what = "made-up-middle";
            }
            _ => {}
        }
        let bh = packed::BlockFilterHashes::new_builder()
            .start_number(start.pack())
            .parent_block_filter_hash(parent)
            .block_filter_hashes(hashes.pack())
            .build();
        if !takes_cached_branch(node, from, start) {
            rep.count_class("hashes:probe:other-branch");
            continue;
        }
        rep.count_class(&format!("hashes:probe:{}", what));
        let _ = catch(|| node.collect());
        if node.i().peers.get_state(&from).map(|s| s.get_prove_state().is_none()).unwrap_or(true) {
            // the probed peer was banned by an earlier probe
            return Ok(());
        }
        deliver_hashes_checked(node, abs, interval, from, bh.clone(), fmsg(bh), sink)?;
    }
    Ok(())
}

/// the `Filter` model ops for one `BlockFilters` message from `from`, against the client's state
/// right now
fn model_ops(
    node: &Node,
    br: &Branch,
    abs: &mut Abs,
    interval: u64,
    from: PeerIndex,
    start: u64,
    filters: &[packed::Bytes],
    hashes: &[Byte32],
) -> Vec<String> {
    let peers = &node.i().peers;
    let proved = peers.get_state(&from).map(|s| s.get_prove_state().is_some()).unwrap_or(false);
    let ids = |abs: &mut Abs, v: &[Byte32]| v.iter().map(|h| abs.id(h.as_slice()).to_string()).collect::<Vec<_>>().join(" ");
    let (line, cps, cached, latest) = st_line(node, abs, interval);
    let mut out = vec![line];
    // the hash table: the message's filters chained from every hash the client knows
    let mut parents: Vec<Byte32> = cps.clone();
    parents.extend(cached.iter().cloned());
    parents.extend(latest.iter().cloned());
    let mut seen = BTreeSet::new();
    for p in parents {
        let mut parent = p;
        for f in filters.iter() {
            let h: Byte32 = calc_filter_hash(&parent, f).pack();
            let line = format!("h {} {} {}", abs.id(parent.as_slice()), abs.id(f.as_slice()), abs.id(h.as_slice()));
            if seen.insert(line.clone()) {
                out.push(line);
            }
            parent = h;
        }
    }
    // the GCS verdict: the filter is the chain's filter of a block with activity
    let active: BTreeSet<Vec<u8>> = (1..=br.chain.tip_number())
        .filter(|n| br.facts.iter().any(|f| f.1 == *n))
        .map(|n| br.chain.filters[n as usize].as_slice().to_vec())
        .collect();
    out.push(format!(
        "msg {} {} | {} | {} | {}",
        proved as u8,
        start,
        filters.iter().map(|f| abs.id(f.as_slice()).to_string()).collect::<Vec<_>>().join(" "),
        ids(abs, hashes),
        filters.iter().map(|f| (active.contains(f.as_slice()) as u8).to_string()).collect::<Vec<_>>().join(" ")
    ));
    out
}

/// model ops and the implementation's observed answers
struct Sink {
    lines: Vec<String>,
    impls: Vec<String>,
    /// `hashes` ops: the cache before the delivery (canonical text); empty for the other ops
    pre: Vec<String>,
    owner: Vec<(u64, usize)>,
    cur: (u64, usize),
}

/// deliver a filter-protocol message; a `BlockFilters` message and a `BlockFilterHashes` message
/// that takes the cached branch are also given to the model
fn deliver_checked(
    node: &mut Node,
    br: &Branch,
    abs: &mut Abs,
    interval: u64,
    from: PeerIndex,
    m: Bytes,
    sink: &mut Sink,
    rep: &mut Report,
) -> Result<(), String> {
    deliver_checked_with(node, br, abs, interval, from, m, sink, rep, true)
}

/// the same without consuming the requests the client has queued (a `BlockFilters` delivery of
/// `deliver_checked` drops them: the histories of the pinned seeds depend on that)
fn deliver_checked_nodrain(
    node: &mut Node,
    br: &Branch,
    abs: &mut Abs,
    interval: u64,
    from: PeerIndex,
    m: Bytes,
    sink: &mut Sink,
    rep: &mut Report,
) -> Result<(), String> {
    deliver_checked_with(node, br, abs, interval, from, m, sink, rep, false)
}

#[allow(clippy::too_many_arguments)]
fn deliver_checked_with(
    node: &mut Node,
    br: &Branch,
    abs: &mut Abs,
    interval: u64,
    from: PeerIndex,
    m: Bytes,
    sink: &mut Sink,
    rep: &mut Report,
    drain: bool,
) -> Result<(), String> {
    let hashes_msg = packed::BlockFilterMessageReader::from_compatible_slice(&m).ok().and_then(|r| match r.to_enum() {
        packed::BlockFilterMessageUnionReader::BlockFilterHashes(b) => Some(b.to_entity()),
        _ => None,
    });
    if let Some(bh) = hashes_msg {
        if takes_cached_branch(node, from, bh.start_number().unpack()) {
            return deliver_hashes_checked(node, abs, interval, from, bh, m, sink);
        }
        rep.count_class("hashes:other-branch");
        return catch(|| node.deliver(from, SupportProtocols::Filter.protocol_id(), m));
    }
    let parsed = packed::BlockFilterMessageReader::from_compatible_slice(&m).ok().and_then(|r| match r.to_enum() {
        packed::BlockFilterMessageUnionReader::BlockFilters(b) => Some(b.to_entity()),
        _ => None,
    });
    let Some(bf) = parsed else {
        return catch(|| node.deliver(from, SupportProtocols::Filter.protocol_id(), m));
    };
    let claim_start: u64 = bf.start_number().unpack();
    let filters: Vec<packed::Bytes> = bf.filters().into_iter().collect();
    let hashes: Vec<Byte32> = bf.block_hashes().into_iter().collect();
    let ops = model_ops(node, br, abs, interval, from, claim_start, &filters, &hashes);
    let st_before = state(node);
    if drain {
        let _ = node.collect();
    }
    let bans_before = node.i().nc_filter.rec.lock().unwrap().banned.len();
    catch(|| node.deliver(from, SupportProtocols::Filter.protocol_id(), m))?;
    // bans are recorded by the context; requests the client sent in reaction stay queued for
    // the caller: `collect` would consume them, so peek at the (new) bans only
    let new_bans: Vec<(u64, String)> = {
        let rec = node.i().nc_filter.rec.lock().unwrap();
        rec.banned[bans_before.min(rec.banned.len())..].iter().map(|(p, _, r)| (p.value() as u64, r.clone())).collect()
    };
    let st_after = state(node);
    let ban = new_bans.iter().find(|b| b.0 == from.value() as u64).map(|b| {
        b.1.split('(').nth(1).and_then(|t| t.split(')').next()).unwrap_or("?").to_string()
    });
    let res = if let Some(code) = ban {
        format!("banned {}", code)
    } else if st_after.min_f != st_before.min_f
        || st_after.records.iter().any(|r| !st_before.records.iter().any(|b| b.0 == r.0 && b.2 == r.2))
    {
        let matched: Vec<String> = st_after
            .records
            .iter()
            .find(|r| r.0 == claim_start && !st_before.records.iter().any(|b| b.0 == r.0 && b.2 == r.2))
            .map(|r| r.2.iter().map(|h| abs.id(h.as_slice()).to_string()).collect())
            .unwrap_or_default();
        format!("accepted {} [{}]", st_after.min_f + 1 - claim_start.min(st_after.min_f + 1), matched.join(", "))
    } else {
        "ignored".to_string()
    };
    let (ci, c) = node.i().peers.get_cached_block_filter_hashes();
    let n = ops.len();
    for (i, l) in ops.into_iter().enumerate() {
        sink.lines.push(l);
        sink.impls.push(if i + 1 == n { format!("{} minF {} cache {} {}", res, st_after.min_f, ci, c.len()) } else { String::new() });
        sink.pre.push(String::new());
        sink.owner.push(sink.cur);
    }
    rep.count_class(&format!("model:{}", res.split(' ').next().unwrap_or("")));
    Ok(())
}

/// the interval of the `st` op in front of op `i`
fn owner_interval(lines: &[String], i: usize) -> u64 {
    lines[..i].iter().rev().find(|l| l.starts_with("st ")).and_then(|l| l.split(' ').nth(1)).and_then(|t| t.parse().ok()).unwrap_or(0)
}

struct State {
    min_f: u64,
    records: Vec<(u64, u64, Vec<Byte32>)>,
}

fn state(node: &Node) -> State {
    use rocksdb::{prelude::*, Direction, IteratorMode};
    let st = &node.i().storage;
    let mut prefix = vec![crate::storage::KeyPrefix::Meta as u8];
    prefix.extend_from_slice(b"MATCHED_BLOCKS");
    let mut records = Vec::new();
    for (k, v) in st.db.iterator(IteratorMode::From(&prefix, Direction::Forward)).take_while(|(k, _)| k.starts_with(&prefix)) {
        let start = u64::from_be_bytes(k[prefix.len()..].try_into().unwrap());
        let count = u64::from_le_bytes(v[0..8].try_into().unwrap());
        let n = (v.len() - 8) / 33;
        let hashes = (0..n).map(|i| Byte32::from_slice(&v[8 + i * 33..8 + i * 33 + 32]).unwrap()).collect();
        records.push((start, count, hashes));
    }
    State { min_f: st.get_min_filtered_block_number(), records }
}

/// the honest batch for `start`, at most `max` filters
fn honest_filters(br: &Branch, start: u64, max: u64) -> Option<(Vec<packed::Bytes>, Vec<Byte32>)> {
    let tip = br.chain.tip_number();
    if start > tip || start == 0 {
        return None;
    }
    let end = tip.min(start + max - 1);
    Some((
        (start..=end).map(|n| br.chain.filters[n as usize].clone()).collect(),
        (start..=end).map(|n| br.chain.block(n).hash()).collect(),
    ))
}

fn build(start: u64, filters: &[packed::Bytes], hashes: &[Byte32]) -> Bytes {
    fmsg(
        packed::BlockFilters::new_builder()
            .start_number(start.pack())
            .block_hashes(hashes.to_vec().pack())
            .filters(filters.to_vec().pack())
            .build(),
    )
}

pub fn run(opts: &Options) -> Report {
    let mut rep = Report::default();
    rep.rule = "full-stack histories: a dummy-PoW chain of 40..110 blocks with activity of 3 scripts \
        (registered from 0), check point interval 8 / 16 / 2000, max outbound 3 (quorum 2): two honest \
        peers and one proven peer that lies on the filter protocol; honest bounded sync rounds, then \
        one attack built against the client's current state (tampered filter, block hash substituted \
        by another chain block / a random hash, filters of other heights under the expected start \
        number, wrong start number, count mismatch, truncated batch, fake partial filter-hash chain \
        inside a finalized interval followed by matching fake filters, batch from an unproven peer, \
        honest unsolicited batch, a full interval of made-up cached hashes with a made-up / the right \
        last entry, made-up latest hashes held by the liar alone (one honest peer holds the real ones, \
        the third peer none for those blocks: no hash has the quorum) followed by matching made-up \
        filters, repeated), more honest rounds, convergence with the honest peers; every BlockFilters \
        delivery and every BlockFilterHashes delivery that takes the cached branch (honest rounds, \
        attack, convergence, and after the oracles of each history 3..12 deliveries on made-up cache \
        states: gaps, overlaps, excess, wrong parent / hash / check point) is compared with the Lean \
        Filter layer (ban code, request for more hashes, resulting cache); oracles: \
        the accepted prefix of a message that moved the filtered height or recorded matched blocks is \
        the chain's own (filters and block hashes), and the final index equals the ground truth; \
        non-trivial = the attack message got past the start-number check; distinct = (seed)"
        .into();
    let mut rng = Rng::new(opts.seed ^ fnv("C06"));
    let mut seeds: Vec<(u64, usize)> = Vec::new();
    if let Some(p) = &opts.replay {
        seeds = parse_seeds(&std::fs::read_to_string(p).expect("replay"));
    } else {
        if let Ok(rd) = std::fs::read_dir("/verif/corpus/C06") {
            for e in rd.flatten() {
                seeds.extend(parse_seeds(&std::fs::read_to_string(e.path()).unwrap_or_default()));
            }
        }
        let n = if opts.thorough() { 2500 } else { 120 };
        for _ in 0..n {
            let (s, l) = (rng.next(), rng.range(2, 14) as usize);
            seeds.push((s, l + appended_attack_code(s)));
        }
    }
    let debug = std::env::var("VERIF_DEBUG_SYNC").is_ok();
    let mut sink = Sink { lines: Vec::new(), impls: Vec::new(), pre: Vec::new(), owner: Vec::new(), cur: (0, 0) };
    for (seed, len) in seeds.iter() {
        let mut abs = Abs::default();
        sink.cur = (*seed, *len);
        let mut r = Rng::new(*seed);
        super::seed_client_randomness(*seed);
        let interval = *r.pick(&[8u64, 8, 16, 2000]);
        let mut br = Branch::new();
        let n_blocks = r.range(40, 110);
        br.extend(&mut r, n_blocks, 1);
        let attack = r.pick(&ATTACKS[..N_BASE_ATTACKS]).clone();
        let attack = if *len >= 1000 { ATTACKS[(N_BASE_ATTACKS + *len / 1000 - 1).min(ATTACKS.len() - 1)].clone() } else { attack };
        // MinorityLatestHashes: peers 2 and 3 answer requests for the latest filter hashes (after
        // the finalized check point) only up to block `cap`; peer 1 answers them all
        let minority_cap: Option<u64> = if attack == Attack::MinorityLatestHashes {
            let mut r2 = Rng::new(*seed ^ fnv("C06-minority-cap"));
            Some(r2.range(0, br.chain.tip_number().saturating_sub(2)))
        } else {
            None
        };
        // what the chain looks like a few blocks later (the client has not heard of these blocks)
        let mut br2 = br.fork_of(br.chain.tip_number(), 5);
        br2.extend(&mut r, 8, 5);
        let rounds_before = *len % 1000;
        let replay = |extra: String| {
            vec![
                format!("history-seed {} len {}", seed, len),
                format!("# chain tip {} interval {} attack {:?} after {} rounds", br.chain.tip_number(), interval, attack, rounds_before),
                extra,
            ]
        };
        rep.evaluations += 1;
        rep.count_op(&format!("{:?}", attack));
        let mut sopts = ServerOpts::default();
        sopts.check_point_interval = interval;
        let mut node = Node::new(&br.chain.consensus, LAST_N, interval, 3);
        let mut now = br.chain.tip().timestamp() + 5000;
        set_now(now);
        let (p1, p2, p3) = (PeerIndex::new(1), PeerIndex::new(2), PeerIndex::new(3));
        for p in [p1, p2, p3] {
            node.connect(p);
        }
        {
            let statuses: Vec<ScriptStatus> = (1..=N_SCRIPTS)
                .map(|id| ScriptStatus { script: script_of(id).into(), script_type: ScriptType::Lock, block_number: 0.into() })
                .collect();
            node.filter_rpc().set_scripts(statuses, Some(SetScriptsCommand::All)).expect("set_scripts");
        }
        let chain = &br.chain;
        // ---- honest bounded rounds
        let mut aborted = None;
        let mut made_up_blocks: Vec<ckb_types::core::BlockView> = Vec::new();
        for _ in 0..rounds_before {
            now += 3000;
            set_now(now);
            node.im().filter.last_ask_time.write().unwrap().take();
            if let Err(e) = catch(|| node.tick_all()) {
                aborted = Some(e);
                break;
            }
            'pump: for _ in 0..3 {
                let sent = node.collect();
                if sent.is_empty() {
                    break;
                }
                for (protocol, p, data) in sent {
                    if let Ok(replies) = server::handle(chain, &sopts, protocol, &data) {
                        for (rp, bytes) in replies {
                            let bytes = match minority_cap {
                                Some(cap) if p != p1 && rp == SupportProtocols::Filter.protocol_id() => match cap_latest_hashes(&node, bytes, cap) {
                                    Some(b) => b,
                                    None => continue,
                                },
                                _ => bytes,
                            };
                            let r = if rp == SupportProtocols::Filter.protocol_id() {
                                deliver_checked(&mut node, &br, &mut abs, interval, p, bytes, &mut sink, &mut rep)
                            } else {
                                catch(|| node.deliver(p, rp, bytes))
                            };
                            if let Err(e) = r {
                                aborted = Some(e);
                                break 'pump;
                            }
                        }
                    }
                }
            }
            if aborted.is_some() {
                break;
            }
        }
        // the partial-cache attack needs the moment right after the filtered height entered a
        // finalized interval whose filter hashes are not cached yet: go on message by message
        if aborted.is_none() && matches!(attack, Attack::PartialCache | Attack::ForgedFullCache | Attack::ForgedCacheRightEnd) {
            let window = |node: &Node| {
                let (fin_idx, _) = node.i().storage.get_last_check_point();
                let (cached_idx, cached) = node.i().peers.get_cached_block_filter_hashes();
                let start = node.i().storage.get_min_filtered_block_number() + 1;
                cached.is_empty() && cached_idx < fin_idx && start > cached_idx as u64 * interval && start <= fin_idx as u64 * interval
            };
            let mut guard = 0;
            'hunt: while !window(&node) && guard < 400 {
                guard += 1;
                now += 3000;
                set_now(now);
                node.im().filter.last_ask_time.write().unwrap().take();
                if let Err(e) = catch(|| node.tick_all()) {
                    aborted = Some(e);
                    break;
                }
                for _ in 0..50 {
                    let sent = node.collect();
                    if sent.is_empty() {
                        break;
                    }
                    for (protocol, p, data) in sent {
                        if let Ok(replies) = server::handle(chain, &sopts, protocol, &data) {
                            for (rp, bytes) in replies {
                                if let Err(e) = catch(|| node.deliver(p, rp, bytes)) {
                                    aborted = Some(e);
                                    break 'hunt;
                                }
                                if window(&node) {
                                    break 'hunt;
                                }
                            }
                        }
                    }
                }
                if node.i().storage.get_min_filtered_block_number() >= chain.tip_number() {
                    break;
                }
            }
        }
        // the latest-hashes attack needs the filtered height at or after the finalized check point
        // and the honest peer's latest hashes: go on, round by round (peers 2 and 3 stay capped)
        if let (None, Some(cap)) = (&aborted, minority_cap) {
            let ready = |node: &Node| {
                let (fin_idx, _) = node.i().storage.get_last_check_point();
                let fin_number = fin_idx as u64 * interval;
                let min_f = node.i().storage.get_min_filtered_block_number();
                min_f >= fin_number && min_f >= cap.min(chain.tip_number())
            };
            let mut settled = 0;
            'more: for _ in 0..120 {
                if ready(&node) {
                    settled += 1;
                    if settled > 3 {
                        break;
                    }
                }
                now += 3000;
                set_now(now);
                node.im().filter.last_ask_time.write().unwrap().take();
                if let Err(e) = catch(|| node.tick_all()) {
                    aborted = Some(e);
                    break;
                }
                for _ in 0..20 {
                    let sent = node.collect();
                    if sent.is_empty() {
                        break;
                    }
                    for (protocol, p, data) in sent {
                        if let Ok(replies) = server::handle(chain, &sopts, protocol, &data) {
                            for (rp, bytes) in replies {
                                let is_filter = rp == SupportProtocols::Filter.protocol_id();
                                let bytes = if p != p1 && is_filter {
                                    match cap_latest_hashes(&node, bytes, cap) {
                                        Some(b) => b,
                                        None => continue,
                                    }
                                } else {
                                    bytes
                                };
                                let r = if is_filter {
                                    deliver_checked_nodrain(&mut node, &br, &mut abs, interval, p, bytes, &mut sink, &mut rep)
                                } else {
                                    catch(|| node.deliver(p, rp, bytes))
                                };
                                if let Err(e) = r {
                                    aborted = Some(e);
                                    break 'more;
                                }
                            }
                        }
                    }
                }
            }
        }
        // ---- the attack
        if aborted.is_none() {
            let before = state(&node);
            let start = before.min_f + 1;
            let (fin_idx, _) = node.i().storage.get_last_check_point();
            let fin_number = fin_idx as u64 * interval;
            let (cached_idx, cached) = node.i().peers.get_cached_block_filter_hashes();
            // the liar is a peer with a proved state (any of them can lie)
            let p3 = [p3, p2, p1]
                .into_iter()
                .find(|p| node.i().peers.get_state(p).map(|s| s.get_prove_state().is_some()).unwrap_or(false))
                .unwrap_or(p3);
            let mut msgs: Vec<(PeerIndex, Bytes)> = Vec::new();
            let mut repeats: Vec<(PeerIndex, Bytes)> = Vec::new();
            let mut claim_start = start;
            let mut pushed: Option<ckb_types::core::BlockView> = None;
            let mut sent_filters: Vec<packed::Bytes> = Vec::new();
            let mut _sent_hashes: Vec<Byte32> = Vec::new();
            let mut note = String::new();
            let base = honest_filters(&br, start, r.range(1, 30)).or_else(|| {
                // everything is filtered already: the tail attack needs no honest prefix
                if matches!(attack, Attack::UnverifiedTail | Attack::MinorityLatestHashes) { Some((Vec::new(), Vec::new())) } else { None }
            });
            if let Some((mut filters, mut hashes)) = base {
                let j = r.below(filters.len() as u64) as usize;
                let other = r.range(1, chain.tip_number());
                let mut from = p3;
                match attack {
                    Attack::TamperFilter => {
                        let mut alt = chain.filters[other as usize].clone();
                        if alt.as_slice() == filters[j].as_slice() {
                            let mut raw = filters[j].raw_data().to_vec();
                            raw.push(0);
                            alt = raw.pack();
                        }
                        filters[j] = alt;
                        note = format!("filter {} replaced", start + j as u64);
                    }
                    Attack::SubstituteHashOnChain => {
                        // prefer a position whose filter matches (a block with activity)
                        let touching: Vec<usize> = (0..filters.len()).filter(|i| br.facts.iter().any(|f| f.1 == start + *i as u64)).collect();
                        let j = if touching.is_empty() { j } else { *r.pick(&touching) };
                        let mut o = other;
                        if o == start + j as u64 {
                            o = if o > 1 { o - 1 } else { o + 1 };
                        }
                        hashes[j] = chain.block(o).hash();
                        note = format!("hash of block {} replaced by block {}", start + j as u64, o);
                    }
                    Attack::SubstituteHashRandom => {
                        let touching: Vec<usize> = (0..filters.len()).filter(|i| br.facts.iter().any(|f| f.1 == start + *i as u64)).collect();
                        let j = if touching.is_empty() { j } else { *r.pick(&touching) };
                        let mut h = [0u8; 32];
                        h[..8].copy_from_slice(&r.next().to_le_bytes());
                        hashes[j] = h.pack();
                        note = format!("hash of block {} replaced by a random hash", start + j as u64);
                        // in half of the histories (decided from the seed, not drawn) the hash
                        // is the hash of a made-up, self-consistent block with a payment to a
                        // registered script, which the liar pushes right behind the filters
                        // without being asked and without ever proving it
                        if fnv(&format!("{}:{}:fabricated", seed, len)) % 2 == 0 && start + j as u64 <= chain.tip_number() {
                            let mut r2 = Rng::new(*seed ^ 0xfab);
                            let (fb, _, _) = super::c02::forged_block(&mut r2, &chain.block(start + j as u64));
                            hashes[j] = fb.hash();
                            note = format!("hash of block {} replaced by the hash of a made-up block, which is then pushed unasked", start + j as u64);
                            pushed = Some(fb);
                        }
                    }
                    Attack::ShiftedContent => {
                        let s2 = if start + 2 <= chain.tip_number() { start + r.range(1, 2) } else { start.saturating_sub(1).max(1) };
                        if let Some((f2, h2)) = honest_filters(&br, s2, filters.len() as u64) {
                            filters = f2;
                            hashes = h2;
                        }
                        note = format!("content of blocks from {} under start number {}", s2, start);
                    }
                    Attack::WrongStart => {
                        claim_start = *r.pick(&[start + 1, start.saturating_sub(1), start + interval, 0, u64::MAX]);
                        note = format!("start number {} instead of {}", claim_start, start);
                    }
                    Attack::CountMismatch => {
                        if r.chance(1, 2) {
                            hashes.pop();
                        } else {
                            filters.pop();
                        }
                        note = "filters / block hashes count mismatch".into();
                    }
                    Attack::Truncated => {
                        let keep = r.below(filters.len() as u64) as usize;
                        filters.truncate(keep);
                        hashes.truncate(keep);
                        note = format!("{} filters", keep);
                    }
                    Attack::FromUnproven => {
                        from = PeerIndex::new(9);
                        node.connect(from);
                        // a harmful batch: every filter replaced by a filter without activity
                        let quiet = (1..=chain.tip_number()).find(|n| !br.facts.iter().any(|f| f.1 == *n)).unwrap_or(1);
                        for f in filters.iter_mut() {
                            *f = chain.filters[quiet as usize].clone();
                        }
                        note = "quiet filters from a peer without a proved state".into();
                    }
                    Attack::HonestUnsolicited => {
                        note = "honest batch nobody asked for".into();
                    }
                    Attack::UnverifiedTail => {
                        // the honest batch up to the tip the client knows, followed by quiet filters
                        // for blocks whose filter hashes the client cannot know yet
                        match honest_filters(&br, start, 4000) {
                            Some((f0, h0)) => {
                                filters = f0;
                                hashes = h0;
                            }
                            None => {
                                filters.clear();
                                hashes.clear();
                            }
                        }
                        let quiet = (1..=chain.tip_number()).find(|n| !br.facts.iter().any(|f| f.1 == *n)).unwrap_or(1);
                        let first_new = chain.tip_number() + 1;
                        for n in first_new..=br2.chain.tip_number() {
                            filters.push(chain.filters[quiet as usize].clone());
                            hashes.push(br2.chain.block(n).hash());
                        }
                        note = format!("honest filters {}..={} followed by quiet filters for the unannounced blocks {}..={}", start, chain.tip_number(), first_new, br2.chain.tip_number());
                    }
                    Attack::ForgedFullCache | Attack::ForgedCacheRightEnd => {
                        let cached_number = cached_idx as u64 * interval;
                        if start <= fin_number && cached.is_empty() && start > cached_number && start <= cached_number + interval {
                            let quiet = (1..=chain.tip_number()).find(|n| !br.facts.iter().any(|f| f.1 == *n)).unwrap_or(1);
                            let qf = chain.filters[quiet as usize].clone();
                            let cps = node.i().storage.get_check_points(cached_idx, 2);
                            let cp = cps[0].clone();
                            let mut fake = Vec::new();
                            let mut parent = cp.clone();
                            for _ in 0..interval {
                                let h: Byte32 = calc_filter_hash(&parent, &qf).pack();
                                fake.push(h.clone());
                                parent = h;
                            }
                            let mut k = (cached_number + interval + 1 - start) as usize;
                            if attack == Attack::ForgedCacheRightEnd && cps.len() == 2 {
                                // the last hash is the check point itself: the last filter cannot be
                                // made to fit, everything before it can
                                *fake.last_mut().unwrap() = cps[1].clone();
                                k -= 1;
                            }
                            let hm = fmsg(
                                packed::BlockFilterHashes::new_builder()
                                    .start_number((cached_number + 1).pack())
                                    .parent_block_filter_hash(cp)
                                    .block_filter_hashes(fake.clone().pack())
                                    .build(),
                            );
                            msgs.push((p3, hm));
                            filters = vec![qf; k];
                            hashes = (0..k as u64).map(|i| chain.block((start + i).min(chain.tip_number())).hash()).collect();
                            note = format!("made-up filter hashes for the whole interval {}..={} then {} quiet filters from {}", cached_number + 1, cached_number + interval, k, start);
                        } else {
                            note = "not applicable here".into();
                            filters.clear();
                            hashes.clear();
                        }
                    }
                    Attack::MinorityLatestHashes => {
                        // A = the last block two peers can agree on: peers 2 and 3 hold honest
                        // latest hashes up to `cap` at most, the filtered height is not beyond it
                        let cap = minority_cap.unwrap_or(0);
                        let a = before.min_f.max(fin_number).max(cap);
                        let liar_tip = node
                            .i()
                            .peers
                            .get_state(&p3)
                            .and_then(|s| s.get_prove_state().map(|ps| ps.get_last_header().header().number()))
                            .unwrap_or(0)
                            .min(chain.tip_number());
                        let (_, fin_cp) = node.i().storage.get_last_check_point();
                        let required = node.i().peers.required_peers_count();
                        // a filter that is not the filter of the first forged block: a quiet one (the
                        // block's activity is skipped) or, for a quiet block, any other one
                        let differs = |n: &u64| a + 1 <= chain.tip_number() && chain.filters[*n as usize].as_slice() != chain.filters[(a + 1) as usize].as_slice();
                        let qf = (1..=chain.tip_number())
                            .filter(|n| !br.facts.iter().any(|f| f.1 == *n))
                            .find(differs)
                            .or_else(|| (1..=chain.tip_number()).find(differs))
                            .map(|n| chain.filters[n as usize].clone());
                        filters.clear();
                        hashes.clear();
                        match qf {
                            Some(qf) if required == 2 && p3 != p1 && start > fin_number && a + 1 <= liar_tip && fin_cp == chain.filter_hashes[fin_number as usize] => {
                                // the liar's latest hashes: honest up to A, then a chain over the
                                // quiet filter
                                let mut lie: Vec<Byte32> = (fin_number + 1..=a).map(|n| chain.filter_hashes[n as usize].clone()).collect();
                                let mut parent = chain.filter_hashes[a as usize].clone();
                                for _ in a + 1..=liar_tip {
                                    let h: Byte32 = calc_filter_hash(&parent, &qf).pack();
                                    lie.push(h.clone());
                                    parent = h;
                                }
                                let hm = fmsg(
                                    packed::BlockFilterHashes::new_builder()
                                        .start_number((fin_number + 1).pack())
                                        .parent_block_filter_hash(fin_cp)
                                        .block_filter_hashes(lie.pack())
                                        .build(),
                                );
                                msgs.push((p3, hm));
                                rep.count_class("minority:applicable");
                                // honest filters up to A, quiet filters for the rest
                                for n in start..=liar_tip {
                                    filters.push(if n <= a { chain.filters[n as usize].clone() } else { qf.clone() });
                                    hashes.push(chain.block(n).hash());
                                }
                                // which of two hashes with one vote each a changed quorum test would
                                // take is decided by a HashMap order: the liar repeats the made-up
                                // tail (the first message may have moved the filtered height to A)
                                let k = (a + 1 - start) as usize;
                                for _ in 0..9 {
                                    repeats.push((p3, build(a + 1, &filters[k..], &hashes[k..])));
                                }
                                note = format!(
                                    "peers 2,3 capped at {}: liar {} sends latest hashes {}..={} honest up to {} then made up, then {} honest filters from {} followed by made-up filters for {}..={} (x10)",
                                    cap, p3, fin_number + 1, liar_tip, a, k, start, a + 1, liar_tip
                                );
                            }
                            _ => {
                                rep.count_class("minority:not-applicable");
                                note = format!(
                                    "not applicable here (required {} liar {} start {} finalized {} A {} liar tip {} quiet filter {} check point is the chain's {})",
                                    required,
                                    p3,
                                    start,
                                    fin_number,
                                    a,
                                    liar_tip,
                                    qf.is_some(),
                                    fin_cp == chain.filter_hashes[fin_number as usize]
                                );
                            }
                        }
                    }
                    Attack::PartialCache => {
                        // only inside a finalized interval whose hashes are not cached yet
                        let cached_number = cached_idx as u64 * interval;
                        if start <= fin_number && cached.is_empty() && start > cached_number && start <= cached_number + interval {
                            let quiet = (1..=chain.tip_number()).find(|n| !br.facts.iter().any(|f| f.1 == *n)).unwrap_or(1);
                            let qf = chain.filters[quiet as usize].clone();
                            let cp = node.i().storage.get_check_points(cached_idx, 1)[0].clone();
                            // a fake chain of hashes over quiet filters, shorter than the interval
                            let l = (start - cached_number) + r.range(1, interval.saturating_sub(start - cached_number).max(1)).min(interval - 1 - (start - cached_number - 1).min(interval - 1)).max(1);
                            let l = l.min(interval - 1).max(start - cached_number);
                            let mut fake = Vec::new();
                            let mut parent = cp.clone();
                            for _ in 0..l {
                                let h: Byte32 = calc_filter_hash(&parent, &qf).pack();
                                fake.push(h.clone());
                                parent = h;
                            }
                            let hm = fmsg(
                                packed::BlockFilterHashes::new_builder()
                                    .start_number((cached_number + 1).pack())
                                    .parent_block_filter_hash(cp)
                                    .block_filter_hashes(fake.clone().pack())
                                    .build(),
                            );
                            msgs.push((p3, hm));
                            let k = (cached_number + l + 1 - start) as usize;
                            filters = vec![qf; k];
                            hashes = (0..k as u64).map(|i| chain.block((start + i).min(chain.tip_number())).hash()).collect();
                            note = format!("fake filter hashes for {}..={} then {} quiet filters from {}", cached_number + 1, cached_number + l, k, start);
                        } else {
                            note = "not applicable here".into();
                            filters.clear();
                            hashes.clear();
                        }
                    }
                }
                if !(filters.is_empty() && hashes.is_empty() && matches!(attack, Attack::PartialCache | Attack::ForgedFullCache | Attack::ForgedCacheRightEnd | Attack::MinorityLatestHashes)) {
                    msgs.push((from, build(claim_start, &filters, &hashes)));
                    sent_filters = filters;
                    _sent_hashes = hashes;
                }
                msgs.extend(repeats);
            }
            for (from, m) in msgs.into_iter() {
                if let Err(e) = deliver_checked(&mut node, &br, &mut abs, interval, from, m, &mut sink, &mut rep) {
                    aborted = Some(e);
                    break;
                }
                if debug {
                    eprintln!(
                        "   delivered from {}: proved {} cached {:?} minF {}",
                        from,
                        node.i().peers.get_state(&from).map(|s| s.get_prove_state().is_some()).unwrap_or(false),
                        node.i().peers.get_cached_block_filter_hashes().1.len(),
                        node.i().storage.get_min_filtered_block_number()
                    );
                }
            }
            if let Some(fb) = pushed.take() {
                rep.count_class("attack:made-up-block-pushed");
                made_up_blocks.push(fb.clone());
                let m = super::c02::sync_msg(packed::SendBlock::new_builder().block(fb.data()).build());
                if let Err(e) = catch(|| node.deliver(p3, SupportProtocols::Sync.protocol_id(), m)) {
                    aborted = Some(e);
                }
                let (facts, _) = index_dump(&node);
                let truth: BTreeSet<Fact> = br2.facts.iter().cloned().collect();
                if let Some(f) = facts.iter().find(|f| !truth.contains(*f)) {
                    rep.violate(
                        &format!("C06|index-not-in-ground-truth|{:?}", attack),
                        "a block that no proof binds to the proved chain is indexed: the index holds an entry that is not on the chain",
                        replay(format!("# {}: script {} block {} tx {} cell {} output {}", note, f.0, f.1, short(&f.2), f.3, f.4)),
                    );
                }
            }
            let after = state(&node);
            if debug {
                let _ = node.collect();
                eprintln!("   after attack: bans {:?} cached {:?}", node.bans, node.i().peers.get_cached_block_filter_hashes().1.len());
                eprintln!("seed {} attack {:?} ({}) minF {} -> {} fin {} cached ({}, {})", seed, attack, note, before.min_f, after.min_f, fin_number, cached_idx, cached.len());
            }
            // ---- authenticity of whatever was accepted
            if after.min_f != before.min_f || after.records.len() != before.records.len() {
                rep.nontrivial.insert(fnv(&format!("{}:{}", seed, len)));
                rep.count_class("attack:accepted-something");
                let accepted = (after.min_f.saturating_sub(before.min_f)) as usize;
                for i in 0..accepted.min(sent_filters.len()) {
                    let n = claim_start + i as u64;
                    if n > br2.chain.tip_number() || sent_filters[i].as_slice() != br2.chain.filters[n as usize].as_slice() {
                        rep.violate(
                            &format!("C06|unauthentic-filter-accepted|{:?}", attack),
                            "the filtered height moved over a filter that is not the chain's filter of that block",
                            replay(format!("# {}: block {} (filtered height {} -> {})", note, n, before.min_f, after.min_f)),
                        );
                        break;
                    }
                }
                for rec in after.records.iter().filter(|r| !before.records.iter().any(|b| b.0 == r.0 && b.2 == r.2)) {
                    for h in &rec.2 {
                        let ok = br2.chain.number_of_hash(h).map(|n| n >= rec.0 && n < rec.0 + rec.1 && br2.facts.iter().any(|f| f.1 == n)).unwrap_or(false);
                        if !ok {
                            rep.violate(
                                &format!("C06|wrong-block-recorded|{:?}", attack),
                                "a block is recorded for download that is not the chain's block at the height of a matching filter",
                                replay(format!("# {}: record ({}, {}) lists {} = block {:?}", note, rec.0, rec.1, short(h), br2.chain.number_of_hash(h))),
                            );
                        }
                    }
                }
            } else {
                rep.count_class("attack:no-effect");
            }
        }
        if let Some(msg) = &aborted {
            rep.violate(
                &format!("C06|abort|{}", super::c14::panic_class(msg)),
                "the client aborts",
                replay(format!("# panic: {}", msg)),
            );
            continue;
        }
        // ---- honest convergence (peer 3 is honest from now on - except that it keeps pushing its
        // made-up blocks, unasked and unproved, between the rounds -, the chain keeps growing)
        let mut grown = br2.chain.fork(br2.chain.tip_number(), 99);
        let mut conv_abort = None;
        for _ in 0..8 {
            for fb in &made_up_blocks {
                if node.i().peers.get_state(&p3).is_some() {
                    let m = super::c02::sync_msg(packed::SendBlock::new_builder().block(fb.data()).build());
                    if let Err(e) = catch(|| node.deliver(p3, SupportProtocols::Sync.protocol_id(), m)) {
                        conv_abort = Some(e);
                    }
                }
            }
            grown.append_simple(1);
            let chain_of = |_p: PeerIndex| Some(&grown);
            for p in [p1, p2, p3] {
                if node.i().peers.get_state(&p).is_none() {
                    node.connect(p);
                }
            }
            // `Node::run_to_quiescence` with the filter-hash deliveries of the cached branch given
            // to the model as well (the same rounds, requests and deliveries)
            let mut idle = 0;
            'conv: for _ in 0..400 {
                now += 3000;
                set_now(now);
                node.im().filter.last_ask_time.write().unwrap().take();
                if let Err(e) = catch(|| node.tick_all()) {
                    conv_abort = Some(e);
                    break 'conv;
                }
                let mut served = 0;
                for _ in 0..200 {
                    let sent = match catch(|| node.collect()) {
                        Ok(s) => s,
                        Err(e) => {
                            conv_abort = Some(e);
                            break 'conv;
                        }
                    };
                    if sent.is_empty() {
                        break;
                    }
                    for (protocol, peer, data) in sent {
                        let Some(c) = chain_of(peer) else { continue };
                        served += 1;
                        let answer = match catch(|| server::handle(c, &sopts, protocol, &data)) {
                            Ok(a) => a,
                            Err(e) => {
                                conv_abort = Some(e);
                                break 'conv;
                            }
                        };
                        match answer {
                            Ok(replies) => {
                                for (rp, bytes) in replies {
                                    let is_hashes = rp == SupportProtocols::Filter.protocol_id()
                                        && packed::BlockFilterMessageReader::from_compatible_slice(&bytes)
                                            .map(|r| matches!(r.to_enum(), packed::BlockFilterMessageUnionReader::BlockFilterHashes(_)))
                                            .unwrap_or(false);
                                    let r = if is_hashes {
                                        deliver_checked_nodrain(&mut node, &br2, &mut abs, interval, peer, bytes, &mut sink, &mut rep)
                                    } else {
                                        catch(|| node.deliver(peer, rp, bytes))
                                    };
                                    if let Err(e) = r {
                                        conv_abort = Some(e);
                                        break 'conv;
                                    }
                                }
                            }
                            Err(e) => node.server_errors.push(format!("{}: {}", super::node::request_name(protocol, &data), e)),
                        }
                    }
                }
                if served == 0 {
                    idle += 1;
                    if idle >= 3 {
                        break;
                    }
                } else {
                    idle = 0;
                }
            }
            if conv_abort.is_some() {
                break;
            }
            let quiet = node.i().peers.matched_blocks().read().unwrap().is_empty()
                && node.i().storage.get_earliest_matched_blocks().is_none()
                && node.i().storage.get_min_filtered_block_number() >= br2.chain.tip_number();
            if quiet {
                break;
            }
            now += 120_000;
            set_now(now);
        }
        if let Some(msg) = conv_abort {
            rep.violate(
                &format!("C06|abort|{}", super::c14::panic_class(&msg)),
                "the client aborts",
                replay(format!("# panic during convergence: {}", msg)),
            );
            continue;
        }
        let min_f = node.i().storage.get_min_filtered_block_number();
        let (facts, _cells) = index_dump(&node);
        let truth: BTreeSet<Fact> = br2.facts.iter().cloned().collect();
        if !made_up_blocks.is_empty() {
            if let Some(f) = facts.iter().find(|f| !truth.contains(*f)) {
                rep.violate(
                    "C06|index-not-in-ground-truth|made-up-block-pushed",
                    "a block that no proof binds to the proved chain is indexed: the index holds an entry that is not on the chain",
                    replay(format!("# script {} block {} tx {} cell {} output {}", f.0, f.1, short(&f.2), f.3, f.4)),
                );
            }
        }
        let missing: Vec<String> = truth.difference(&facts).take(4).map(|f| format!("script {} block {} tx {} cell {} output {}", f.0, f.1, short(&f.2), f.3, f.4)).collect();
        if min_f < br2.chain.tip_number() || node.i().storage.get_earliest_matched_blocks().is_some() {
            rep.violate(
                &format!("C06|stuck|{:?}", attack),
                "after the attack the filter sync with honest peers never completes",
                replay(format!("# min filtered {} tip {} earliest record {:?}", min_f, br2.chain.tip_number(), node.i().storage.get_earliest_matched_blocks().map(|r| (r.0, r.1, r.2.len())))),
            );
        } else if !missing.is_empty() {
            rep.violate(
                &format!("C06|activity-skipped|{:?}", attack),
                "after the attack and the convergence with honest peers activity of a registered script is missing from the index",
                replay(format!("# missing: {:?}", missing)),
            );
        } else {
            rep.count_class("converged:complete");
        }
        if debug {
            eprintln!("   bans {:?}", node.bans);
        }
        // ---- after all oracles: the cache update alone, on made-up states of this client
        if opts.replay.is_none() || std::env::var("C06_PROBES").is_ok() {
            if let Err(e) = probe_cached_hashes(&mut node, &mut abs, interval, *seed, &mut sink, &mut rep) {
                rep.violate(
                    &format!("C06|abort|hashes-probe|{}", super::c14::panic_class(&e)),
                    "the client aborts on a BlockFilterHashes message (made-up state of the cache)",
                    replay(format!("# panic in the cache probes (C06_PROBES=1 to run them in a replay): {}", e)),
                );
            }
        }
    }
    ckb_systemtime::faketime().disable_faketime();
    let (all_lines, all_impls, all_pre, owner) = (sink.lines, sink.impls, sink.pre, sink.owner);
    let answers = run_model(opts, "filter", &all_lines);
    let mut bad = BTreeSet::new();
    for (i, a) in answers.iter().enumerate() {
        if all_impls[i].is_empty() {
            continue;
        }
        if all_lines[i].starts_with("hashes ") {
            // the model: `<ignored | banned c | updated ask n | updated ask none | other> cache …`;
            // "ignored" and "written again, same content, nothing more to ask" look the same from
            // outside
            let (outcome, cache) = match a.find(" cache ") {
                Some(k) => (a[..k].to_string(), a[k + 1..].to_string()),
                None => (a.clone(), String::new()),
            };
            let seen = if outcome == "ignored" || (outcome == "updated ask none" && cache == all_pre[i]) { "quiet".to_string() } else { outcome.clone() };
            if format!("{} {}", seen, cache) == all_impls[i] {
                rep.traces_validated += 1;
                let class = if outcome.starts_with("updated") {
                    if cache == all_pre[i] { "updated-same" } else if cache.split(' ').nth(2).and_then(|l| l.parse::<u64>().ok()) == Some(owner_interval(&all_lines, i)) { "updated-complete" } else { "updated-partial" }
                } else if outcome.starts_with("banned") {
                    "banned"
                } else {
                    "ignored"
                };
                rep.count_class(&format!("hashes:cached:{}", class));
            } else if bad.insert(owner[i]) {
                let cut = |t: &str| if t.len() > 700 { format!("{} … ({} bytes)", &t[..700], t.len()) } else { t.to_string() };
                rep.disagree(
                    &format!("{}  ||  {}  [history-seed {} len {}]", cut(&all_lines[i - 1]), cut(&all_lines[i]), owner[i].0, owner[i].1),
                    &cut(&all_impls[i]),
                    &cut(a),
                );
            }
            continue;
        }
        // the model's "accepted 0 []" (nothing to check against) is not observable
        let a = if a.starts_with("accepted 0 []") { a.replacen("accepted 0 []", "ignored", 1) } else { a.clone() };
        if a == all_impls[i] {
            rep.traces_validated += 1;
        } else if bad.insert(owner[i]) {
            rep.disagree(&format!("{}  [history-seed {} len {}]", all_lines[i], owner[i].0, owner[i].1), &all_impls[i], &a);
        }
    }
    rep
}

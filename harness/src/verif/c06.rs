//! C06 — block filters are acted on only if authentic and attributed to the right block.
//! A full client with two honest peers and one proven peer that lies on the filter protocol
//! (tampered filters, substituted block hashes, shifted start numbers, wrong counts, fake
//! partial filter-hash chains inside a finalized check point interval), at every position
//! relative to the finalized / cached check points.  Oracles: a message that moves the filtered
//! height or records matched blocks must carry the chain's own filters and block hashes in the
//! accepted prefix; after convergence with the honest peers the index must equal the ground
//! truth.  Every `BlockFilters` delivery is compared with the `Filter` Lean layer.

use std::collections::BTreeSet;

use ckb_network::{bytes::Bytes, PeerIndex, SupportProtocols};
use ckb_types::{packed, packed::Byte32, prelude::*, utilities::calc_filter_hash};

use super::c04::{index_dump, parse_seeds, short, Branch, Fact};
use super::node::{set_now, Node};
use super::server::{self, ServerOpts};
use super::sync::{script_of, N_SCRIPTS};
use super::{catch, fnv, run_model, Options, Report, Rng};
use crate::service::{BlockFilterRpc, ScriptStatus, ScriptType, SetScriptsCommand};

const LAST_N: u64 = 5;

fn fmsg<T: Into<packed::BlockFilterMessageUnion>>(content: T) -> Bytes {
    packed::BlockFilterMessage::new_builder().set(content).build().as_bytes()
}

#[derive(Clone, Debug, PartialEq)]
enum Attack {
    TamperFilter,
    SubstituteHashOnChain,
    SubstituteHashRandom,
    ShiftedContent,
    WrongStart,
    CountMismatch,
    Truncated,
    PartialCache,
    FromUnproven,
    HonestUnsolicited,
    UnverifiedTail,
    /// a full interval of made-up filter hashes from one proved peer, ending exactly at the next
    /// check point (the last one made up too)
    ForgedFullCache,
    /// the same with the right hash in the last position (the next check point itself)
    ForgedCacheRightEnd,
}

const ATTACKS: [Attack; 13] = [
    Attack::TamperFilter,
    Attack::SubstituteHashOnChain,
    Attack::SubstituteHashRandom,
    Attack::ShiftedContent,
    Attack::WrongStart,
    Attack::CountMismatch,
    Attack::Truncated,
    Attack::PartialCache,
    Attack::FromUnproven,
    Attack::HonestUnsolicited,
    Attack::UnverifiedTail,
    Attack::ForgedFullCache,
    Attack::ForgedCacheRightEnd,
];

/// ids for byte strings (hashes, filters)
#[derive(Default)]
struct Abs {
    ids: std::collections::HashMap<Vec<u8>, u64>,
}
impl Abs {
    fn id(&mut self, b: &[u8]) -> u64 {
        let n = self.ids.len() as u64 + 1;
        *self.ids.entry(b.to_vec()).or_insert(n)
    }
}

/// the `Filter` model ops for one `BlockFilters` message from `from`, against the client's state
/// right now
fn model_ops(
    node: &Node,
    br: &Branch,
    abs: &mut Abs,
    interval: u64,
    from: PeerIndex,
    start: u64,
    filters: &[packed::Bytes],
    hashes: &[Byte32],
) -> Vec<String> {
    let st = &node.i().storage;
    let peers = &node.i().peers;
    let (fin_idx, _) = st.get_last_check_point();
    let cps: Vec<Byte32> = st.get_check_points(0, fin_idx as usize + 2);
    let (cached_idx, cached) = peers.get_cached_block_filter_hashes();
    let latest = peers.get_latest_block_filter_hashes(fin_idx);
    let proved = peers.get_state(&from).map(|s| s.get_prove_state().is_some()).unwrap_or(false);
    let ids = |abs: &mut Abs, v: &[Byte32]| v.iter().map(|h| abs.id(h.as_slice()).to_string()).collect::<Vec<_>>().join(" ");
    let mut out = vec![format!(
        "st {} {} {} {} {} | {} | {} | {}",
        interval,
        st.get_min_filtered_block_number(),
        st.is_filter_scripts_empty() as u8,
        fin_idx,
        cached_idx,
        ids(abs, &cps),
        ids(abs, &cached),
        ids(abs, &latest)
    )];
    // the hash table: the message's filters chained from every hash the client knows
    let mut parents: Vec<Byte32> = cps.clone();
    parents.extend(cached.iter().cloned());
    parents.extend(latest.iter().cloned());
    let mut seen = BTreeSet::new();
    for p in parents {
        let mut parent = p;
        for f in filters.iter() {
            let h: Byte32 = calc_filter_hash(&parent, f).pack();
            let line = format!("h {} {} {}", abs.id(parent.as_slice()), abs.id(f.as_slice()), abs.id(h.as_slice()));
            if seen.insert(line.clone()) {
                out.push(line);
            }
            parent = h;
        }
    }
    // the GCS verdict: the filter is the chain's filter of a block with activity
    let active: BTreeSet<Vec<u8>> = (1..=br.chain.tip_number())
        .filter(|n| br.facts.iter().any(|f| f.1 == *n))
        .map(|n| br.chain.filters[n as usize].as_slice().to_vec())
        .collect();
    out.push(format!(
        "msg {} {} | {} | {} | {}",
        proved as u8,
        start,
        filters.iter().map(|f| abs.id(f.as_slice()).to_string()).collect::<Vec<_>>().join(" "),
        ids(abs, hashes),
        filters.iter().map(|f| (active.contains(f.as_slice()) as u8).to_string()).collect::<Vec<_>>().join(" ")
    ));
    out
}

/// model ops and the implementation's observed answers
struct Sink {
    lines: Vec<String>,
    impls: Vec<String>,
    owner: Vec<(u64, usize)>,
    cur: (u64, usize),
}

/// deliver a filter-protocol message; a `BlockFilters` message is also given to the model
fn deliver_checked(
    node: &mut Node,
    br: &Branch,
    abs: &mut Abs,
    interval: u64,
    from: PeerIndex,
    m: Bytes,
    sink: &mut Sink,
    rep: &mut Report,
) -> Result<(), String> {
    let parsed = packed::BlockFilterMessageReader::from_compatible_slice(&m).ok().and_then(|r| match r.to_enum() {
        packed::BlockFilterMessageUnionReader::BlockFilters(b) => Some(b.to_entity()),
        _ => None,
    });
    let Some(bf) = parsed else {
        return catch(|| node.deliver(from, SupportProtocols::Filter.protocol_id(), m));
    };
    let claim_start: u64 = bf.start_number().unpack();
    let filters: Vec<packed::Bytes> = bf.filters().into_iter().collect();
    let hashes: Vec<Byte32> = bf.block_hashes().into_iter().collect();
    let ops = model_ops(node, br, abs, interval, from, claim_start, &filters, &hashes);
    let st_before = state(node);
    let _ = node.collect();
    let bans_before = node.bans.len();
    catch(|| node.deliver(from, SupportProtocols::Filter.protocol_id(), m))?;
    // bans are recorded by the context; requests the client sent in reaction stay queued for
    // the caller: `collect` would consume them, so peek at the bans only
    let new_bans: Vec<(u64, String)> = {
        let rec = node.i().nc_filter.rec.lock().unwrap();
        rec.banned.iter().map(|(p, _, r)| (p.value() as u64, r.clone())).collect()
    };
    let _ = bans_before;
    let st_after = state(node);
    let ban = new_bans.iter().find(|b| b.0 == from.value() as u64).map(|b| {
        b.1.split('(').nth(1).and_then(|t| t.split(')').next()).unwrap_or("?").to_string()
    });
    let res = if let Some(code) = ban {
        format!("banned {}", code)
    } else if st_after.min_f != st_before.min_f
        || st_after.records.iter().any(|r| !st_before.records.iter().any(|b| b.0 == r.0 && b.2 == r.2))
    {
        let matched: Vec<String> = st_after
            .records
            .iter()
            .find(|r| r.0 == claim_start && !st_before.records.iter().any(|b| b.0 == r.0 && b.2 == r.2))
            .map(|r| r.2.iter().map(|h| abs.id(h.as_slice()).to_string()).collect())
            .unwrap_or_default();
        format!("accepted {} [{}]", st_after.min_f + 1 - claim_start.min(st_after.min_f + 1), matched.join(", "))
    } else {
        "ignored".to_string()
    };
    let (ci, c) = node.i().peers.get_cached_block_filter_hashes();
    let n = ops.len();
    for (i, l) in ops.into_iter().enumerate() {
        sink.lines.push(l);
        sink.impls.push(if i + 1 == n { format!("{} minF {} cache {} {}", res, st_after.min_f, ci, c.len()) } else { String::new() });
        sink.owner.push(sink.cur);
    }
    rep.count_class(&format!("model:{}", res.split(' ').next().unwrap_or("")));
    Ok(())
}

struct State {
    min_f: u64,
    records: Vec<(u64, u64, Vec<Byte32>)>,
}

fn state(node: &Node) -> State {
    use rocksdb::{prelude::*, Direction, IteratorMode};
    let st = &node.i().storage;
    let mut prefix = vec![crate::storage::KeyPrefix::Meta as u8];
    prefix.extend_from_slice(b"MATCHED_BLOCKS");
    let mut records = Vec::new();
    for (k, v) in st.db.iterator(IteratorMode::From(&prefix, Direction::Forward)).take_while(|(k, _)| k.starts_with(&prefix)) {
        let start = u64::from_be_bytes(k[prefix.len()..].try_into().unwrap());
        let count = u64::from_le_bytes(v[0..8].try_into().unwrap());
        let n = (v.len() - 8) / 33;
        let hashes = (0..n).map(|i| Byte32::from_slice(&v[8 + i * 33..8 + i * 33 + 32]).unwrap()).collect();
        records.push((start, count, hashes));
    }
    State { min_f: st.get_min_filtered_block_number(), records }
}

/// the honest batch for `start`, at most `max` filters
fn honest_filters(br: &Branch, start: u64, max: u64) -> Option<(Vec<packed::Bytes>, Vec<Byte32>)> {
    let tip = br.chain.tip_number();
    if start > tip || start == 0 {
        return None;
    }
    let end = tip.min(start + max - 1);
    Some((
        (start..=end).map(|n| br.chain.filters[n as usize].clone()).collect(),
        (start..=end).map(|n| br.chain.block(n).hash()).collect(),
    ))
}

fn build(start: u64, filters: &[packed::Bytes], hashes: &[Byte32]) -> Bytes {
    fmsg(
        packed::BlockFilters::new_builder()
            .start_number(start.pack())
            .block_hashes(hashes.to_vec().pack())
            .filters(filters.to_vec().pack())
            .build(),
    )
}

pub fn run(opts: &Options) -> Report {
    let mut rep = Report::default();
    rep.rule = "full-stack histories: a dummy-PoW chain of 40..110 blocks with activity of 3 scripts \
        (registered from 0), check point interval 8 / 16 / 2000, max outbound 3 (quorum 2): two honest \
        peers and one proven peer that lies on the filter protocol; honest bounded sync rounds, then \
        one attack built against the client's current state (tampered filter, block hash substituted \
        by another chain block / a random hash, filters of other heights under the expected start \
        number, wrong start number, count mismatch, truncated batch, fake partial filter-hash chain \
        inside a finalized interval followed by matching fake filters, batch from an unproven peer, \
        honest unsolicited batch), more honest rounds, convergence with the honest peers; oracles: \
        the accepted prefix of a message that moved the filtered height or recorded matched blocks is \
        the chain's own (filters and block hashes), and the final index equals the ground truth; \
        non-trivial = the attack message got past the start-number check; distinct = (seed)"
        .into();
    let mut rng = Rng::new(opts.seed ^ fnv("C06"));
    let mut seeds: Vec<(u64, usize)> = Vec::new();
    if let Some(p) = &opts.replay {
        seeds = parse_seeds(&std::fs::read_to_string(p).expect("replay"));
    } else {
        if let Ok(rd) = std::fs::read_dir("/verif/corpus/C06") {
            for e in rd.flatten() {
                seeds.extend(parse_seeds(&std::fs::read_to_string(e.path()).unwrap_or_default()));
            }
        }
        let n = if opts.thorough() { 2500 } else { 120 };
        for _ in 0..n {
            seeds.push((rng.next(), rng.range(2, 14) as usize));
        }
    }
    let debug = std::env::var("VERIF_DEBUG_SYNC").is_ok();
    let mut sink = Sink { lines: Vec::new(), impls: Vec::new(), owner: Vec::new(), cur: (0, 0) };
    for (seed, len) in seeds.iter() {
        let mut abs = Abs::default();
        sink.cur = (*seed, *len);
        let mut r = Rng::new(*seed);
        super::seed_client_randomness(*seed);
        let interval = *r.pick(&[8u64, 8, 16, 2000]);
        let mut br = Branch::new();
        let n_blocks = r.range(40, 110);
        br.extend(&mut r, n_blocks, 1);
        let attack = r.pick(&ATTACKS).clone();
        // what the chain looks like a few blocks later (the client has not heard of these blocks)
        let mut br2 = br.fork_of(br.chain.tip_number(), 5);
        br2.extend(&mut r, 8, 5);
        let rounds_before = *len;
        let replay = |extra: String| {
            vec![
                format!("history-seed {} len {}", seed, len),
                format!("# chain tip {} interval {} attack {:?} after {} rounds", br.chain.tip_number(), interval, attack, rounds_before),
                extra,
            ]
        };
        rep.evaluations += 1;
        rep.count_op(&format!("{:?}", attack));
        let mut sopts = ServerOpts::default();
        sopts.check_point_interval = interval;
        let mut node = Node::new(&br.chain.consensus, LAST_N, interval, 3);
        let mut now = br.chain.tip().timestamp() + 5000;
        set_now(now);
        let (p1, p2, p3) = (PeerIndex::new(1), PeerIndex::new(2), PeerIndex::new(3));
        for p in [p1, p2, p3] {
            node.connect(p);
        }
        {
            let statuses: Vec<ScriptStatus> = (1..=N_SCRIPTS)
                .map(|id| ScriptStatus { script: script_of(id).into(), script_type: ScriptType::Lock, block_number: 0.into() })
                .collect();
            node.filter_rpc().set_scripts(statuses, Some(SetScriptsCommand::All)).expect("set_scripts");
        }
        let chain = &br.chain;
        // ---- honest bounded rounds
        let mut aborted = None;
        for _ in 0..rounds_before {
            now += 3000;
            set_now(now);
            node.im().filter.last_ask_time.write().unwrap().take();
            if let Err(e) = catch(|| node.tick_all()) {
                aborted = Some(e);
                break;
            }
            'pump: for _ in 0..3 {
                let sent = node.collect();
                if sent.is_empty() {
                    break;
                }
                for (protocol, p, data) in sent {
                    if let Ok(replies) = server::handle(chain, &sopts, protocol, &data) {
                        for (rp, bytes) in replies {
                            let r = if rp == SupportProtocols::Filter.protocol_id() {
                                deliver_checked(&mut node, &br, &mut abs, interval, p, bytes, &mut sink, &mut rep)
                            } else {
                                catch(|| node.deliver(p, rp, bytes))
                            };
                            if let Err(e) = r {
                                aborted = Some(e);
                                break 'pump;
                            }
                        }
                    }
                }
            }
            if aborted.is_some() {
                break;
            }
        }
        // the partial-cache attack needs the moment right after the filtered height entered a
        // finalized interval whose filter hashes are not cached yet: go on message by message
        if aborted.is_none() && matches!(attack, Attack::PartialCache | Attack::ForgedFullCache | Attack::ForgedCacheRightEnd) {
            let window = |node: &Node| {
                let (fin_idx, _) = node.i().storage.get_last_check_point();
                let (cached_idx, cached) = node.i().peers.get_cached_block_filter_hashes();
                let start = node.i().storage.get_min_filtered_block_number() + 1;
                cached.is_empty() && cached_idx < fin_idx && start > cached_idx as u64 * interval && start <= fin_idx as u64 * interval
            };
            let mut guard = 0;
            'hunt: while !window(&node) && guard < 400 {
                guard += 1;
                now += 3000;
                set_now(now);
                node.im().filter.last_ask_time.write().unwrap().take();
                if let Err(e) = catch(|| node.tick_all()) {
                    aborted = Some(e);
                    break;
                }
                for _ in 0..50 {
                    let sent = node.collect();
                    if sent.is_empty() {
                        break;
                    }
                    for (protocol, p, data) in sent {
                        if let Ok(replies) = server::handle(chain, &sopts, protocol, &data) {
                            for (rp, bytes) in replies {
                                if let Err(e) = catch(|| node.deliver(p, rp, bytes)) {
                                    aborted = Some(e);
                                    break 'hunt;
                                }
                                if window(&node) {
                                    break 'hunt;
                                }
                            }
                        }
                    }
                }
                if node.i().storage.get_min_filtered_block_number() >= chain.tip_number() {
                    break;
                }
            }
        }
        // ---- the attack
        if aborted.is_none() {
            let before = state(&node);
            let start = before.min_f + 1;
            let (fin_idx, _) = node.i().storage.get_last_check_point();
            let fin_number = fin_idx as u64 * interval;
            let (cached_idx, cached) = node.i().peers.get_cached_block_filter_hashes();
            // the liar is a peer with a proved state (any of them can lie)
            let p3 = [p3, p2, p1]
                .into_iter()
                .find(|p| node.i().peers.get_state(p).map(|s| s.get_prove_state().is_some()).unwrap_or(false))
                .unwrap_or(p3);
            let mut msgs: Vec<(PeerIndex, Bytes)> = Vec::new();
            let mut claim_start = start;
            let mut sent_filters: Vec<packed::Bytes> = Vec::new();
            let mut _sent_hashes: Vec<Byte32> = Vec::new();
            let mut note = String::new();
            let base = honest_filters(&br, start, r.range(1, 30)).or_else(|| {
                // everything is filtered already: the tail attack needs no honest prefix
                if attack == Attack::UnverifiedTail { Some((Vec::new(), Vec::new())) } else { None }
            });
            if let Some((mut filters, mut hashes)) = base {
                let j = r.below(filters.len() as u64) as usize;
                let other = r.range(1, chain.tip_number());
                let mut from = p3;
                match attack {
                    Attack::TamperFilter => {
                        let mut alt = chain.filters[other as usize].clone();
                        if alt.as_slice() == filters[j].as_slice() {
                            let mut raw = filters[j].raw_data().to_vec();
                            raw.push(0);
                            alt = raw.pack();
                        }
                        filters[j] = alt;
                        note = format!("filter {} replaced", start + j as u64);
                    }
                    Attack::SubstituteHashOnChain => {
                        // prefer a position whose filter matches (a block with activity)
                        let touching: Vec<usize> = (0..filters.len()).filter(|i| br.facts.iter().any(|f| f.1 == start + *i as u64)).collect();
                        let j = if touching.is_empty() { j } else { *r.pick(&touching) };
                        let mut o = other;
                        if o == start + j as u64 {
                            o = if o > 1 { o - 1 } else { o + 1 };
                        }
                        hashes[j] = chain.block(o).hash();
                        note = format!("hash of block {} replaced by block {}", start + j as u64, o);
                    }
                    Attack::SubstituteHashRandom => {
                        let touching: Vec<usize> = (0..filters.len()).filter(|i| br.facts.iter().any(|f| f.1 == start + *i as u64)).collect();
                        let j = if touching.is_empty() { j } else { *r.pick(&touching) };
                        let mut h = [0u8; 32];
                        h[..8].copy_from_slice(&r.next().to_le_bytes());
                        hashes[j] = h.pack();
                        note = format!("hash of block {} replaced by a random hash", start + j as u64);
                    }
                    Attack::ShiftedContent => {
                        let s2 = if start + 2 <= chain.tip_number() { start + r.range(1, 2) } else { start.saturating_sub(1).max(1) };
                        if let Some((f2, h2)) = honest_filters(&br, s2, filters.len() as u64) {
                            filters = f2;
                            hashes = h2;
                        }
                        note = format!("content of blocks from {} under start number {}", s2, start);
                    }
                    Attack::WrongStart => {
                        claim_start = *r.pick(&[start + 1, start.saturating_sub(1), start + interval, 0, u64::MAX]);
                        note = format!("start number {} instead of {}", claim_start, start);
                    }
                    Attack::CountMismatch => {
                        if r.chance(1, 2) {
                            hashes.pop();
                        } else {
                            filters.pop();
                        }
                        note = "filters / block hashes count mismatch".into();
                    }
                    Attack::Truncated => {
                        let keep = r.below(filters.len() as u64) as usize;
                        filters.truncate(keep);
                        hashes.truncate(keep);
                        note = format!("{} filters", keep);
                    }
                    Attack::FromUnproven => {
                        from = PeerIndex::new(9);
                        node.connect(from);
                        // a harmful batch: every filter replaced by a filter without activity
                        let quiet = (1..=chain.tip_number()).find(|n| !br.facts.iter().any(|f| f.1 == *n)).unwrap_or(1);
                        for f in filters.iter_mut() {
                            *f = chain.filters[quiet as usize].clone();
                        }
                        note = "quiet filters from a peer without a proved state".into();
                    }
                    Attack::HonestUnsolicited => {
                        note = "honest batch nobody asked for".into();
                    }
                    Attack::UnverifiedTail => {
                        // the honest batch up to the tip the client knows, followed by quiet filters
                        // for blocks whose filter hashes the client cannot know yet
                        match honest_filters(&br, start, 4000) {
                            Some((f0, h0)) => {
                                filters = f0;
                                hashes = h0;
                            }
                            None => {
                                filters.clear();
                                hashes.clear();
                            }
                        }
                        let quiet = (1..=chain.tip_number()).find(|n| !br.facts.iter().any(|f| f.1 == *n)).unwrap_or(1);
                        let first_new = chain.tip_number() + 1;
                        for n in first_new..=br2.chain.tip_number() {
                            filters.push(chain.filters[quiet as usize].clone());
                            hashes.push(br2.chain.block(n).hash());
                        }
                        note = format!("honest filters {}..={} followed by quiet filters for the unannounced blocks {}..={}", start, chain.tip_number(), first_new, br2.chain.tip_number());
                    }
                    Attack::ForgedFullCache | Attack::ForgedCacheRightEnd => {
                        let cached_number = cached_idx as u64 * interval;
                        if start <= fin_number && cached.is_empty() && start > cached_number && start <= cached_number + interval {
                            let quiet = (1..=chain.tip_number()).find(|n| !br.facts.iter().any(|f| f.1 == *n)).unwrap_or(1);
                            let qf = chain.filters[quiet as usize].clone();
                            let cps = node.i().storage.get_check_points(cached_idx, 2);
                            let cp = cps[0].clone();
                            let mut fake = Vec::new();
                            let mut parent = cp.clone();
                            for _ in 0..interval {
                                let h: Byte32 = calc_filter_hash(&parent, &qf).pack();
                                fake.push(h.clone());
                                parent = h;
                            }
                            let mut k = (cached_number + interval + 1 - start) as usize;
                            if attack == Attack::ForgedCacheRightEnd && cps.len() == 2 {
                                // the last hash is the check point itself: the last filter cannot be
                                // made to fit, everything before it can
                                *fake.last_mut().unwrap() = cps[1].clone();
                                k -= 1;
                            }
                            let hm = fmsg(
                                packed::BlockFilterHashes::new_builder()
                                    .start_number((cached_number + 1).pack())
                                    .parent_block_filter_hash(cp)
                                    .block_filter_hashes(fake.clone().pack())
                                    .build(),
                            );
                            msgs.push((p3, hm));
                            filters = vec![qf; k];
                            hashes = (0..k as u64).map(|i| chain.block((start + i).min(chain.tip_number())).hash()).collect();
                            note = format!("made-up filter hashes for the whole interval {}..={} then {} quiet filters from {}", cached_number + 1, cached_number + interval, k, start);
                        } else {
                            note = "not applicable here".into();
                            filters.clear();
                            hashes.clear();
                        }
                    }
                    Attack::PartialCache => {
                        // only inside a finalized interval whose hashes are not cached yet
                        let cached_number = cached_idx as u64 * interval;
                        if start <= fin_number && cached.is_empty() && start > cached_number && start <= cached_number + interval {
                            let quiet = (1..=chain.tip_number()).find(|n| !br.facts.iter().any(|f| f.1 == *n)).unwrap_or(1);
                            let qf = chain.filters[quiet as usize].clone();
                            let cp = node.i().storage.get_check_points(cached_idx, 1)[0].clone();
                            // a fake chain of hashes over quiet filters, shorter than the interval
                            let l = (start - cached_number) + r.range(1, interval.saturating_sub(start - cached_number).max(1)).min(interval - 1 - (start - cached_number - 1).min(interval - 1)).max(1);
                            let l = l.min(interval - 1).max(start - cached_number);
                            let mut fake = Vec::new();
                            let mut parent = cp.clone();
                            for _ in 0..l {
                                let h: Byte32 = calc_filter_hash(&parent, &qf).pack();
                                fake.push(h.clone());
                                parent = h;
                            }
                            let hm = fmsg(
                                packed::BlockFilterHashes::new_builder()
                                    .start_number((cached_number + 1).pack())
                                    .parent_block_filter_hash(cp)
                                    .block_filter_hashes(fake.clone().pack())
                                    .build(),
                            );
                            msgs.push((p3, hm));
                            let k = (cached_number + l + 1 - start) as usize;
                            filters = vec![qf; k];
                            hashes = (0..k as u64).map(|i| chain.block((start + i).min(chain.tip_number())).hash()).collect();
                            note = format!("fake filter hashes for {}..={} then {} quiet filters from {}", cached_number + 1, cached_number + l, k, start);
                        } else {
                            note = "not applicable here".into();
                            filters.clear();
                            hashes.clear();
                        }
                    }
                }
                if !(filters.is_empty() && hashes.is_empty() && matches!(attack, Attack::PartialCache | Attack::ForgedFullCache | Attack::ForgedCacheRightEnd)) {
                    msgs.push((from, build(claim_start, &filters, &hashes)));
                    sent_filters = filters;
                    _sent_hashes = hashes;
                }
            }
            for (from, m) in msgs.into_iter() {
                if let Err(e) = deliver_checked(&mut node, &br, &mut abs, interval, from, m, &mut sink, &mut rep) {
                    aborted = Some(e);
                    break;
                }
                if debug {
                    eprintln!(
                        "   delivered from {}: proved {} cached {:?} minF {}",
                        from,
                        node.i().peers.get_state(&from).map(|s| s.get_prove_state().is_some()).unwrap_or(false),
                        node.i().peers.get_cached_block_filter_hashes().1.len(),
                        node.i().storage.get_min_filtered_block_number()
                    );
                }
            }
            let after = state(&node);
            if debug {
                let _ = node.collect();
                eprintln!("   after attack: bans {:?} cached {:?}", node.bans, node.i().peers.get_cached_block_filter_hashes().1.len());
                eprintln!("seed {} attack {:?} ({}) minF {} -> {} fin {} cached ({}, {})", seed, attack, note, before.min_f, after.min_f, fin_number, cached_idx, cached.len());
            }
            // ---- authenticity of whatever was accepted
            if after.min_f != before.min_f || after.records.len() != before.records.len() {
                rep.nontrivial.insert(fnv(&format!("{}:{}", seed, len)));
                rep.count_class("attack:accepted-something");
                let accepted = (after.min_f.saturating_sub(before.min_f)) as usize;
                for i in 0..accepted.min(sent_filters.len()) {
                    let n = claim_start + i as u64;
                    if n > br2.chain.tip_number() || sent_filters[i].as_slice() != br2.chain.filters[n as usize].as_slice() {
                        rep.violate(
                            &format!("C06|unauthentic-filter-accepted|{:?}", attack),
                            "the filtered height moved over a filter that is not the chain's filter of that block",
                            replay(format!("# {}: block {} (filtered height {} -> {})", note, n, before.min_f, after.min_f)),
                        );
                        break;
                    }
                }
                for rec in after.records.iter().filter(|r| !before.records.iter().any(|b| b.0 == r.0 && b.2 == r.2)) {
                    for h in &rec.2 {
                        let ok = br2.chain.number_of_hash(h).map(|n| n >= rec.0 && n < rec.0 + rec.1 && br2.facts.iter().any(|f| f.1 == n)).unwrap_or(false);
                        if !ok {
                            rep.violate(
                                &format!("C06|wrong-block-recorded|{:?}", attack),
                                "a block is recorded for download that is not the chain's block at the height of a matching filter",
                                replay(format!("# {}: record ({}, {}) lists {} = block {:?}", note, rec.0, rec.1, short(h), br2.chain.number_of_hash(h))),
                            );
                        }
                    }
                }
            } else {
                rep.count_class("attack:no-effect");
            }
        }
        if let Some(msg) = &aborted {
            rep.violate(
                &format!("C06|abort|{}", super::c14::panic_class(msg)),
                "the client aborts",
                replay(format!("# panic: {}", msg)),
            );
            continue;
        }
        // ---- honest convergence (peer 3 is honest from now on, the chain keeps growing)
        let mut grown = br2.chain.fork(br2.chain.tip_number(), 99);
        let mut conv_abort = None;
        for _ in 0..8 {
            grown.append_simple(1);
            let chain_of = |_p: PeerIndex| Some(&grown);
            for p in [p1, p2, p3] {
                if node.i().peers.get_state(&p).is_none() {
                    node.connect(p);
                }
            }
            if let Err(e) = catch(|| node.run_to_quiescence(&chain_of, &sopts, &mut now, 3000, 400)) {
                conv_abort = Some(e);
                break;
            }
            let quiet = node.i().peers.matched_blocks().read().unwrap().is_empty()
                && node.i().storage.get_earliest_matched_blocks().is_none()
                && node.i().storage.get_min_filtered_block_number() >= br2.chain.tip_number();
            if quiet {
                break;
            }
            now += 120_000;
            set_now(now);
        }
        if let Some(msg) = conv_abort {
            rep.violate(
                &format!("C06|abort|{}", super::c14::panic_class(&msg)),
                "the client aborts",
                replay(format!("# panic during convergence: {}", msg)),
            );
            continue;
        }
        let min_f = node.i().storage.get_min_filtered_block_number();
        let (facts, _cells) = index_dump(&node);
        let truth: BTreeSet<Fact> = br2.facts.iter().cloned().collect();
        let missing: Vec<String> = truth.difference(&facts).take(4).map(|f| format!("script {} block {} tx {} cell {} output {}", f.0, f.1, short(&f.2), f.3, f.4)).collect();
        if min_f < br2.chain.tip_number() || node.i().storage.get_earliest_matched_blocks().is_some() {
            rep.violate(
                &format!("C06|stuck|{:?}", attack),
                "after the attack the filter sync with honest peers never completes",
                replay(format!("# min filtered {} tip {} earliest record {:?}", min_f, br2.chain.tip_number(), node.i().storage.get_earliest_matched_blocks().map(|r| (r.0, r.1, r.2.len())))),
            );
        } else if !missing.is_empty() {
            rep.violate(
                &format!("C06|activity-skipped|{:?}", attack),
                "after the attack and the convergence with honest peers activity of a registered script is missing from the index",
                replay(format!("# missing: {:?}", missing)),
            );
        } else {
            rep.count_class("converged:complete");
        }
        if debug {
            eprintln!("   bans {:?}", node.bans);
        }
    }
    ckb_systemtime::faketime().disable_faketime();
    let (all_lines, all_impls, owner) = (sink.lines, sink.impls, sink.owner);
    let answers = run_model(opts, "filter", &all_lines);
    let mut bad = BTreeSet::new();
    for (i, a) in answers.iter().enumerate() {
        if all_impls[i].is_empty() {
            continue;
        }
        // the model's "accepted 0 []" (nothing to check against) is not observable
        let a = if a.starts_with("accepted 0 []") { a.replacen("accepted 0 []", "ignored", 1) } else { a.clone() };
        if a == all_impls[i] {
            rep.traces_validated += 1;
        } else if bad.insert(owner[i]) {
            rep.disagree(&format!("{}  [history-seed {} len {}]", all_lines[i], owner[i].0, owner[i].1), &all_impls[i], &a);
        }
    }
    rep
}

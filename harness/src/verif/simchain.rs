//! A chain generator which does not need ckb's chain service: headers, blocks, the chain root MMR
//! (RFC 44), total difficulties and block filters (RFC 45) of a synthetic chain on top of the
//! genesis block of a consensus.
//!
//! Nothing here validates a chain like a full node would do (no cell/capacity/dao checks): the
//! light client never looks at those.  What the light client does look at is produced exactly
//! like ckb produces it: `extension` = hash of the parent chain root, `extra_hash`,
//! `transactions_root`, header digests, the MMR, filter data and filter hashes.
//!
//! ## Epochs
//!
//! The genesis block keeps the epoch of the consensus' genesis header (raw value `0`, i.e.
//! `is_genesis()`).  The genesis block counts as index 0 of epoch 0, so block 1 is
//! `(0, 1, length)`.  Every other block's epoch must be the successor of its parent's:
//! `(number, index + 1, length)` while `index + 1 < length`, else `(number + 1, 0, new_length)`.
//! The MMR merge enforces this (`try_append` returns `Err` otherwise).  Compact targets are NOT
//! checked by `append`: an honest chain changes them only at an epoch boundary (and epoch 0 has
//! to use the genesis block's compact target), the generator lets the caller build anything.

use std::collections::HashMap;

use ckb_chain_spec::consensus::Consensus;
use ckb_merkle_mountain_range::{leaf_index_to_mmr_size, leaf_index_to_pos, util::MemStore};
use ckb_types::{
    core::{BlockView, EpochNumberWithFraction, HeaderView, ScriptHashType, TransactionView},
    packed::{self, Byte32, Script},
    prelude::*,
    utilities::{
        build_filter_data, calc_filter_hash, compact_to_difficulty,
        merkle_mountain_range::ChainRootMMR, FilterDataProvider,
    },
    U256,
};

use super::env::dummy_consensus;

/// milliseconds between two blocks of `append_simple` / `append_epochs`
pub const BLOCK_INTERVAL_MS: u64 = 8000;
/// capacity of the single cellbase output
pub const CELLBASE_CAPACITY: u64 = 1_000_0000_0000;
/// upper bound of nonces tried by `append` (Eaglesong) and `break_pow`
pub const NONCE_SEARCH_LIMIT: u128 = 1 << 22;

pub struct SimChain {
    pub consensus: Consensus,
    /// index = block number
    pub blocks: Vec<BlockView>,
    /// total difficulty up to and including block i (genesis = its own difficulty, like ckb)
    pub total_difficulties: Vec<U256>,
    /// filter data of block i
    pub filters: Vec<packed::Bytes>,
    /// `calc_filter_hash(parent filter hash (zero for genesis), filter data)`
    pub filter_hashes: Vec<Byte32>,
    // MMR nodes of the header digests
    store: MemStore<packed::HeaderDigest>,
    // tx hash -> (block number, index in block)
    tx_index: HashMap<Byte32, (u64, usize)>,
    // block hash -> block number
    numbers: HashMap<Byte32, u64>,
    // mixed into every cellbase appended by this instance
    salt: u64,
    /// numbers of blocks that `try_append` builds with a nonce that FAILS the PoW verification
    /// (real PoW only): what the chain of a cheating miner looks like
    pub break_pow_at: std::collections::BTreeSet<u64>,
}

/// Everything of a new block which is not determined by its parent.
#[derive(Clone)]
pub struct BlockPlan {
    pub epoch: EpochNumberWithFraction,
    pub compact_target: u32,
    pub timestamp: u64,
    /// non-cellbase transactions
    pub txs: Vec<TransactionView>,
    /// the nonce (dummy PoW) / the first nonce tried (real PoW)
    pub nonce: u128,
}

struct Provider<'a>(&'a SimChain);

impl<'a> FilterDataProvider for Provider<'a> {
    fn cell(&self, out_point: &packed::OutPoint) -> Option<packed::CellOutput> {
        let index: u32 = out_point.index().unpack();
        self.0
            .transaction(&out_point.tx_hash())
            .and_then(|tx| tx.outputs().get(index as usize))
    }
}

impl SimChain {
    /// genesis only
    pub fn new(consensus: Consensus) -> Self {
        let genesis = consensus.genesis_block().clone();
        let mut chain = SimChain {
            consensus,
            blocks: Vec::new(),
            total_difficulties: Vec::new(),
            filters: Vec::new(),
            filter_hashes: Vec::new(),
            store: MemStore::default(),
            tx_index: HashMap::new(),
            numbers: HashMap::new(),
            salt: 0,
            break_pow_at: Default::default(),
        };
        chain
            .push_block(genesis)
            .expect("the genesis block starts the chain");
        chain
    }

    /// genesis of the harness' dummy-PoW dev consensus
    pub fn new_dummy() -> Self {
        Self::new(dummy_consensus())
    }

    /// The genesis block of the dummy consensus with a valid Eaglesong nonce (see
    /// `eaglesong_consensus`): `append` searches a valid nonce (use easy compact targets: the
    /// genesis block's is difficulty 100).
    pub fn new_eaglesong() -> Self {
        Self::new(eaglesong_consensus())
    }

    pub fn tip_number(&self) -> u64 {
        self.blocks.len() as u64 - 1
    }

    pub fn tip(&self) -> &BlockView {
        self.blocks.last().expect("genesis")
    }

    pub fn block(&self, number: u64) -> &BlockView {
        &self.blocks[number as usize]
    }

    pub fn header(&self, number: u64) -> HeaderView {
        self.blocks[number as usize].header()
    }

    pub fn total_difficulty(&self, number: u64) -> &U256 {
        &self.total_difficulties[number as usize]
    }

    pub fn number_of_hash(&self, hash: &Byte32) -> Option<u64> {
        self.numbers.get(hash).cloned()
    }

    /// (block number, index in the block) of a transaction of this chain
    pub fn tx_location(&self, tx_hash: &Byte32) -> Option<(u64, usize)> {
        self.tx_index.get(tx_hash).cloned()
    }

    pub fn transaction(&self, tx_hash: &Byte32) -> Option<TransactionView> {
        self.tx_location(tx_hash)
            .and_then(|(number, index)| self.blocks[number as usize].transaction(index))
    }

    /// The epoch of the block after the tip: the continuation of the tip's epoch, or - if the
    /// tip is the last block of its epoch - index 0 of the next epoch with `new_epoch_length`
    /// (`None`: same length as the tip's epoch).  After genesis: `(0, 1, new_epoch_length)`
    /// (`None`: the genesis epoch length of the consensus; must be at least 2).
    pub fn next_epoch(&self, new_epoch_length: Option<u64>) -> EpochNumberWithFraction {
        let prev = self.tip().epoch();
        if self.tip_number() == 0 {
            let length =
                new_epoch_length.unwrap_or_else(|| self.consensus.genesis_epoch_ext().length());
            assert!(length >= 2, "epoch 0 contains genesis and block 1");
            EpochNumberWithFraction::new(0, 1, length)
        } else if prev.index() + 1 < prev.length() {
            EpochNumberWithFraction::new(prev.number(), prev.index() + 1, prev.length())
        } else {
            let length = new_epoch_length.unwrap_or_else(|| prev.length());
            assert!(length >= 1);
            EpochNumberWithFraction::new(prev.number() + 1, 0, length)
        }
    }

    /// Whether the block after the tip starts a new epoch (false right after genesis).
    pub fn next_starts_epoch(&self) -> bool {
        let prev = self.tip().epoch();
        self.tip_number() != 0 && prev.index() + 1 >= prev.length()
    }

    /// The cellbase of block `number` of this instance: unique per block and per fork (salt) in
    /// hash and witness hash.
    pub fn cellbase(&self, number: u64) -> TransactionView {
        let mut mark = self.salt.to_le_bytes().to_vec();
        mark.extend_from_slice(&number.to_le_bytes());
        let output = packed::CellOutput::new_builder()
            .capacity(CELLBASE_CAPACITY.pack())
            .lock(script(0xcb, &[]))
            .build();
        TransactionView::new_advanced_builder()
            .input(packed::CellInput::new_cellbase_input(number))
            .output(output)
            .output_data(mark.pack())
            .witness(mark.pack())
            .build()
    }

    /// Builds and appends the block described by `plan` on top of the tip: parent hash, number,
    /// transactions (cellbase first), extension = 32-byte hash of the parent chain root (so that
    /// `VerifiableHeader::is_valid` holds), no uncles, default dao.  With a non-dummy PoW the
    /// nonce is searched from `plan.nonce` upwards.
    ///
    /// Fails iff the MMR refuses the new leaf (epoch not the successor of the parent's) or no
    /// nonce is found.
    pub fn try_append(&mut self, plan: BlockPlan) -> Result<&BlockView, String> {
        let parent = self.tip().header();
        let number = parent.number() + 1;
        let extension: packed::Bytes = self
            .chain_root(number - 1)
            .calc_mmr_hash()
            .as_bytes()
            .pack();
        let block = BlockView::new_advanced_builder()
            .parent_hash(parent.hash())
            .number(number.pack())
            .epoch(plan.epoch.full_value().pack())
            .compact_target(plan.compact_target.pack())
            .timestamp(plan.timestamp.pack())
            .nonce(plan.nonce.pack())
            .transaction(self.cellbase(number))
            .transactions(plan.txs)
            .extension(Some(extension))
            .build();
        let block = if self.consensus.pow.is_dummy() {
            block
        } else {
            let engine = self.consensus.pow_engine();
            let mut found = None;
            for i in 0..NONCE_SEARCH_LIMIT {
                let nonce = plan.nonce.wrapping_add(i);
                let header = block
                    .header()
                    .as_advanced_builder()
                    .nonce(nonce.pack())
                    .build();
                if engine.verify(&header.data()) != self.break_pow_at.contains(&number) {
                    found = Some(header);
                    break;
                }
            }
            let header = found.ok_or_else(|| format!("no valid nonce for block {}", number))?;
            block.as_advanced_builder().header(header).build()
        };
        self.push_block(block)?;
        Ok(self.tip())
    }

    pub fn append(&mut self, plan: BlockPlan) -> &BlockView {
        match self.try_append(plan) {
            Ok(_) => self.tip(),
            Err(e) => panic!("SimChain::append: {}", e),
        }
    }

    /// `n` blocks continuing the tip's epoch rule (a new epoch keeps the length), same compact
    /// target as the parent, timestamp = parent + 8000 ms, no extra transactions.
    pub fn append_simple(&mut self, n: u64) {
        for _ in 0..n {
            let parent = self.tip().header();
            let plan = BlockPlan {
                epoch: self.next_epoch(None),
                compact_target: parent.compact_target(),
                timestamp: parent.timestamp() + BLOCK_INTERVAL_MS,
                txs: Vec::new(),
                nonce: self.default_nonce(parent.number() + 1),
            };
            self.append(plan);
        }
    }

    /// One block like `append_simple` but carrying `txs`.
    pub fn append_with_txs(&mut self, txs: Vec<TransactionView>) -> &BlockView {
        let parent = self.tip().header();
        let plan = BlockPlan {
            epoch: self.next_epoch(None),
            compact_target: parent.compact_target(),
            timestamp: parent.timestamp() + BLOCK_INTERVAL_MS,
            txs,
            nonce: self.default_nonce(parent.number() + 1),
        };
        self.append(plan)
    }

    /// Appends `blocks` blocks walking through an epoch plan: `plan[i] = (length, compact
    /// target)` of the epoch NUMBER `i` (the last entry is used for all later epochs).  Epoch 0
    /// contains the genesis block as index 0, so block 1 is `(0, 1, plan[0].0)` and `plan[0].1`
    /// should be the genesis block's compact target.  A block continuing its parent's epoch
    /// copies the parent's epoch length and compact target (whatever the plan says), a block
    /// starting epoch `e` takes both from `plan[min(e, plan.len() - 1)]`.  Timestamps: parent +
    /// 8000 ms.  `txs_at` may provide extra transactions for a block number.
    pub fn append_epochs_with(
        &mut self,
        plan: &[(u64, u32)],
        blocks: u64,
        mut txs_at: impl FnMut(&SimChain, u64) -> Vec<TransactionView>,
    ) {
        assert!(!plan.is_empty());
        let entry = |e: u64| plan[(e as usize).min(plan.len() - 1)];
        for _ in 0..blocks {
            let parent = self.tip().header();
            let number = parent.number() + 1;
            let (epoch, compact_target) = if number == 1 {
                (self.next_epoch(Some(entry(0).0)), entry(0).1)
            } else if self.next_starts_epoch() {
                let (length, compact_target) = entry(parent.epoch().number() + 1);
                (self.next_epoch(Some(length)), compact_target)
            } else {
                (self.next_epoch(None), parent.compact_target())
            };
            let txs = txs_at(self, number);
            self.append(BlockPlan {
                epoch,
                compact_target,
                timestamp: parent.timestamp() + BLOCK_INTERVAL_MS,
                txs,
                nonce: self.default_nonce(number),
            });
        }
    }

    pub fn append_epochs(&mut self, plan: &[(u64, u32)], blocks: u64) {
        self.append_epochs_with(plan, blocks, |_, _| Vec::new())
    }

    /// Deep copy of the blocks `0..=at_number` (everything else recomputed); blocks appended to
    /// the copy differ from the original's: `salt` is mixed into the cellbase (hash and witness)
    /// and the default nonce.
    pub fn fork(&self, at_number: u64, salt: u64) -> SimChain {
        assert!(at_number <= self.tip_number());
        let mut chain = SimChain {
            consensus: self.consensus.clone(),
            blocks: Vec::new(),
            total_difficulties: Vec::new(),
            filters: Vec::new(),
            filter_hashes: Vec::new(),
            store: MemStore::default(),
            tx_index: HashMap::new(),
            numbers: HashMap::new(),
            salt,
            break_pow_at: Default::default(),
        };
        for block in &self.blocks[..=at_number as usize] {
            chain
                .push_block(block.clone())
                .expect("a prefix of a chain is a chain");
        }
        chain
    }

    fn default_nonce(&self, number: u64) -> u128 {
        (u128::from(self.salt) << 64) | u128::from(number)
    }

    // registers a complete block: MMR leaf, total difficulty, indexes, filter
    fn push_block(&mut self, block: BlockView) -> Result<(), String> {
        let number = self.blocks.len() as u64;
        if block.number() != number {
            return Err(format!(
                "block number {} but the chain has {} blocks",
                block.number(),
                number
            ));
        }
        {
            let size = if number == 0 {
                0
            } else {
                leaf_index_to_mmr_size(number - 1)
            };
            let mut mmr = ChainRootMMR::new(size, &self.store);
            mmr.push(block.digest())
                .map_err(|e| format!("mmr push of block {}: {}", number, e))?;
            mmr.commit()
                .map_err(|e| format!("mmr commit of block {}: {}", number, e))?;
        }
        let difficulty = compact_to_difficulty(block.compact_target());
        let total = match self.total_difficulties.last() {
            Some(parent_total) => parent_total + &difficulty,
            None => difficulty,
        };
        self.total_difficulties.push(total);
        self.numbers.insert(block.hash(), number);
        for (index, tx) in block.transactions().into_iter().enumerate() {
            self.tx_index.insert(tx.hash(), (number, index));
        }
        self.blocks.push(block);
        let (filter, _missing_out_points) = {
            let block = &self.blocks[number as usize];
            build_filter_data(Provider(self), &block.transactions())
        };
        let filter: packed::Bytes = filter.pack();
        let parent_filter_hash = self
            .filter_hashes
            .last()
            .cloned()
            .unwrap_or_else(Byte32::zero);
        self.filter_hashes
            .push(calc_filter_hash(&parent_filter_hash, &filter).pack());
        self.filters.push(filter);
        Ok(())
    }

    /// MMR root over the leaves `0..=number` (leaf = `header.digest()`).
    pub fn chain_root(&self, number: u64) -> packed::HeaderDigest {
        assert!(number <= self.tip_number());
        ChainRootMMR::new(leaf_index_to_mmr_size(number), &self.store)
            .get_root()
            .expect("chain root")
    }

    /// the MMR node stored at `pos`
    pub fn mmr_node(&self, pos: u64) -> Option<packed::HeaderDigest> {
        use ckb_merkle_mountain_range::MMRStore;
        (&self.store).get_elem(pos).ok().flatten()
    }

    /// header, uncles hash, extension and the parent chain root (default for genesis)
    pub fn verifiable_header(&self, number: u64) -> packed::VerifiableHeader {
        let block = &self.blocks[number as usize];
        let parent_chain_root = if number == 0 {
            Default::default()
        } else {
            self.chain_root(number - 1)
        };
        packed::VerifiableHeader::new_builder()
            .header(block.data().header())
            .uncles_hash(block.calc_uncles_hash())
            .extension(Pack::pack(&block.extension()))
            .parent_chain_root(parent_chain_root)
            .build()
    }

    /// Proof of the leaves `numbers` against the MMR of the leaves `0..=last_number-1` (the
    /// parent chain root of block `last_number`); empty for empty `numbers`.  `Err` if a number
    /// is not below `last_number`.
    pub fn try_mmr_proof(
        &self,
        last_number: u64,
        numbers: &[u64],
    ) -> Result<packed::HeaderDigestVec, String> {
        if numbers.is_empty() {
            return Ok(Default::default());
        }
        if last_number == 0 || last_number > self.tip_number() {
            return Err(format!("no parent chain root for block {}", last_number));
        }
        let positions = numbers.iter().map(|n| leaf_index_to_pos(*n)).collect();
        let proof = ChainRootMMR::new(leaf_index_to_mmr_size(last_number - 1), &self.store)
            .gen_proof(positions)
            .map_err(|e| format!("gen_proof: {}", e))?;
        Ok(proof.proof_items().to_owned().pack())
    }

    pub fn mmr_proof(&self, last_number: u64, numbers: &[u64]) -> packed::HeaderDigestVec {
        match self.try_mmr_proof(last_number, numbers) {
            Ok(proof) => proof,
            Err(e) => panic!("SimChain::mmr_proof: {}", e),
        }
    }

    /// `filter_hashes[0], [interval], [2 * interval], ...`
    pub fn check_points(&self, interval: u64) -> Vec<Byte32> {
        self.filter_hashes
            .iter()
            .step_by(interval as usize)
            .cloned()
            .collect()
    }
}

/// The dummy consensus with `Pow::Eaglesong`.  Servers prove the genesis block like any other
/// block, so its nonce has to be valid too: the genesis header gets a valid nonce, i.e. the
/// genesis HASH differs from the dummy consensus' (everything else is the same).
pub fn eaglesong_consensus() -> Consensus {
    let mut consensus = dummy_consensus();
    // `ckb_pow` is not a direct dependency: the value is produced by its serde representation
    consensus.pow = serde_json::from_value(serde_json::json!({ "func": "Eaglesong" }))
        .expect("Pow::Eaglesong");
    assert!(!consensus.pow.is_dummy());
    let engine = consensus.pow_engine();
    let genesis = consensus.genesis_block.clone();
    let header = (0..NONCE_SEARCH_LIMIT)
        .map(|nonce| {
            genesis
                .header()
                .as_advanced_builder()
                .nonce(nonce.pack())
                .build()
        })
        .find(|header| engine.verify(&header.data()))
        .expect("a valid genesis nonce");
    let genesis = genesis
        .as_advanced_builder()
        .header(header)
        .build_unchecked();
    consensus.genesis_hash = genesis.hash();
    consensus.genesis_block = genesis;
    consensus
}

/// The same header with a nonce which FAILS the PoW verification of `consensus`.
pub fn break_pow(header: &HeaderView, consensus: &Consensus) -> HeaderView {
    let engine = consensus.pow_engine();
    let start: u128 = header.nonce();
    for i in 1..NONCE_SEARCH_LIMIT {
        let candidate = header
            .as_advanced_builder()
            .nonce(start.wrapping_add(i).pack())
            .build();
        if !engine.verify(&candidate.data()) {
            return candidate;
        }
    }
    panic!("break_pow: every nonce is valid (dummy PoW or difficulty 1)");
}

/// `code_hash = [code; 32]`, hash type `Data`
pub fn script(code: u8, args: &[u8]) -> Script {
    Script::new_builder()
        .code_hash([code; 32].pack())
        .hash_type(ScriptHashType::Data.into())
        .args(args.pack())
        .build()
}

/// A transaction spending `inputs` (tx hash, index) and creating `outputs` (lock, type,
/// capacity, data).  `salt != 0` adds a witness with the salt and a dummy header dep derived
/// from it, so that otherwise equal transactions get different hashes.
pub fn tx(
    inputs: &[(Byte32, u32)],
    outputs: &[(Script, Option<Script>, u64, Vec<u8>)],
    salt: u64,
) -> TransactionView {
    let mut builder = TransactionView::new_advanced_builder();
    for (tx_hash, index) in inputs {
        builder = builder.input(packed::CellInput::new(
            packed::OutPoint::new(tx_hash.clone(), *index),
            0,
        ));
    }
    for (lock, type_, capacity, data) in outputs {
        let output = packed::CellOutput::new_builder()
            .capacity(capacity.pack())
            .lock(lock.clone())
            .type_(type_.clone().pack())
            .build();
        builder = builder.output(output).output_data(data.pack());
    }
    if salt != 0 {
        let mut dep = [0x5au8; 32];
        dep[..8].copy_from_slice(&salt.to_le_bytes());
        builder = builder
            .header_dep(dep.pack())
            .witness(salt.to_le_bytes().to_vec().pack());
    }
    builder.build()
}

//! Self test of `simchain` + `server`: the real client (light client, filter and sync protocol
//! handlers over a fresh store) talks to the honest server over recording network contexts and
//! has to accept everything exactly like it accepts a ckb node.
//!
//! `lcverif SIMTEST --out report.json`

use std::collections::BTreeSet;
use std::sync::{Arc, RwLock};

use ckb_network::{bytes::Bytes, CKBProtocolHandler, PeerIndex, ProtocolId, SupportProtocols};
use ckb_traits::HeaderProvider;
use rocksdb::prelude::*;
use ckb_types::{
    core::TransactionView,
    packed::{self, Byte32, Script},
    prelude::*,
    utilities::{compact_to_difficulty, difficulty_to_compact},
    U256,
};

use super::env::{as_ctx, block_on, Env, MockContext};
use super::server::{self, ServerOpts};
use super::simchain::{break_pow, script, tx, SimChain};
use super::{catch, Options, Report};
use crate::protocols::filter_verif_exports::GET_BLOCK_FILTERS_TOKEN;
use crate::protocols::light_client::verif_exports::constant::{
    FETCH_HEADER_TX_TOKEN, GET_IDLE_BLOCKS_TOKEN, REFRESH_PEERS_TOKEN,
};
use crate::protocols::{
    FilterProtocol, LightClientProtocol, PendingTxs, SyncProtocol, CHECK_POINT_INTERVAL,
};
use crate::service::{
    BlockFilterRpc, BlockFilterRpcImpl, Order, ScriptType as RpcScriptType, SearchKey,
};
use crate::storage::{Key, ScriptStatus, ScriptType, SetScriptsCommand, StorageWithChainData};

// `protocols/filter/block_filter.rs` (not re-exported by the verification hooks)
const GET_BLOCK_FILTER_HASHES_TOKEN: u64 = 1;
const GET_BLOCK_FILTER_CHECK_POINTS_TOKEN: u64 = 2;

fn check(rep: &mut Report, ok: bool, what: &str, detail: String) -> bool {
    if !ok {
        rep.violate(&format!("SIMTEST|{}", what), &detail, vec![]);
    }
    ok
}

/// The client side: the three protocol handlers over one store / peer table, one recording
/// context per protocol.
struct Node {
    env: Env,
    lc: LightClientProtocol,
    filter: FilterProtocol,
    sync: SyncProtocol,
    nc_lc: Arc<MockContext>,
    nc_filter: Arc<MockContext>,
    nc_sync: Arc<MockContext>,
    bans: Vec<String>,
    server_errors: Vec<String>,
    /// replies delivered to the client
    exchanges: u64,
    /// requests the client sent, by protocol
    requests: Vec<(ProtocolId, String)>,
    /// `start..last: reorg+sampled+last_n` of every last state proof the server built
    proof_shapes: Vec<String>,
}

fn request_name(protocol: ProtocolId, data: &[u8]) -> String {
    if protocol == SupportProtocols::LightClient.protocol_id() {
        packed::LightClientMessageReader::from_compatible_slice(data)
            .map(|m| m.to_enum().item_name().to_string())
            .unwrap_or_else(|_| "malformed".into())
    } else if protocol == SupportProtocols::Filter.protocol_id() {
        packed::BlockFilterMessageReader::from_compatible_slice(data)
            .map(|m| m.to_enum().item_name().to_string())
            .unwrap_or_else(|_| "malformed".into())
    } else if protocol == SupportProtocols::Sync.protocol_id() {
        packed::SyncMessageReader::from_compatible_slice(data)
            .map(|m| m.to_enum().item_name().to_string())
            .unwrap_or_else(|_| "malformed".into())
    } else {
        format!("protocol-{}", protocol)
    }
}

impl Node {
    fn new(chain: &SimChain, last_n_blocks: u64, check_point_interval: u64) -> Node {
        let env = Env::with_consensus(chain.consensus.clone(), 1, check_point_interval);
        let mut lc = env.protocol();
        lc.verif_set_last_n_blocks(last_n_blocks);
        let filter = FilterProtocol::new(env.storage.clone(), Arc::clone(&env.peers));
        let sync = SyncProtocol::new(env.storage.clone(), Arc::clone(&env.peers));
        Node {
            env,
            lc,
            filter,
            sync,
            nc_lc: MockContext::new(SupportProtocols::LightClient),
            nc_filter: MockContext::new(SupportProtocols::Filter),
            nc_sync: MockContext::new(SupportProtocols::Sync),
            bans: Vec::new(),
            server_errors: Vec::new(),
            exchanges: 0,
            requests: Vec::new(),
            proof_shapes: Vec::new(),
        }
    }

    /// the tip of `chain` is a few seconds old
    fn set_now(&self, chain: &SimChain) {
        ckb_systemtime::faketime().set_faketime_keep(chain.tip().timestamp() + 5000);
    }

    fn connect(&mut self, peer: PeerIndex) {
        self.nc_lc.connect(peer);
        block_on(self.lc.connected(as_ctx(&self.nc_lc), peer, "test"));
        block_on(self.filter.connected(as_ctx(&self.nc_filter), peer, "test"));
        block_on(self.sync.connected(as_ctx(&self.nc_sync), peer, "test"));
    }

    fn deliver(&mut self, peer: PeerIndex, protocol: ProtocolId, data: Bytes) {
        self.exchanges += 1;
        if protocol == SupportProtocols::LightClient.protocol_id() {
            block_on(self.lc.received(as_ctx(&self.nc_lc), peer, data));
        } else if protocol == SupportProtocols::Filter.protocol_id() {
            block_on(self.filter.received(as_ctx(&self.nc_filter), peer, data));
        } else if protocol == SupportProtocols::Sync.protocol_id() {
            block_on(self.sync.received(as_ctx(&self.nc_sync), peer, data));
        } else {
            self.server_errors
                .push(format!("reply on unknown protocol {}", protocol));
        }
    }

    /// everything the client sent since the last call (bans are accumulated)
    fn collect(&mut self) -> Vec<(ProtocolId, PeerIndex, Bytes)> {
        let mut sent = Vec::new();
        for nc in [&self.nc_lc, &self.nc_filter, &self.nc_sync] {
            let rec = nc.take();
            for (peer, _, reason) in rec.banned {
                self.bans.push(format!("peer {}: {}", peer, reason));
            }
            sent.extend(rec.sent);
        }
        for (protocol, _, data) in &sent {
            self.requests
                .push((*protocol, request_name(*protocol, data)));
        }
        sent
    }

    /// Answers the client's requests with the honest server of the peer's chain until the
    /// client is quiet; returns the number of requests served.
    fn pump_with<'c>(
        &mut self,
        chain_of: &dyn Fn(PeerIndex) -> &'c SimChain,
        opts: &ServerOpts,
    ) -> u64 {
        let mut served = 0;
        for _ in 0..10_000 {
            let sent = self.collect();
            if sent.is_empty() {
                break;
            }
            for (protocol, peer, data) in sent {
                served += 1;
                self.record_proof_shape(chain_of(peer), opts, protocol, &data);
                match server::handle(chain_of(peer), opts, protocol, &data) {
                    Ok(replies) => {
                        for (protocol, bytes) in replies {
                            self.deliver(peer, protocol, bytes);
                        }
                    }
                    Err(e) => self.server_errors.push(format!(
                        "{}: {}",
                        request_name(protocol, &data),
                        e
                    )),
                }
            }
        }
        served
    }

    fn record_proof_shape(
        &mut self,
        chain: &SimChain,
        opts: &ServerOpts,
        protocol: ProtocolId,
        data: &[u8],
    ) {
        if protocol != SupportProtocols::LightClient.protocol_id() {
            return;
        }
        if let Ok(msg) = packed::LightClientMessageReader::from_compatible_slice(data) {
            if let packed::LightClientMessageUnionReader::GetLastStateProof(r) = msg.to_enum() {
                let req = r.to_entity();
                let start: u64 = req.start_number().unpack();
                if let Ok(Some((last, reorg, sampled, last_n))) =
                    server::last_state_proof_numbers(chain, &req, opts)
                {
                    self.proof_shapes.push(format!(
                        "{}..{}: {}+{}+{} ({} difficulties)",
                        start,
                        last,
                        reorg.len(),
                        sampled.len(),
                        last_n.len(),
                        req.difficulties().len()
                    ));
                }
            }
        }
    }

    fn pump(&mut self, chain: &SimChain, opts: &ServerOpts) -> u64 {
        self.pump_with(&|_| chain, opts)
    }

    /// the peer announces its tip (what a subscribed server does for every new block)
    fn announce(&mut self, peer: PeerIndex, chain: &SimChain) {
        self.set_now(chain);
        let msg = server::light_client_message(server::send_last_state(chain));
        self.deliver(peer, SupportProtocols::LightClient.protocol_id(), msg);
    }

    fn notify_lc(&mut self, token: u64) {
        block_on(self.lc.notify(as_ctx(&self.nc_lc), token));
    }

    fn notify_filter(&mut self, token: u64) {
        block_on(self.filter.notify(as_ctx(&self.nc_filter), token));
    }

    fn sent_count(&self, name: &str) -> usize {
        self.requests.iter().filter(|(_, n)| n == name).count()
    }

    /// no ban, no refused request, the peer is proved at the tip of `chain` and the stored tip is
    /// the chain's tip
    fn expect_synced(&mut self, rep: &mut Report, chain: &SimChain, peer: PeerIndex, tag: &str) {
        // pick up bans of direct deliveries
        let pending = self.collect();
        check(
            rep,
            pending.is_empty(),
            &format!("{}|quiet", tag),
            format!("{} unanswered requests", pending.len()),
        );
        check(
            rep,
            self.bans.is_empty(),
            &format!("{}|no-ban", tag),
            format!("banned: {:?}", self.bans),
        );
        check(
            rep,
            self.server_errors.is_empty(),
            &format!("{}|server-accepts-requests", tag),
            format!("server refused: {:?}", self.server_errors),
        );
        let tip = chain.tip();
        let proved = self
            .env
            .peers
            .get_state(&peer)
            .and_then(|s| s.get_prove_state().cloned())
            .map(|s| s.get_last_header().header().to_owned());
        check(
            rep,
            proved.as_ref().map(|h| h.hash()) == Some(tip.hash()),
            &format!("{}|prove-state-at-tip", tag),
            format!(
                "prove state at {:?}, chain tip {}",
                proved.map(|h| h.number()),
                tip.number()
            ),
        );
        let stored = self.env.storage.get_tip_header();
        check(
            rep,
            stored.as_slice() == tip.data().header().as_slice(),
            &format!("{}|stored-tip", tag),
            format!(
                "stored tip number {}, chain tip {}",
                Unpack::<u64>::unpack(&stored.raw().number()),
                tip.number()
            ),
        );
        let (stored_td, _) = self.env.storage.get_last_state();
        check(
            rep,
            &stored_td == chain.total_difficulty(chain.tip_number()),
            &format!("{}|stored-total-difficulty", tag),
            format!(
                "stored {:#x}, chain {:#x}",
                stored_td,
                chain.total_difficulty(chain.tip_number())
            ),
        );
        self.bans.clear();
        self.server_errors.clear();
    }
}

// the guard of ckb_systemtime disables the fake time when dropped: keep it enabled
trait FaketimeKeep {
    fn set_faketime_keep(self, time: u64);
}

impl FaketimeKeep for ckb_systemtime::FaketimeGuard {
    fn set_faketime_keep(self, time: u64) {
        self.set_faketime(time);
        std::mem::forget(self);
    }
}

/// `(epoch length, compact target)` per epoch number; epoch difficulty (= block difficulty x
/// length) changes by less than factor 2 (TAU) between neighbours; epoch 0 uses the genesis
/// block's compact target.
///
/// The block difficulties stay below twice the average: the client's difficulty boundary is
/// `last_n_blocks` average blocks below the total difficulty of the last block, and ckb refuses
/// a boundary above the total difficulty of the last block's parent ("the difficulty boundary
/// is not in the block range") - with `last_n_blocks = 2` a last block of more than twice the
/// average difficulty makes an honest server refuse the client's request.
fn epoch_plan(chain: &SimChain) -> Vec<(u64, u32)> {
    let genesis_ct = chain.block(0).compact_target();
    let d = |x: u64| difficulty_to_compact(U256::from(x));
    let plan = vec![
        (100, genesis_ct),
        (80, d(200)),
        (120, d(100)),
        (60, d(200)),
        (50, d(250)),
        (90, d(150)),
        (40, d(500)),
        (70, d(160)),
        (100, d(200)),
        (64, d(256)),
    ];
    for w in plan.windows(2) {
        let a = compact_to_difficulty(w[0].1) * U256::from(w[0].0);
        let b = compact_to_difficulty(w[1].1) * U256::from(w[1].0);
        assert!(
            b <= &a * U256::from(2u64) && a <= &b * U256::from(2u64),
            "illegal epoch plan"
        );
    }
    plan
}

// (a) + (b): initial sync, child, extension, fork, long extension
fn scenario_sync(rep: &mut Report, last_n_blocks: u64) {
    let tag = format!("sync-n{}", last_n_blocks);
    let opts = ServerOpts::default();
    let peer = PeerIndex::new(1);
    let mut chain = SimChain::new_dummy();
    let plan = epoch_plan(&chain);
    chain.append_epochs(&plan, 300);
    check(
        rep,
        chain.tip().epoch().number() == 3,
        &format!("{}|chain-shape", tag),
        format!("tip epoch {:#}", chain.tip().epoch()),
    );

    // (a) initial sync
    let mut node = Node::new(&chain, last_n_blocks, CHECK_POINT_INTERVAL);
    node.set_now(&chain);
    node.connect(peer);
    node.pump(&chain, &opts);
    node.expect_synced(rep, &chain, peer, &format!("{}|a-initial", tag));
    check(
        rep,
        node.sent_count("GetLastState") == 1 && node.sent_count("GetLastStateProof") >= 1,
        &format!("{}|a-initial|requests", tag),
        format!("{:?}", node.requests),
    );

    // (b1) one more block: the child fast path needs no proof
    let proofs_before = node.sent_count("GetLastStateProof");
    chain.append_epochs(&plan, 1);
    node.announce(peer, &chain);
    node.pump(&chain, &opts);
    node.expect_synced(rep, &chain, peer, &format!("{}|b-child", tag));
    check(
        rep,
        node.sent_count("GetLastStateProof") == proofs_before,
        &format!("{}|b-child|no-proof-request", tag),
        "the child of a proved header required a proof".into(),
    );

    // (b2) 50 more blocks: a new proof
    chain.append_epochs(&plan, 50);
    node.announce(peer, &chain);
    node.notify_lc(REFRESH_PEERS_TOKEN);
    node.pump(&chain, &opts);
    node.expect_synced(rep, &chain, peer, &format!("{}|b-extend50", tag));
    check(
        rep,
        node.sent_count("GetLastStateProof") > proofs_before,
        &format!("{}|b-extend50|proof-request", tag),
        "no proof was requested".into(),
    );

    // (b3) the peer switches to a longer fork starting 3 blocks below the tip (the client finds
    // the fork point among the `last_n_blocks` headers below its proved tip and treats anything
    // deeper as a "long fork" - it re-syncs from genesis and then aborts on purpose -, so the
    // depth is limited by `last_n_blocks`)
    let depth = std::cmp::min(3, last_n_blocks);
    let mut fork = chain.fork(chain.tip_number() - depth, 7);
    fork.append_epochs(&plan, 10);
    check(
        rep,
        fork.block(chain.tip_number()).hash() != chain.tip().hash()
            && fork.block(chain.tip_number() - depth + 1).hash()
                != chain.block(chain.tip_number() - depth + 1).hash()
            && fork.block(chain.tip_number() - depth).hash()
                == chain.block(chain.tip_number() - depth).hash(),
        &format!("{}|b-fork|shape", tag),
        "the fork does not diverge where it should".into(),
    );
    node.announce(peer, &fork);
    node.notify_lc(REFRESH_PEERS_TOKEN);
    node.pump(&fork, &opts);
    node.expect_synced(rep, &fork, peer, &format!("{}|b-fork", tag));

    // (b4) a long extension over several epochs (samples + total difficulty check against the
    // previous prove state)
    fork.append_epochs(&plan, 400);
    node.announce(peer, &fork);
    node.notify_lc(REFRESH_PEERS_TOKEN);
    node.pump(&fork, &opts);
    node.expect_synced(rep, &fork, peer, &format!("{}|b-extend400", tag));

    rep.notes.push(format!(
        "{}: proofs (start..last: reorg+sampled+last_n) {:?}",
        tag, node.proof_shapes
    ));
    rep.evaluations += node.exchanges;
    rep.count_op(&tag);
}

fn x_lock() -> Script {
    script(0x11, b"wallet-x")
}

fn y_lock() -> Script {
    script(0x22, b"wallet-y")
}

/// A chain with payments to the lock X: every block `n % 10 == 5` (n > 10) spends the cellbase of
/// block `n - 3` into two X cells (one with a type script); block 100 spends the first X cell of
/// block 15 to the lock Y.
fn chain_with_payments(blocks: u64) -> SimChain {
    let mut chain = SimChain::new_dummy();
    let plan = epoch_plan(&chain);
    chain.append_epochs_with(&plan, blocks, |c, n| {
        let mut txs: Vec<TransactionView> = Vec::new();
        if n > 10 && n % 10 == 5 {
            let cellbase = c.block(n - 3).transaction(0).expect("cellbase");
            txs.push(tx(
                &[(cellbase.hash(), 0)],
                &[
                    (x_lock(), None, 500_0000_0000 + n, vec![1, 2, 3]),
                    (x_lock(), Some(script(0x33, b"t")), 400_0000_0000, vec![]),
                ],
                n,
            ));
        }
        if n == 100 {
            let pay = c.block(15).transaction(1).expect("payment of block 15");
            txs.push(tx(
                &[(pay.hash(), 0)],
                &[(y_lock(), None, 499_0000_0000, vec![])],
                n,
            ));
        }
        txs
    });
    chain
}

// (c) blocks proof / transactions proof round trips, v0 and V1
fn scenario_fetch(rep: &mut Report) {
    let tag = "fetch";
    let peer = PeerIndex::new(2);
    let chain = chain_with_payments(130);
    let mut node = Node::new(&chain, 100, CHECK_POINT_INTERVAL);
    node.set_now(&chain);
    node.connect(peer);
    node.pump(&chain, &ServerOpts::default());
    node.expect_synced(rep, &chain, peer, "fetch|sync");
    let now = ckb_systemtime::unix_time_as_millis();

    for v1 in [false, true] {
        let opts = ServerOpts {
            v1,
            ..Default::default()
        };
        let vtag = if v1 { "v1" } else { "v0" };
        // headers
        let numbers: Vec<u64> = if v1 { vec![8, 77] } else { vec![7, 50] };
        let unknown: Byte32 = [if v1 { 0xe1 } else { 0xe0 }; 32].pack();
        for n in &numbers {
            node.env.peers.add_fetch_header(chain.block(*n).hash(), now);
        }
        node.env.peers.add_fetch_header(unknown.clone(), now);
        node.lc.verif_fetch_headers_txs(node.nc_lc.as_ref());
        let served = node.pump(&chain, &opts);
        check(
            rep,
            served == 1,
            &format!("{}|{}|blocks-proof-requested", tag, vtag),
            format!("{} requests served", served),
        );
        for n in &numbers {
            let hash = chain.block(*n).hash();
            let stored = node.env.storage.get_header(&hash);
            check(
                rep,
                stored.map(|h| h.hash()) == Some(hash.clone()),
                &format!("{}|{}|header-stored", tag, vtag),
                format!("header {} is not stored", n),
            );
            let raw_len = node
                .env
                .storage
                .db
                .get(Key::BlockHash(&hash).into_vec())
                .expect("db")
                .map(|v| v.len())
                .unwrap_or(0);
            let expected = packed::Header::TOTAL_SIZE + if v1 { 4 + 32 } else { 0 };
            check(
                rep,
                raw_len == expected,
                &format!("{}|{}|header-extension-stored", tag, vtag),
                format!(
                    "stored header record has {} bytes, expected {}",
                    raw_len, expected
                ),
            );
        }
        check(
            rep,
            node.env.peers.get_header_fetch_info(&unknown).map(|i| i.2) == Some(true),
            &format!("{}|{}|missing-header-marked", tag, vtag),
            "the unknown block hash is not marked as missing".into(),
        );

        // transactions: a payment, a cellbase, two transactions of one block, an unknown one
        let tx_hashes: Vec<Byte32> = if v1 {
            vec![
                chain.block(25).transaction(1).unwrap().hash(),
                chain.block(100).transaction(0).unwrap().hash(),
                chain.block(100).transaction(1).unwrap().hash(),
            ]
        } else {
            vec![
                chain.block(15).transaction(1).unwrap().hash(),
                chain.block(33).transaction(0).unwrap().hash(),
            ]
        };
        let unknown_tx: Byte32 = [if v1 { 0xd1 } else { 0xd0 }; 32].pack();
        for h in &tx_hashes {
            node.env.peers.add_fetch_tx(h.clone(), now);
        }
        node.env.peers.add_fetch_tx(unknown_tx.clone(), now);
        node.lc.verif_fetch_headers_txs(node.nc_lc.as_ref());
        let served = node.pump(&chain, &opts);
        check(
            rep,
            served == 1,
            &format!("{}|{}|txs-proof-requested", tag, vtag),
            format!("{} requests served", served),
        );
        for h in &tx_hashes {
            let (number, _) = chain.tx_location(h).unwrap();
            let stored = node.env.storage.get_transaction_with_header(h);
            check(
                rep,
                stored
                    .map(|(t, header)| (t.calc_tx_hash(), header.calc_header_hash()))
                    == Some((h.clone(), chain.block(number).hash())),
                &format!("{}|{}|tx-stored", tag, vtag),
                format!("transaction of block {} is not stored with its header", number),
            );
        }
        check(
            rep,
            node.env.peers.get_tx_fetch_info(&unknown_tx).map(|i| i.2) == Some(true),
            &format!("{}|{}|missing-tx-marked", tag, vtag),
            "the unknown tx hash is not marked as missing".into(),
        );
        node.expect_synced(rep, &chain, peer, &format!("{}|{}|after", tag, vtag));
    }

    // the byte surgery helper is the same encoding as the union conversion of ckb-types
    {
        let req = packed::GetBlocksProof::new_builder()
            .last_hash(chain.tip().hash())
            .block_hashes(vec![chain.block(9).hash()].pack())
            .build();
        let parts = server::get_blocks_proof(&chain, &req, &ServerOpts::default()).unwrap();
        let a = server::light_client_message(parts.v1());
        let item_id =
            packed::LightClientMessageUnion::SendBlocksProof(Default::default()).item_id();
        let b = server::wrap_under_item_id(item_id, parts.v1().as_slice());
        check(
            rep,
            a == b,
            "fetch|v1-encoding",
            "union conversion and byte surgery disagree".into(),
        );
    }
    rep.evaluations += node.exchanges;
    rep.count_op(tag);
}

fn live_cells_of(chain: &SimChain, lock: &Script) -> BTreeSet<(String, u32)> {
    let mut live = BTreeSet::new();
    for block in &chain.blocks {
        for t in block.transactions() {
            if !t.is_cellbase() {
                for op in t.input_pts_iter() {
                    let index: u32 = op.index().unpack();
                    live.remove(&(format!("{:#x}", op.tx_hash()), index));
                }
            }
            for (i, out) in t.outputs().into_iter().enumerate() {
                if &out.lock() == lock {
                    live.insert((format!("{:#x}", t.hash()), i as u32));
                }
            }
        }
    }
    live
}

// (d) block filter protocol: check points / hashes / filters / matched blocks / cells
fn scenario_filter(rep: &mut Report) {
    let tag = "filter";
    let opts = ServerOpts::default();
    let peer = PeerIndex::new(3);
    let chain = chain_with_payments(150);
    let mut node = Node::new(&chain, 100, CHECK_POINT_INTERVAL);
    node.env.storage.update_filter_scripts(
        vec![ScriptStatus {
            script: x_lock(),
            script_type: ScriptType::Lock,
            block_number: 0,
        }],
        SetScriptsCommand::All,
    );
    node.set_now(&chain);
    node.connect(peer);
    node.pump(&chain, &opts);
    node.expect_synced(rep, &chain, peer, "filter|sync");

    let expected = live_cells_of(&chain, &x_lock());
    let swc = StorageWithChainData::new(
        node.env.storage.clone(),
        Arc::clone(&node.env.peers),
        Arc::new(RwLock::new(PendingTxs::new(8))),
    );
    let rpc = BlockFilterRpcImpl { swc };
    let cells = |rpc: &BlockFilterRpcImpl| -> BTreeSet<(String, u32)> {
        let key = SearchKey {
            script: x_lock().into(),
            script_type: RpcScriptType::Lock,
            filter: None,
            with_data: Some(true),
            group_by_transaction: None,
        };
        match rpc.get_cells(key, Order::Asc, 1000u32.into(), None) {
            Ok(page) => page
                .objects
                .iter()
                .map(|c| {
                    (
                        format!("{:#x}", c.out_point.tx_hash),
                        c.out_point.index.value(),
                    )
                })
                .collect(),
            Err(_) => BTreeSet::new(),
        }
    };

    let mut rounds = 0;
    for _ in 0..12 {
        rounds += 1;
        node.notify_lc(REFRESH_PEERS_TOKEN);
        node.pump(&chain, &opts);
        node.notify_filter(GET_BLOCK_FILTER_CHECK_POINTS_TOKEN);
        node.pump(&chain, &opts);
        node.notify_filter(GET_BLOCK_FILTER_HASHES_TOKEN);
        node.pump(&chain, &opts);
        node.notify_filter(GET_BLOCK_FILTERS_TOKEN);
        node.pump(&chain, &opts);
        node.notify_lc(GET_IDLE_BLOCKS_TOKEN);
        node.pump(&chain, &opts);
        node.notify_lc(FETCH_HEADER_TX_TOKEN);
        node.pump(&chain, &opts);
        if node.env.storage.get_min_filtered_block_number() >= chain.tip_number()
            && node.env.storage.get_earliest_matched_blocks().is_none()
        {
            break;
        }
    }
    let got = cells(&rpc);
    check(
        rep,
        !expected.is_empty() && got == expected,
        "filter|cells",
        format!(
            "after {} rounds: {} cells in the store, {} live cells on the chain; requests: {:?}",
            rounds,
            got.len(),
            expected.len(),
            node.requests
                .iter()
                .map(|(_, n)| n.as_str())
                .collect::<Vec<_>>()
        ),
    );
    check(
        rep,
        node.env.storage.get_min_filtered_block_number() == chain.tip_number(),
        "filter|filtered-to-tip",
        format!(
            "min filtered block number {}, tip {}",
            node.env.storage.get_min_filtered_block_number(),
            chain.tip_number()
        ),
    );
    for name in [
        "GetBlockFilterHashes",
        "GetBlockFilters",
        "GetBlocksProof",
        "GetBlocks",
    ] {
        check(
            rep,
            node.sent_count(name) >= 1,
            &format!("filter|request|{}", name),
            format!("the client never sent {}", name),
        );
    }
    node.expect_synced(rep, &chain, peer, "filter|after");
    rep.notes.push(format!(
        "filter: {} rounds, {} live cells, requests {:?}",
        rounds,
        expected.len(),
        node.requests
            .iter()
            .map(|(_, n)| n.as_str())
            .collect::<Vec<_>>()
    ));
    rep.evaluations += node.exchanges;
    rep.count_op(tag);
}

// (d') check points: a small interval so that several check points get finalized and the
// cached-hashes path is used as well
fn scenario_filter_check_points(rep: &mut Report) {
    let tag = "filter-cp";
    let interval = 20;
    let opts = ServerOpts {
        check_point_interval: interval,
        ..Default::default()
    };
    let peer = PeerIndex::new(4);
    let chain = chain_with_payments(150);
    let mut node = Node::new(&chain, 100, interval);
    node.env.storage.update_filter_scripts(
        vec![ScriptStatus {
            script: x_lock(),
            script_type: ScriptType::Lock,
            block_number: 0,
        }],
        SetScriptsCommand::All,
    );
    node.set_now(&chain);
    node.connect(peer);
    node.pump(&chain, &opts);
    node.expect_synced(rep, &chain, peer, "filter-cp|sync");
    let mut rounds = 0;
    for _ in 0..40 {
        rounds += 1;
        node.notify_lc(REFRESH_PEERS_TOKEN);
        node.pump(&chain, &opts);
        node.notify_filter(GET_BLOCK_FILTER_CHECK_POINTS_TOKEN);
        node.pump(&chain, &opts);
        node.notify_filter(GET_BLOCK_FILTER_HASHES_TOKEN);
        node.pump(&chain, &opts);
        node.filter
            .try_send_get_block_filters(as_ctx(&node.nc_filter), true);
        node.pump(&chain, &opts);
        node.notify_lc(GET_IDLE_BLOCKS_TOKEN);
        node.pump(&chain, &opts);
        if node.env.storage.get_min_filtered_block_number() >= chain.tip_number()
            && node.env.storage.get_earliest_matched_blocks().is_none()
        {
            break;
        }
    }
    let max_cp = node.env.storage.get_max_check_point_index();
    let finalized = node.env.storage.get_check_points(0, max_cp as usize + 1);
    let honest = chain.check_points(interval);
    check(
        rep,
        max_cp >= 1 && finalized[..] == honest[..finalized.len()],
        "filter-cp|finalized-check-points",
        format!(
            "{} check points finalized (max index {}), honest prefix: {}",
            finalized.len(),
            max_cp,
            finalized[..] == honest[..finalized.len().min(honest.len())]
        ),
    );
    check(
        rep,
        node.env.storage.get_min_filtered_block_number() == chain.tip_number(),
        "filter-cp|filtered-to-tip",
        format!(
            "after {} rounds: min filtered block number {}, tip {}, max check point {}",
            rounds,
            node.env.storage.get_min_filtered_block_number(),
            chain.tip_number(),
            max_cp
        ),
    );
    check(
        rep,
        node.sent_count("GetBlockFilterCheckPoints") >= 1,
        "filter-cp|request|GetBlockFilterCheckPoints",
        "the client never asked for check points".into(),
    );
    node.expect_synced(rep, &chain, peer, "filter-cp|after");
    rep.notes.push(format!(
        "filter-cp: {} rounds, max check point index {}",
        rounds, max_cp
    ));
    rep.evaluations += node.exchanges;
    rep.count_op(tag);
}

// (e) Eaglesong: real nonces are accepted, a broken nonce is refused
fn scenario_eaglesong(rep: &mut Report) {
    let tag = "eaglesong";
    let opts = ServerOpts::default();
    let peer = PeerIndex::new(5);
    let mut chain = SimChain::new_eaglesong();
    let plan = vec![(20, chain.block(0).compact_target()), (25, difficulty_to_compact(U256::from(60u64)))];
    chain.append_epochs(&plan, 45);
    let engine = chain.consensus.pow_engine();
    check(
        rep,
        (1..=chain.tip_number()).all(|n| engine.verify(&chain.header(n).data())),
        "eaglesong|nonces-valid",
        "a block of the chain fails the PoW check".into(),
    );
    let mut node = Node::new(&chain, 10, CHECK_POINT_INTERVAL);
    node.set_now(&chain);
    node.connect(peer);
    node.pump(&chain, &opts);
    node.expect_synced(rep, &chain, peer, "eaglesong|sync");

    // a last state whose nonce is broken
    chain.append_epochs(&plan, 1);
    let broken = break_pow(&chain.tip().header(), &chain.consensus);
    check(
        rep,
        !engine.verify(&broken.data()) && broken.hash() != chain.tip().hash(),
        "eaglesong|break-pow",
        "break_pow returned a valid header".into(),
    );
    let vh = chain
        .verifiable_header(chain.tip_number())
        .as_builder()
        .header(broken.data())
        .build();
    node.set_now(&chain);
    let msg = server::light_client_message(
        packed::SendLastState::new_builder().last_header(vh).build(),
    );
    node.deliver(peer, SupportProtocols::LightClient.protocol_id(), msg);
    node.collect();
    check(
        rep,
        node.bans.len() == 1 && node.bans[0].contains("InvalidNonce"),
        "eaglesong|broken-nonce-banned",
        format!("bans: {:?}", node.bans),
    );
    rep.evaluations += node.exchanges;
    rep.count_op(tag);
}

pub fn run(opts: &Options) -> Report {
    let mut rep = Report {
        rule: "SIMTEST: the client accepts the simulated honest full node".into(),
        ..Default::default()
    };
    let _ = opts;
    {
        let chain = SimChain::new_dummy();
        let genesis = chain.block(0);
        rep.notes.push(format!(
            "genesis compact target {:#x} = difficulty {}, epoch {:#}, genesis epoch length {}",
            genesis.compact_target(),
            compact_to_difficulty(genesis.compact_target()),
            genesis.epoch(),
            chain.consensus.genesis_epoch_ext().length()
        ));
    }
    let mut scenarios: Vec<(String, Box<dyn Fn(&mut Report)>)> = Vec::new();
    for last_n in [100u64, 5, 2] {
        scenarios.push((
            format!("sync-n{}", last_n),
            Box::new(move |rep| scenario_sync(rep, last_n)),
        ));
    }
    scenarios.push(("fetch".into(), Box::new(scenario_fetch)));
    scenarios.push(("filter".into(), Box::new(scenario_filter)));
    scenarios.push(("filter-cp".into(), Box::new(scenario_filter_check_points)));
    scenarios.push(("eaglesong".into(), Box::new(scenario_eaglesong)));
    for (name, scenario) in scenarios {
        // a panic of the client (or of the generator) fails the scenario, not the run
        if let Err(msg) = catch(|| scenario(&mut rep)) {
            rep.violate(&format!("SIMTEST|{}|panic", name), &msg, vec![]);
        }
    }
    ckb_systemtime::faketime().disable_faketime();
    rep.sample(&format!(
        "{} violations, {} exchanges",
        rep.violations.len(),
        rep.evaluations
    ));
    rep
}

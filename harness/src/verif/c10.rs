//! C10 - no message from a peer can terminate the client.
//!
//! A full client (`Node`: store + peer table + light-client / filter / sync handlers, plus the
//! relay handler) is put into a set of reachable peer states; honest replies of the outstanding
//! requests, single-field boundary mutations of them, structurally valid messages built from
//! scratch, truncations, bit flips and random byte strings are delivered through `received`
//! and all timers are run once afterwards.  Every panic which is not the documented long-fork
//! abort is a violation; the signature names the union variant and the panic site.

use std::cell::{Cell, RefCell};
use std::collections::{BTreeMap, BTreeSet, HashMap};
use std::fmt::Write as _;
use std::rc::Rc;
use std::sync::Arc;

use ckb_network::{bytes::Bytes, CKBProtocolHandler, PeerIndex, ProtocolId, SupportProtocols};
use ckb_types::{
    core::{EpochNumberWithFraction, ExtraHashView, TransactionView},
    packed::{self, Byte32},
    prelude::*,
    utilities::{calc_filter_hash, difficulty_to_compact},
    U256,
};

use super::env::{as_ctx, block_on, MockContext};
use super::node::{request_name, set_now, Node};
use super::server::{self, ServerOpts};
use super::simchain::{script, tx, SimChain};
use super::{fnv, Options, Report, Rng};
use crate::protocols::RelayProtocol;
use crate::service::{ChainRpc, TransactionRpc};
use crate::storage::{ScriptStatus, ScriptType, SetScriptsCommand};

// ---------------------------------------------------------------------------------------------
// panic capture

#[derive(Clone, Debug, Default)]
pub struct PanicRec {
    pub file: String,
    pub line: u32,
    pub msg: String,
    /// functions of the code under test on the stack (innermost first)
    pub frames: Vec<String>,
}

thread_local! {
    static DEPTH: Cell<u32> = Cell::new(0);
    static LAST: RefCell<Option<PanicRec>> = RefCell::new(None);
    static CAPTURES: Cell<u32> = Cell::new(0);
    static FRAME_CACHE: RefCell<HashMap<String, Vec<String>>> = RefCell::new(HashMap::new());
    static CACHE_KEY: RefCell<String> = RefCell::new(String::new());
}

const MAX_BACKTRACES: u32 = 600;

fn repo_frames() -> Vec<String> {
    let bt = std::backtrace::Backtrace::force_capture().to_string();
    let mut out: Vec<String> = Vec::new();
    for l in bt.lines() {
        let l = l.trim();
        // "12: lcverif::protocols::light_client::...::execute"
        let sym = match l.split_once(": ") {
            Some((n, s)) if n.chars().all(|c| c.is_ascii_digit()) => s,
            _ => continue,
        };
        let sym = sym.trim_start_matches('<');
        let is_repo = [
            "lcverif::protocols::",
            "lcverif::storage::",
            "lcverif::utils::",
            "lcverif::service::",
            "lcverif::verify::",
            "lcverif::types::",
        ]
        .iter()
        .any(|p| sym.contains(p));
        if !is_repo || sym.contains("{{closure}}") && out.last().map(|x| sym.starts_with(x.as_str())).unwrap_or(false) {
            continue;
        }
        let mut s = sym.to_string();
        // drop the hash suffix
        if let Some(i) = s.rfind("::h") {
            if s.len() - i == 19 {
                s.truncate(i);
            }
        }
        let s = s.replace("lcverif::", "");
        if out.last() != Some(&s) {
            out.push(s);
        }
        if out.len() >= 4 {
            break;
        }
    }
    out
}

fn install_hook() {
    std::panic::set_hook(Box::new(|info| {
        if DEPTH.with(|d| d.get()) == 0 {
            eprintln!("harness panic: {}", info);
            return;
        }
        let (file, line) = info
            .location()
            .map(|l| (l.file().to_string(), l.line()))
            .unwrap_or_default();
        let msg = if let Some(s) = info.payload().downcast_ref::<&str>() {
            s.to_string()
        } else if let Some(s) = info.payload().downcast_ref::<String>() {
            s.clone()
        } else {
            String::new()
        };
        let key = format!("{}:{}|{}", file, line, CACHE_KEY.with(|k| k.borrow().clone()));
        let n = CAPTURES.with(|c| c.get());
        let cached = FRAME_CACHE.with(|c| c.borrow().get(&key).cloned());
        let frames = if n < MAX_BACKTRACES {
            CAPTURES.with(|c| c.set(n + 1));
            let f = repo_frames();
            FRAME_CACHE.with(|c| c.borrow_mut().insert(key, f.clone()));
            f
        } else {
            cached.unwrap_or_default()
        };
        if std::env::var("VERIF_DEBUG_PANICS").is_ok() {
            eprintln!("caught panic: {} frames {:?}", info, frames);
        }
        LAST.with(|l| *l.borrow_mut() = Some(PanicRec { file, line, msg, frames }));
    }));
}

/// runs code under test; a panic becomes `Err(record)`
fn guarded<T>(f: impl FnOnce() -> T) -> Result<T, PanicRec> {
    DEPTH.with(|d| d.set(d.get() + 1));
    LAST.with(|l| l.borrow_mut().take());
    let r = super::catch(f);
    DEPTH.with(|d| d.set(d.get() - 1));
    r.map_err(|msg| {
        let mut rec = LAST.with(|l| l.borrow_mut().take()).unwrap_or_default();
        if rec.msg.is_empty() {
            rec.msg = msg;
        }
        rec
    })
}

fn basename(p: &str) -> &str {
    p.rsplit('/').next().unwrap_or(p)
}

/// message with every number replaced by `N`
fn msg_kind(msg: &str) -> String {
    let mut out = String::new();
    let mut in_num = false;
    for c in msg.chars() {
        if c.is_ascii_digit() {
            if !in_num {
                out.push('N');
                in_num = true;
            }
        } else {
            in_num = false;
            out.push(c);
        }
    }
    let out: String = out.split_whitespace().collect::<Vec<_>>().join(" ");
    // the numext types are named like `UN`, hex strings of hashes vary
    out.chars().take(90).collect()
}

/// short stable classification: message kind @ source file of the code under test
fn site_of(rec: &PanicRec) -> String {
    let in_repo = rec.file.starts_with("/repo/src");
    let func = rec
        .frames
        .first()
        .map(|f| {
            let parts: Vec<&str> = f.split("::").filter(|p| *p != "{{closure}}").collect();
            let n = parts.len();
            parts[n.saturating_sub(2)..].join("::")
        })
        .unwrap_or_default();
    if in_repo {
        format!("{} @ {}", msg_kind(&rec.msg), basename(&rec.file))
    } else {
        format!("{} @ {} (in {})", msg_kind(&rec.msg), if func.is_empty() { "?".to_string() } else { func }, basename(&rec.file))
    }
}

fn where_of(rec: &PanicRec) -> String {
    format!("{}:{} `{}` stack [{}]", rec.file, rec.line, rec.msg.chars().take(160).collect::<String>(), rec.frames.join(" <- "))
}

// ---------------------------------------------------------------------------------------------
// small helpers

fn hex(b: &[u8]) -> String {
    let mut s = String::with_capacity(b.len() * 2);
    for x in b {
        let _ = write!(s, "{:02x}", x);
    }
    s
}

fn unhex(s: &str) -> Option<Vec<u8>> {
    if s.len() % 2 != 0 {
        return None;
    }
    (0..s.len() / 2).map(|i| u8::from_str_radix(&s[2 * i..2 * i + 2], 16).ok()).collect()
}

#[derive(Clone, Copy, PartialEq, Eq, Debug, PartialOrd, Ord)]
pub enum Proto {
    Lc,
    Filter,
    Sync,
    Relay,
}

impl Proto {
    fn name(self) -> &'static str {
        match self {
            Proto::Lc => "lc",
            Proto::Filter => "filter",
            Proto::Sync => "sync",
            Proto::Relay => "relay",
        }
    }
    fn parse(s: &str) -> Option<Proto> {
        Some(match s {
            "lc" => Proto::Lc,
            "filter" => Proto::Filter,
            "sync" => Proto::Sync,
            "relay" => Proto::Relay,
            _ => return None,
        })
    }
    fn id(self) -> ProtocolId {
        match self {
            Proto::Lc => SupportProtocols::LightClient.protocol_id(),
            Proto::Filter => SupportProtocols::Filter.protocol_id(),
            Proto::Sync => SupportProtocols::Sync.protocol_id(),
            Proto::Relay => SupportProtocols::RelayV2.protocol_id(),
        }
    }
    fn of(id: ProtocolId) -> Option<Proto> {
        [Proto::Lc, Proto::Filter, Proto::Sync, Proto::Relay].into_iter().find(|p| p.id() == id)
    }
}

/// (parses under the handler's reader, union item name)
fn classify(proto: Proto, data: &[u8]) -> (bool, String) {
    let r = match proto {
        Proto::Lc => packed::LightClientMessageReader::from_compatible_slice(data).map(|m| m.to_enum().item_name().to_string()),
        Proto::Filter => packed::BlockFilterMessageReader::from_slice(data).map(|m| m.to_enum().item_name().to_string()),
        Proto::Sync => packed::SyncMessageReader::from_compatible_slice(data).map(|m| m.to_enum().item_name().to_string()),
        Proto::Relay => packed::RelayMessageReader::from_compatible_slice(data).map(|m| m.to_enum().item_name().to_string()),
    };
    match r {
        Ok(n) => (true, n),
        Err(_) => (false, "malformed".into()),
    }
}

#[derive(Clone, Debug)]
pub enum Step {
    Msg(Proto, usize, Bytes),
    Tick,
    Disconnect(usize),
    Connect(usize),
}

#[derive(Clone, Debug)]
pub struct Case {
    pub steps: Vec<Step>,
    /// label of the mutation
    pub kind: String,
}

impl Case {
    fn one(proto: Proto, peer: usize, bytes: Bytes, kind: impl Into<String>) -> Case {
        Case { steps: vec![Step::Msg(proto, peer, bytes)], kind: kind.into() }
    }
}

// ---------------------------------------------------------------------------------------------
// world

#[derive(Clone, Copy, PartialEq, Eq, Debug, PartialOrd, Ord)]
pub enum ChainId {
    Main,
    Child,
    ExtShort,
    ExtLong,
    ForkShort,
    ForkMid,
    ForkLong,
    EvilFilters(u8),
    TauBad,
}

pub struct World {
    pub seed: u64,
    pub chains: BTreeMap<ChainId, SimChain>,
    pub now0: u64,
    pub tip: u64,
    pub scripts: Vec<packed::Script>,
    /// blocks of the main chain with script activity
    pub active_blocks: Vec<u64>,
}

fn script_of(id: u64) -> packed::Script {
    script(0x40 + id as u8, &[id as u8])
}

fn legal_plan(rng: &mut Rng, chain: &SimChain) -> Vec<(u64, u32)> {
    use ckb_types::utilities::compact_to_difficulty;
    let genesis_ct = chain.block(0).compact_target();
    loop {
        let mut plan = vec![(rng.range(24, 40), genesis_ct)];
        let mut d: u64 = 100;
        let mut len = plan[0].0;
        for _ in 0..14 {
            let nlen = (len as i64 + rng.range(0, 10) as i64 - 5).max(16) as u64;
            let lo = (d * len / 2 / nlen + 1).max(60);
            let hi = (d * len * 2 / nlen).min(170);
            let nd = if lo >= hi { lo.min(170).max(60) } else { rng.range(lo, hi) };
            plan.push((nlen, difficulty_to_compact(U256::from(nd))));
            d = nd;
            len = nlen;
        }
        let legal = plan.windows(2).all(|w| {
            let a = compact_to_difficulty(w[0].1) * U256::from(w[0].0);
            let b = compact_to_difficulty(w[1].1) * U256::from(w[1].0);
            b <= &a * U256::from(2u64) && a <= &b * U256::from(2u64)
        });
        if legal {
            return plan;
        }
    }
}

impl World {
    pub fn chain(&self, id: ChainId) -> &SimChain {
        &self.chains[&id]
    }
    pub fn main(&self) -> &SimChain {
        self.chain(ChainId::Main)
    }

    pub fn build(seed: u64) -> World {
        let mut rng = Rng::new(seed ^ 0xc10);
        let mut main = SimChain::new_dummy();
        let plan = legal_plan(&mut rng, &main);
        let n_blocks = rng.range(230, 260);
        let mut live: Vec<(Byte32, u32)> = Vec::new();
        let mut active = Vec::new();
        let mut r2 = rng.fork();
        main.append_epochs_with(&plan, n_blocks, |_c, number| {
            let mut txs: Vec<TransactionView> = Vec::new();
            // activity in about a third of the blocks, and always in some blocks near the tip
            let n_tx = if r2.chance(1, 3) || number % 9 == 0 { r2.range(1, 2) } else { 0 };
            for k in 0..n_tx {
                let mut inputs = Vec::new();
                if !live.is_empty() && r2.chance(1, 2) {
                    let i = r2.below(live.len() as u64) as usize;
                    inputs.push(live.remove(i));
                }
                let sid = r2.range(1, 3);
                let outputs = vec![(script_of(sid), None, 100_0000_0000u64 + number, vec![])];
                let t = tx(&inputs, &outputs, number * 10 + k);
                live.push((t.hash(), 0));
                txs.push(t);
            }
            if !txs.is_empty() {
                active.push(number);
            }
            txs
        });
        let tip = main.tip_number();
        let mut chains = BTreeMap::new();
        let grow = |c: &SimChain, at: u64, salt: u64, n: u64| {
            let mut f = c.fork(at, salt);
            f.append_epochs(&plan, n);
            f
        };
        chains.insert(ChainId::Child, grow(&main, tip, 11, 1));
        chains.insert(ChainId::ExtShort, grow(&main, tip, 11, 3));
        chains.insert(ChainId::ExtLong, grow(&main, tip, 11, 40));
        chains.insert(ChainId::ForkShort, grow(&main, tip - 3, 21, 8));
        chains.insert(ChainId::ForkMid, grow(&main, tip - 3, 22, 45));
        chains.insert(ChainId::ForkLong, grow(&main, tip - 60, 23, 80));
        // hash-consistent garbage filters near the tip, one kind of garbage per chain
        for kind in 0u8..5 {
            let mut e = main.fork(tip, 31 + kind as u64);
            let from = tip - 45;
            for n in from..=tip {
                let honest = e.filters[n as usize].raw_data().to_vec();
                let garbage: Vec<u8> = match kind {
                    0 => honest[..honest.len().min(9)].to_vec(),
                    1 => {
                        let mut v = vec![0xff; 8];
                        v.extend_from_slice(&[1, 2, 3]);
                        v
                    }
                    2 => (0..20).map(|_| rng.next() as u8).collect(),
                    3 => {
                        let mut v = 3u64.to_le_bytes().to_vec();
                        v.push(0xff);
                        v
                    }
                    _ => {
                        // a huge count which does not overflow `n * M`, unary run without end
                        let mut v = (1u64 << 40).to_le_bytes().to_vec();
                        v.extend_from_slice(&[0xff; 64]);
                        v
                    }
                };
                e.filters[n as usize] = garbage.pack();
            }
            for n in from..=tip {
                let parent = e.filter_hashes[n as usize - 1].clone();
                e.filter_hashes[n as usize] = calc_filter_hash(&parent, &e.filters[n as usize]).pack();
            }
            chains.insert(ChainId::EvilFilters(kind), e);
        }
        // a chain whose epoch difficulty jumps by more than tau
        {
            let mut t = SimChain::new_dummy();
            let g = t.block(0).compact_target();
            let gd = ckb_types::utilities::compact_to_difficulty(g);
            let plan = vec![(30, g), (30, g), (30, difficulty_to_compact(gd * U256::from(5u64)))];
            t.append_epochs(&plan, 80);
            chains.insert(ChainId::TauBad, t);
        }
        let now0 = main.tip().timestamp() + 5000;
        chains.insert(ChainId::Main, main);
        World { seed, chains, now0, tip, scripts: (1..=3).map(script_of).collect(), active_blocks: active }
    }
}

// ---------------------------------------------------------------------------------------------
// client states

pub const STATES: &[&str] = &[
    "fresh",
    "prove-requested",
    "proved",
    "only-last-state",
    "growth-short-requested",
    "growth-long-requested",
    "fork-short-requested",
    "fork-growth-requested",
    "restart-fork-requested",
    "long-fork-rerequested",
    "tau-rerequested",
    "fetching",
    "filter-hashes-requested",
    "filters-requested",
    "matched-proof-requested",
    "blocks-requested",
    "matched-restart",
    "cp-checkpoints-requested",
    "cp-hashes-requested",
    "cp-partial-cache",
    "cp-filters-requested",
    "evil-filters-0-requested",
    "evil-filters-1-requested",
    "evil-filters-2-requested",
    "evil-filters-3-requested",
    "evil-filters-4-requested",
    "two-peers-filters-requested",
    "unknown-peer",
    "relay-pending",
];

pub(crate) struct Ctx {
    pub node: Node,
    pub relay: RelayProtocol,
    pub nc_relay: Arc<MockContext>,
    pub target: usize,
    pub chains: BTreeMap<usize, ChainId>,
    pub outstanding: Vec<(ProtocolId, PeerIndex, Bytes)>,
    pub writes: Rc<Cell<u64>>,
    pub interval: u64,
    pub last_n: u64,
    pub fetch_headers: Vec<Byte32>,
    pub fetch_txs: Vec<Byte32>,
    pub now: u64,
    pub seen: BTreeMap<String, usize>,
}

struct StateBuilder<'w> {
    world: &'w World,
    node: Node,
    chains: BTreeMap<usize, ChainId>,
    outstanding: Vec<(ProtocolId, PeerIndex, Bytes)>,
    seen: BTreeMap<String, usize>,
    now: u64,
    sopts: ServerOpts,
}

impl<'w> StateBuilder<'w> {
    fn connect(&mut self, p: usize, chain: ChainId) {
        self.chains.insert(p, chain);
        self.node.connect(PeerIndex::new(p));
    }

    /// answers the client's requests; at the `k`-th request named `n` (and from then on) nothing
    /// is answered any more: those requests are outstanding
    fn pump(&mut self, stop: Option<(&str, usize)>) -> bool {
        for _ in 0..300 {
            let sent = self.node.collect();
            if sent.is_empty() {
                return false;
            }
            let mut stopped = false;
            for (protocol, peer, data) in sent {
                let name = request_name(protocol, &data);
                let c = self.seen.entry(name.clone()).or_default();
                *c += 1;
                if !stopped {
                    if let Some((n, k)) = stop {
                        if name == n && *c >= k {
                            stopped = true;
                        }
                    }
                }
                if stopped {
                    self.outstanding.push((protocol, peer, data));
                    continue;
                }
                let chain = match self.chains.get(&peer.value()) {
                    Some(id) => self.world.chain(*id),
                    None => continue,
                };
                match server::handle(chain, &self.sopts, protocol, &data) {
                    Ok(replies) => {
                        for (p, b) in replies {
                            self.node.deliver(peer, p, b);
                            if std::env::var("C10_DEBUG").is_ok() {
                                eprintln!("      -> peer {} now {:#}; recorded bans {:?}", peer, self.node.i().peers.get_state(&peer).map(|s| s.to_string()).unwrap_or_default(), self.node.i().nc_lc.rec.lock().unwrap().banned);
                            }
                        }
                    }
                    Err(e) => self.node.server_errors.push(format!("{}: {}", name, e)),
                }
            }
            if stopped {
                let more = self.node.collect();
                self.outstanding.extend(more);
                return true;
            }
        }
        false
    }

    /// timers + pump, one second per round
    fn drive(&mut self, rounds: usize, stop: Option<(&str, usize)>) -> bool {
        if self.pump(stop) {
            return true;
        }
        for _ in 0..rounds {
            self.now += 1000;
            set_now(self.now);
            self.node.im().filter.last_ask_time.write().unwrap().take();
            self.node.tick_all();
            if self.pump(stop) {
                return true;
            }
        }
        false
    }

    fn announce(&mut self, p: usize, chain: ChainId) {
        self.chains.insert(p, chain);
        let c = self.world.chain(chain);
        self.node.announce(PeerIndex::new(p), c);
    }

    fn restart(&mut self) {
        self.node.restart();
        self.chains.clear();
        self.outstanding.clear();
        self.seen.clear();
    }
}

fn set_scripts(node: &Node, world: &World, from: u64) {
    let statuses: Vec<ScriptStatus> = world
        .scripts
        .iter()
        .map(|s| ScriptStatus { script: s.clone(), script_type: ScriptType::Lock, block_number: from })
        .collect();
    node.i().storage.update_filter_scripts(statuses, SetScriptsCommand::All);
}

pub(crate) fn build_state(world: &World, name: &str, seed: u64) -> Result<Ctx, String> {
    super::seed_client_randomness(seed);
    crate::verif_hooks::set_before_write(None);
    let tip = world.tip;
    // (last_n, check point interval, max outbound peers, scripts registered from)
    let (last_n, interval, max_out, scripts_from): (u64, u64, u32, Option<u64>) = match name {
        "filter-hashes-requested" | "filters-requested" | "matched-proof-requested" | "blocks-requested"
        | "matched-restart" => (5, 2000, 1, Some(tip - 40)),
        n if n.starts_with("evil-filters-") => (5, 2000, 1, Some(tip - 40)),
        "two-peers-filters-requested" => (5, 2000, 3, Some(tip - 40)),
        "cp-checkpoints-requested" | "cp-hashes-requested" | "cp-filters-requested" => (5, 20, 1, Some(tip - 75)),
        "cp-partial-cache" => (5, 20, 1, Some((tip - 75) / 20 * 20 + 10)),
        _ => (5, 2000, 1, None),
    };
    let tn = std::time::Instant::now();
    let node = Node::new(&world.main().consensus, last_n, interval, max_out);
    if std::env::var("C10_DEBUG").is_ok() {
        eprintln!("Node::new {:?}", tn.elapsed());
    }
    if let Some(from) = scripts_from {
        set_scripts(&node, world, from);
    }
    set_now(world.now0);
    let mut b = StateBuilder {
        world,
        node,
        chains: BTreeMap::new(),
        outstanding: Vec::new(),
        seen: BTreeMap::new(),
        now: world.now0,
        sopts: ServerOpts { check_point_interval: interval, ..Default::default() },
    };
    let mut target = 1usize;
    let mut fetch_headers = Vec::new();
    let mut fetch_txs = Vec::new();
    macro_rules! need {
        ($ok:expr, $what:expr) => {
            if !$ok {
                let sts: Vec<String> = b.node.i().peers.get_peers_index().iter().map(|p| format!("{}: {:#}", p, b.node.i().peers.get_state(p).unwrap())).collect();
                return Err(format!("state {}: {} (server errors {:?}, bans {:?}, peers {:?}, min filtered {})", name, $what, b.node.server_errors, b.node.bans, sts, b.node.i().storage.get_min_filtered_block_number()));
            }
        };
    }
    match name {
        "fresh" => {
            b.connect(1, ChainId::Main);
            let o = b.node.collect();
            b.outstanding = o;
        }
        "prove-requested" => {
            b.connect(1, ChainId::Main);
            let s = b.pump(Some(("GetLastStateProof", 1)));
            need!(s, "no prove request");
        }
        "proved" | "unknown-peer" | "relay-pending" => {
            b.connect(1, ChainId::Main);
            b.drive(4, None);
            if name == "unknown-peer" {
                target = 9;
            }
        }
        "only-last-state" => {
            b.connect(1, ChainId::Main);
            b.drive(3, None);
            b.restart();
            b.connect(1, ChainId::Main);
            b.drive(2, None);
        }
        "growth-short-requested" | "growth-long-requested" | "fork-short-requested" | "fork-growth-requested" => {
            b.connect(1, ChainId::Main);
            b.drive(3, None);
            b.seen.clear();
            let c = match name {
                "growth-short-requested" => ChainId::ExtShort,
                "growth-long-requested" => ChainId::ExtLong,
                "fork-short-requested" => ChainId::ForkShort,
                _ => ChainId::ForkMid,
            };
            b.announce(1, c);
            let s = b.drive(3, Some(("GetLastStateProof", 1)));
            need!(s, "no new prove request");
        }
        "restart-fork-requested" | "long-fork-rerequested" => {
            b.connect(1, ChainId::Main);
            b.drive(3, None);
            b.restart();
            let (c, k) = if name == "restart-fork-requested" { (ChainId::ForkShort, 1) } else { (ChainId::ForkLong, 2) };
            b.connect(1, c);
            let s = b.drive(3, Some(("GetLastStateProof", k)));
            need!(s, "no prove request after the restart");
        }
        "tau-rerequested" => {
            b.connect(1, ChainId::TauBad);
            let s = b.drive(3, Some(("GetLastStateProof", 2)));
            need!(s, "no second prove request (tau)");
        }
        "fetching" => {
            b.connect(1, ChainId::Main);
            b.drive(3, None);
            let main = world.main();
            fetch_headers = vec![main.block(7).hash(), main.block(tip / 2).hash(), [0xe1u8; 32].pack()];
            for n in world.active_blocks.iter().take(2).chain(world.active_blocks.iter().rev().take(1)) {
                fetch_txs.push(main.block(*n).transaction(1).expect("active block").hash());
            }
            fetch_txs.push([0xe2u8; 32].pack());
            let rpc = b.node.chain_rpc();
            for h in &fetch_headers {
                rpc.fetch_header(h.unpack()).map_err(|e| format!("fetch_header: {:?}", e))?;
            }
            let rpc = b.node.tx_rpc();
            for h in &fetch_txs {
                rpc.fetch_transaction(h.unpack()).map_err(|e| format!("fetch_transaction: {:?}", e))?;
            }
            drop(rpc);
            b.node.notify_lc(crate::protocols::light_client::verif_exports::constant::FETCH_HEADER_TX_TOKEN);
            let o = b.node.collect();
            need!(o.len() >= 2, "fetch requests were not sent");
            b.outstanding = o;
        }
        "filter-hashes-requested" | "cp-hashes-requested" => {
            b.connect(1, ChainId::Main);
            let s = b.drive(12, Some(("GetBlockFilterHashes", 1)));
            need!(s, "no GetBlockFilterHashes");
        }
        "cp-checkpoints-requested" => {
            b.connect(1, ChainId::Main);
            let s = b.drive(12, Some(("GetBlockFilterCheckPoints", 1)));
            need!(s, "no GetBlockFilterCheckPoints");
        }
        "cp-partial-cache" => {
            b.connect(1, ChainId::Main);
            let s = b.drive(12, Some(("GetBlockFilterHashes", 1)));
            need!(s, "no GetBlockFilterHashes");
            // the peer answers with the first three hashes only
            let (_, peer, data) = b
                .outstanding
                .iter()
                .find(|(p, _, d)| request_name(*p, d) == "GetBlockFilterHashes")
                .cloned()
                .ok_or("no hashes request")?;
            let m = packed::BlockFilterMessage::from_slice(&data).map_err(|e| e.to_string())?;
            if let packed::BlockFilterMessageUnion::GetBlockFilterHashes(req) = m.to_enum() {
                let full = server::get_block_filter_hashes(world.main(), &req).ok_or("no reply")?;
                let short: Vec<Byte32> = full.block_filter_hashes().into_iter().take(3).collect();
                let reply = full.as_builder().block_filter_hashes(short.pack()).build();
                b.outstanding.clear();
                b.node.deliver(peer, Proto::Filter.id(), filter_msg(reply));
                let o = b.node.collect();
                b.outstanding = o;
            }
        }
        n if n == "filters-requested" || n == "cp-filters-requested" || n == "two-peers-filters-requested" || n.starts_with("evil-filters-") => {
            let c = match n.strip_prefix("evil-filters-").and_then(|r| r.split('-').next()).and_then(|k| k.parse::<u8>().ok()) {
                Some(k) => ChainId::EvilFilters(k),
                None => ChainId::Main,
            };
            b.connect(1, c);
            if name == "two-peers-filters-requested" {
                b.drive(1, None);
                b.connect(2, c);
            }
            let s = b.drive(20, Some(("GetBlockFilters", 1)));
            need!(s, "no GetBlockFilters");
        }
        "matched-proof-requested" | "matched-restart" => {
            b.connect(1, ChainId::Main);
            let s = b.drive(20, Some(("GetBlocksProof", 1)));
            need!(s, "no GetBlocksProof for matched blocks");
            if name == "matched-restart" {
                b.restart();
                // the stored tip cannot be proved again: the peer's chain has grown meanwhile
                b.connect(1, ChainId::ExtShort);
                let s = b.drive(20, Some(("GetBlocksProof", 1)));
                need!(s, "no GetBlocksProof after the restart");
            }
        }
        "blocks-requested" => {
            b.connect(1, ChainId::Main);
            let s = b.drive(20, Some(("GetBlocks", 1)));
            need!(s, "no GetBlocks");
        }
        other => return Err(format!("unknown state {}", other)),
    }
    if !b.node.server_errors.is_empty() {
        return Err(format!("state {}: honest server refused: {:?}", name, b.node.server_errors));
    }
    if !b.node.bans.is_empty() {
        return Err(format!("state {}: honest peer banned: {:?}", name, b.node.bans));
    }
    let StateBuilder { node, chains, outstanding, now, seen, .. } = b;
    // the relay handler shares the node's tables
    let (relay, nc_relay) = {
        let i = node.i();
        let ckb2023 = node.consensus.hardfork_switch.ckb2023.is_vm_version_2_and_syscalls_3_enabled(0);
        let relay = RelayProtocol::new(Arc::clone(&i.pending), Arc::clone(&i.peers), node.consensus.clone(), i.storage.clone(), ckb2023);
        (relay, MockContext::new(SupportProtocols::RelayV2))
    };
    let writes = Rc::new(Cell::new(0u64));
    {
        let w = writes.clone();
        crate::verif_hooks::set_before_write(Some(Box::new(move |_| w.set(w.get() + 1))));
    }
    let mut ctx = Ctx {
        node,
        relay,
        nc_relay,
        target,
        chains,
        outstanding,
        writes,
        interval,
        last_n,
        fetch_headers,
        fetch_txs,
        now,
        seen,
    };
    if name == "relay-pending" {
        let t = tx(&[], &[(script_of(1), None, 100_0000_0000, vec![])], 777);
        ctx.node.i().pending.write().unwrap().push(t, 1000);
        ctx.nc_relay.identify(PeerIndex::new(1));
        block_on(ctx.relay.connected(as_ctx(&ctx.nc_relay), PeerIndex::new(1), "2"));
        ctx.nc_relay.take();
    }
    Ok(ctx)
}

pub fn filter_msg<T: Into<packed::BlockFilterMessageUnion>>(content: T) -> Bytes {
    packed::BlockFilterMessage::new_builder().set(content).build().as_bytes()
}
pub fn sync_msg<T: Into<packed::SyncMessageUnion>>(content: T) -> Bytes {
    packed::SyncMessage::new_builder().set(content).build().as_bytes()
}
pub fn relay_msg<T: Into<packed::RelayMessageUnion>>(content: T) -> Bytes {
    packed::RelayMessage::new_builder().set(content).build().as_bytes()
}
pub fn lc_msg<T: Into<packed::LightClientMessageUnion>>(content: T) -> Bytes {
    server::light_client_message(content)
}

/// everything of the client a message can change (store writes are counted by the hook)
pub(crate) fn fingerprint(ctx: &Ctx) -> u64 {
    let i = ctx.node.i();
    let mut s = String::new();
    let _ = write!(s, "w{};", ctx.writes.get());
    let (td, tip) = i.storage.get_last_state();
    let _ = write!(s, "ls{:x}:{:x};", td, tip.calc_header_hash());
    let _ = write!(s, "mf{};cp{};", i.storage.get_min_filtered_block_number(), i.storage.get_max_check_point_index());
    if let Some((a, n, v)) = i.storage.get_earliest_matched_blocks() {
        let _ = write!(s, "mb{}:{}:{};", a, n, v.len());
    }
    for ss in i.storage.get_filter_scripts() {
        let _ = write!(s, "s{};", ss.block_number);
    }
    let mut peers = i.peers.get_peers_index();
    peers.sort();
    for p in peers {
        let peer = match i.peers.get_peer(&p) {
            Some(x) => x,
            None => continue,
        };
        let st = match i.peers.get_state(&p) {
            Some(x) => x,
            None => continue,
        };
        let _ = write!(s, "p{}:{};", p, st);
        if let Some(ls) = st.get_last_state() {
            let _ = write!(s, "l{:x};", ls.header().hash());
        }
        if let Some(ps) = st.get_prove_state() {
            let _ = write!(s, "v{:x}:{}:{};", ps.get_last_header().header().hash(), ps.get_last_headers().len(), ps.get_reorg_last_headers().len());
        }
        if let Some(pr) = st.get_prove_request() {
            let _ = write!(s, "r{}:{}:{};", fnv(&hex(pr.get_content().as_slice())), pr.if_skip_check_tau(), pr.if_long_fork_detected());
        }
        if let Some(r) = peer.get_blocks_proof_request() {
            let _ = write!(s, "bp{}:{:x}:{};", r.block_hashes().len(), r.last_hash(), r.should_get_blocks());
        }
        if let Some(r) = peer.get_blocks_request() {
            let _ = write!(s, "br{};", r.finished());
        }
        if let Some(r) = peer.get_txs_proof_request() {
            let _ = write!(s, "tp{}:{:x};", r.tx_hashes().len(), r.last_hash());
        }
    }
    let mut hs: Vec<String> = i.peers.get_headers_to_fetch().iter().map(|h| format!("{:x}", h)).collect();
    hs.sort();
    let mut ts: Vec<String> = i.peers.get_txs_to_fetch().iter().map(|h| format!("{:x}", h)).collect();
    ts.sort();
    let _ = write!(s, "fh{:?};ft{:?};", hs, ts);
    for h in &ctx.fetch_headers {
        let _ = write!(s, "{:?};", i.peers.get_header_fetch_info(h));
    }
    for h in &ctx.fetch_txs {
        let _ = write!(s, "{:?};", i.peers.get_tx_fetch_info(h));
    }
    match i.peers.matched_blocks().read() {
        Ok(m) => {
            let mut v: Vec<String> = m.iter().map(|(k, (p, b))| format!("{:x}:{}:{}", k, p, b.is_some())).collect();
            v.sort();
            let _ = write!(s, "m{:?};", v);
        }
        Err(_) => s.push_str("m-poisoned;"),
    }
    let (ci, ch) = i.peers.get_cached_block_filter_hashes();
    let _ = write!(s, "c{}:{};", ci, ch.len());
    let max_cp = i.storage.get_max_check_point_index();
    let _ = write!(s, "lt{};", i.peers.get_latest_block_filter_hashes(max_cp).len());
    let mut cps: Vec<String> = i
        .peers
        .get_all_proved_check_points()
        .into_iter()
        .map(|(p, (a, v))| format!("{}:{}:{}", p, a, v.len()))
        .collect();
    cps.sort();
    let _ = write!(s, "k{:?};", cps);
    fnv(&s)
}

// ---------------------------------------------------------------------------------------------
// boundary values and field mutations

fn b64(honest: u64) -> Vec<u64> {
    let mut v = vec![0, 1, u32::MAX as u64, u64::MAX, honest.wrapping_sub(1), honest.wrapping_add(1)];
    v.retain(|x| *x != honest);
    v.sort();
    v.dedup();
    v
}

fn b32(honest: u32) -> Vec<u32> {
    let mut v = vec![0, 1, u32::MAX, honest.wrapping_sub(1), honest.wrapping_add(1), 0x2000_0001, 0x0100_0001];
    v.retain(|x| *x != honest);
    v.sort();
    v.dedup();
    v
}

fn u256_max() -> U256 {
    U256::max_value()
}

fn b256(honest: &U256) -> Vec<U256> {
    let one = U256::one();
    let mut v = vec![U256::zero(), one.clone(), U256::from(u32::MAX), U256::from(u64::MAX), u256_max()];
    if honest > &U256::zero() {
        v.push(honest - &one);
    }
    if honest < &u256_max() {
        v.push(honest + &one);
    }
    v.retain(|x| x != honest);
    v.sort();
    v.dedup();
    v
}

fn bepoch(honest: u64) -> Vec<u64> {
    let e = EpochNumberWithFraction::from_full_value_unchecked(honest);
    let f = |n: u64, i: u64, l: u64| EpochNumberWithFraction::new_unchecked(n, i, l).full_value();
    let mut v = vec![
        0,
        1,
        u32::MAX as u64,
        u64::MAX,
        f(e.number(), 0, 0),
        f(e.number(), e.index(), 0),
        f(e.number(), e.length(), e.length()),
        f(e.number() + 1, 0, e.length()),
        f(e.number().wrapping_sub(1) & 0xff_ffff, e.index(), e.length()),
        f(0xff_ffff, 0xffff, 0xffff),
        f(e.number(), 0xffff, 1),
    ];
    v.retain(|x| *x != honest);
    v.sort();
    v.dedup();
    v
}

#[derive(Clone, Debug)]
enum VMut {
    HNumber(u64),
    HEpoch(u64),
    HCt(u32),
    HTs(u64),
    HVersion(u32),
    HParent(u8),
    HNonce(u128),
    HTxRoot(u8),
    Uncles(u8),
    Ext(Option<Vec<u8>>),
    DTd(U256),
    DStartN(u64),
    DEndN(u64),
    DStartE(u64),
    DEndE(u64),
    DStartTs(u64),
    DEndTs(u64),
    DStartCt(u32),
    DEndCt(u32),
    DChildren(u8),
    DDefault,
}

fn hdr_apply(h: &packed::Header, m: &VMut) -> packed::Header {
    let raw = h.raw();
    let rb = raw.as_builder();
    let rb = match m {
        VMut::HNumber(v) => rb.number(v.pack()),
        VMut::HEpoch(v) => rb.epoch(v.pack()),
        VMut::HCt(v) => rb.compact_target(v.pack()),
        VMut::HTs(v) => rb.timestamp(v.pack()),
        VMut::HVersion(v) => rb.version(v.pack()),
        VMut::HParent(v) => rb.parent_hash([*v; 32].pack()),
        VMut::HTxRoot(v) => rb.transactions_root([*v; 32].pack()),
        _ => rb,
    };
    let hb = h.clone().as_builder().raw(rb.build());
    match m {
        VMut::HNonce(v) => hb.nonce(v.pack()).build(),
        _ => hb.build(),
    }
}

fn digest_apply(d: &packed::HeaderDigest, m: &VMut) -> packed::HeaderDigest {
    let b = d.clone().as_builder();
    match m {
        VMut::DTd(v) => b.total_difficulty(v.pack()),
        VMut::DStartN(v) => b.start_number(v.pack()),
        VMut::DEndN(v) => b.end_number(v.pack()),
        VMut::DStartE(v) => b.start_epoch(v.pack()),
        VMut::DEndE(v) => b.end_epoch(v.pack()),
        VMut::DStartTs(v) => b.start_timestamp(v.pack()),
        VMut::DEndTs(v) => b.end_timestamp(v.pack()),
        VMut::DStartCt(v) => b.start_compact_target(v.pack()),
        VMut::DEndCt(v) => b.end_compact_target(v.pack()),
        VMut::DChildren(v) => b.children_hash([*v; 32].pack()),
        VMut::DDefault => return Default::default(),
        _ => b,
    }
    .build()
}

fn vh_apply(vh: &packed::VerifiableHeader, m: &VMut) -> packed::VerifiableHeader {
    let b = vh.clone().as_builder();
    match m {
        VMut::Uncles(v) => b.uncles_hash([*v; 32].pack()).build(),
        VMut::Ext(e) => {
            let opt: Option<packed::Bytes> = e.as_ref().map(|x| x.pack());
            b.extension(Pack::pack(&opt)).build()
        }
        VMut::DTd(_) | VMut::DStartN(_) | VMut::DEndN(_) | VMut::DStartE(_) | VMut::DEndE(_) | VMut::DStartTs(_)
        | VMut::DEndTs(_) | VMut::DStartCt(_) | VMut::DEndCt(_) | VMut::DChildren(_) | VMut::DDefault => {
            b.parent_chain_root(digest_apply(&vh.parent_chain_root(), m)).build()
        }
        _ => b.header(hdr_apply(&vh.header(), m)).build(),
    }
}

/// recomputes the extension (hash of the parent chain root) and the header's extra hash, so
/// that the chain root check of the client passes for whatever the fields say
fn seal(vh: &packed::VerifiableHeader) -> packed::VerifiableHeader {
    let root_hash = vh.parent_chain_root().calc_mmr_hash();
    let ext: packed::Bytes = root_hash.as_bytes().pack();
    let extra = ExtraHashView::new(vh.uncles_hash(), Some(ext.calc_raw_data_hash())).extra_hash();
    let h = vh.header();
    let raw = h.raw().as_builder().extra_hash(extra).build();
    vh.clone()
        .as_builder()
        .header(h.as_builder().raw(raw).build())
        .extension(Pack::pack(&Some(ext)))
        .build()
}

fn vmuts(vh: &packed::VerifiableHeader, full: bool) -> Vec<(String, VMut)> {
    let h = vh.header().into_view();
    let d = vh.parent_chain_root();
    let mut out: Vec<(String, VMut)> = Vec::new();
    for v in b64(h.number()) {
        out.push((format!("number={}", v), VMut::HNumber(v)));
    }
    for v in bepoch(h.epoch().full_value()) {
        out.push((format!("epoch={:#x}", v), VMut::HEpoch(v)));
    }
    for v in b32(h.compact_target()) {
        out.push((format!("compact_target={:#x}", v), VMut::HCt(v)));
    }
    for v in b64(h.timestamp()) {
        out.push((format!("timestamp={}", v), VMut::HTs(v)));
    }
    let td: U256 = d.total_difficulty().unpack();
    for v in b256(&td) {
        out.push((format!("root.td={:#x}", v), VMut::DTd(v)));
    }
    for v in b64(d.start_number().unpack()) {
        out.push((format!("root.start_number={}", v), VMut::DStartN(v)));
    }
    for v in b64(d.end_number().unpack()) {
        out.push((format!("root.end_number={}", v), VMut::DEndN(v)));
    }
    out.push(("root=default".into(), VMut::DDefault));
    out.push(("ext=none".into(), VMut::Ext(None)));
    out.push(("ext=empty".into(), VMut::Ext(Some(vec![]))));
    out.push(("ext=garbage32".into(), VMut::Ext(Some(vec![0x5a; 32]))));
    if full {
        for v in [0u32, 1, u32::MAX] {
            out.push((format!("version={}", v), VMut::HVersion(v)));
        }
        out.push(("parent_hash=garbage".into(), VMut::HParent(0x77)));
        out.push(("tx_root=garbage".into(), VMut::HTxRoot(0x78)));
        out.push(("nonce=max".into(), VMut::HNonce(u128::MAX)));
        out.push(("uncles_hash=garbage".into(), VMut::Uncles(0x79)));
        out.push(("ext=long".into(), VMut::Ext(Some(vec![0x11; 4096]))));
        out.push(("root.children=garbage".into(), VMut::DChildren(0x7a)));
        for v in bepoch(d.start_epoch().unpack()) {
            out.push((format!("root.start_epoch={:#x}", v), VMut::DStartE(v)));
        }
        for v in bepoch(d.end_epoch().unpack()) {
            out.push((format!("root.end_epoch={:#x}", v), VMut::DEndE(v)));
        }
        for v in b64(d.start_timestamp().unpack()) {
            out.push((format!("root.start_ts={}", v), VMut::DStartTs(v)));
        }
        for v in b64(d.end_timestamp().unpack()) {
            out.push((format!("root.end_ts={}", v), VMut::DEndTs(v)));
        }
        for v in b32(d.start_compact_target().unpack()) {
            out.push((format!("root.start_ct={:#x}", v), VMut::DStartCt(v)));
        }
        for v in b32(d.end_compact_target().unpack()) {
            out.push((format!("root.end_ct={:#x}", v), VMut::DEndCt(v)));
        }
    }
    out
}

/// (label, header) raw and sealed
fn vh_variants(vh: &packed::VerifiableHeader, full: bool) -> Vec<(String, packed::VerifiableHeader)> {
    let mut out = Vec::new();
    for (label, m) in vmuts(vh, full) {
        let raw = vh_apply(vh, &m);
        out.push((format!("{}:sealed", label), seal(&raw)));
        out.push((format!("{}:raw", label), raw));
    }
    out
}

fn garbage_digest(rng: &mut Rng) -> packed::HeaderDigest {
    let mut h = [0u8; 32];
    for b in h.iter_mut() {
        *b = rng.next() as u8;
    }
    packed::HeaderDigest::new_builder()
        .children_hash(h.pack())
        .total_difficulty(U256::from(rng.next()).pack())
        .start_number(rng.below(300).pack())
        .end_number(rng.below(300).pack())
        .build()
}

fn digest_vec(v: Vec<packed::HeaderDigest>) -> packed::HeaderDigestVec {
    packed::HeaderDigestVec::new_builder().set(v).build()
}

/// (label, proof)
fn proof_variants(p: &packed::HeaderDigestVec, rng: &mut Rng, long: usize) -> Vec<(String, packed::HeaderDigestVec)> {
    let items: Vec<packed::HeaderDigest> = p.clone().into_iter().collect();
    let mut out = Vec::new();
    out.push(("proof=empty".to_string(), digest_vec(vec![])));
    if !items.is_empty() {
        out.push(("proof=drop-first".into(), digest_vec(items[1..].to_vec())));
        out.push(("proof=drop-last".into(), digest_vec(items[..items.len() - 1].to_vec())));
        let mut r = items.clone();
        r.reverse();
        out.push(("proof=reversed".into(), digest_vec(r)));
        let mut d = items.clone();
        d.push(items[0].clone());
        out.push(("proof=dup-first".into(), digest_vec(d)));
        let mut d2 = items.clone();
        d2.extend(items.clone());
        out.push(("proof=doubled".into(), digest_vec(d2)));
        for (label, m) in [
            ("td=max", VMut::DTd(u256_max())),
            ("td=0", VMut::DTd(U256::zero())),
            ("start_number=max", VMut::DStartN(u64::MAX)),
            ("end_number=max", VMut::DEndN(u64::MAX)),
            ("end_number=0", VMut::DEndN(0)),
            ("start_epoch=max", VMut::DStartE(u64::MAX)),
            ("end_epoch=len0", VMut::DEndE(EpochNumberWithFraction::new_unchecked(3, 0, 0).full_value())),
            ("end_ts=max", VMut::DEndTs(u64::MAX)),
            ("start_ct=0", VMut::DStartCt(0)),
            ("end_ct=max", VMut::DEndCt(u32::MAX)),
            ("default", VMut::DDefault),
        ] {
            for pos in [0, items.len() - 1] {
                let mut v = items.clone();
                v[pos] = digest_apply(&v[pos], &m);
                out.push((format!("proof[{}].{}", if pos == 0 { "first" } else { "last" }, label), digest_vec(v)));
            }
        }
    }
    out.push(("proof=garbage1".into(), digest_vec(vec![garbage_digest(rng)])));
    out.push(("proof=garbage8".into(), digest_vec((0..8).map(|_| garbage_digest(rng)).collect())));
    let mut l = items.clone();
    while l.len() < long {
        l.push(garbage_digest(rng));
    }
    out.push((format!("proof=extended{}", long), digest_vec(l)));
    out
}

fn vhvec(v: Vec<packed::VerifiableHeader>) -> packed::VerifiableHeaderVec {
    packed::VerifiableHeaderVec::new_builder().set(v).build()
}

fn byte32s(n: usize, tag: u8) -> Vec<Byte32> {
    (0..n)
        .map(|i| {
            let mut h = [tag; 32];
            h[..8].copy_from_slice(&(i as u64).to_le_bytes());
            h.pack()
        })
        .collect()
}

/// Rebuilds a molecule table with `extra` raw fields appended after its own fields.
fn table_with_extra_fields(table: &[u8], extra: &[Vec<u8>]) -> Vec<u8> {
    let n = |b: &[u8]| u32::from_le_bytes([b[0], b[1], b[2], b[3]]) as usize;
    let total = n(table);
    let first = n(&table[4..]);
    let count = first / 4 - 1;
    let mut offsets: Vec<usize> = (0..count).map(|i| n(&table[4 + 4 * i..])).collect();
    offsets.push(total);
    let fields: Vec<&[u8]> = (0..count).map(|i| &table[offsets[i]..offsets[i + 1]]).collect();
    let new_count = count + extra.len();
    let header = 4 + 4 * new_count;
    let mut body: Vec<u8> = Vec::new();
    let mut offs: Vec<u32> = Vec::new();
    for f in fields.iter().map(|f| f.to_vec()).chain(extra.iter().cloned()) {
        offs.push((header + body.len()) as u32);
        body.extend_from_slice(&f);
    }
    let mut out = ((header + body.len()) as u32).to_le_bytes().to_vec();
    for o in offs {
        out.extend_from_slice(&o.to_le_bytes());
    }
    out.extend_from_slice(&body);
    out
}

/// extra field pairs for the V1 forms of SendBlocksProof / SendTransactionsProof
fn v1_extra_variants(uncles: &[Byte32], exts: &[packed::BytesOpt]) -> Vec<(String, Vec<Vec<u8>>)> {
    let uh = |v: Vec<Byte32>| v.pack().as_slice().to_vec();
    let ex = |v: Vec<packed::BytesOpt>| packed::BytesOptVec::new_builder().set(v).build().as_slice().to_vec();
    let honest_u = uh(uncles.to_vec());
    let honest_e = ex(exts.to_vec());
    let mut out: Vec<(String, Vec<Vec<u8>>)> = vec![
        ("v1=honest".into(), vec![honest_u.clone(), honest_e.clone()]),
        ("v1=one-extra-field".into(), vec![honest_u.clone()]),
        ("v1=three-extra-fields".into(), vec![honest_u.clone(), honest_e.clone(), vec![1, 2, 3]]),
        ("v1=both-zero-length".into(), vec![vec![], vec![]]),
        ("v1=uncles-zero-length".into(), vec![vec![], honest_e.clone()]),
        ("v1=ext-zero-length".into(), vec![honest_u.clone(), vec![]]),
        ("v1=uncles-3-bytes".into(), vec![vec![1, 2, 3], honest_e.clone()]),
        ("v1=uncles-count-max".into(), vec![vec![0xff, 0xff, 0xff, 0xff], honest_e.clone()]),
        ("v1=uncles-count-1-no-items".into(), vec![vec![1, 0, 0, 0], honest_e.clone()]),
        ("v1=ext-size-max".into(), vec![honest_u.clone(), vec![0xff, 0xff, 0xff, 0xff]]),
        ("v1=ext-garbage".into(), vec![honest_u.clone(), vec![12, 0, 0, 0, 0xff, 0xff, 0xff, 0xff, 9, 9, 9, 9]]),
        ("v1=ext-offsets-beyond".into(), vec![honest_u.clone(), vec![12, 0, 0, 0, 8, 0, 0, 0, 200, 0, 0, 0]]),
        ("v1=uncles-empty-vec".into(), vec![uh(vec![]), honest_e.clone()]),
        ("v1=ext-empty-vec".into(), vec![honest_u.clone(), ex(vec![])]),
        ("v1=ext-all-none".into(), vec![honest_u.clone(), ex(vec![Default::default(); exts.len()])]),
        ("v1=uncles-garbage".into(), vec![uh(byte32s(uncles.len(), 0x3c)), honest_e.clone()]),
        ("v1=uncles-2000".into(), vec![uh(byte32s(2000, 0x3d)), honest_e.clone()]),
    ];
    if !exts.is_empty() {
        let mut e = exts.to_vec();
        let g: Option<packed::Bytes> = Some(vec![0u8; 7].pack());
        e[0] = Pack::pack(&g);
        out.push(("v1=ext0-garbage".into(), vec![honest_u.clone(), ex(e)]));
        let mut e = exts.to_vec();
        e.pop();
        out.push(("v1=ext-one-less".into(), vec![honest_u.clone(), ex(e)]));
        let mut u = uncles.to_vec();
        u.pop();
        out.push(("v1=uncles-one-less".into(), vec![uh(u), honest_e]));
    }
    out
}

// ---------------------------------------------------------------------------------------------
// message generators: replies to outstanding requests

struct Gen<'a> {
    world: &'a World,
    sopts: ServerOpts,
    full: bool,
    rng: Rng,
    out: Vec<Case>,
}

impl<'a> Gen<'a> {
    fn push(&mut self, proto: Proto, peer: usize, bytes: Bytes, kind: String) {
        self.out.push(Case::one(proto, peer, bytes, kind));
    }

    fn send_last_state(&mut self, peer: usize, chain: &SimChain, tag: &str) {
        let honest = server::send_last_state(chain);
        self.push(Proto::Lc, peer, lc_msg(honest.clone()), format!("{}:honest", tag));
        for (label, vh) in vh_variants(&honest.last_header(), true) {
            let m = packed::SendLastState::new_builder().last_header(vh).build();
            self.push(Proto::Lc, peer, lc_msg(m.clone()), format!("{}:last_header.{}", tag, label));
            // an accepted last state stays in the peer state: the next announcement (and the
            // timers) compute with its numbers
            self.out.push(Case {
                steps: vec![
                    Step::Msg(Proto::Lc, peer, lc_msg(m)),
                    Step::Tick,
                    Step::Msg(Proto::Lc, peer, lc_msg(honest.clone())),
                ],
                kind: format!("{}:last_header.{}+honest-last-state", tag, label),
            });
        }
        // other blocks of the chain as the tip
        let tip = chain.tip_number();
        for n in [0u64, 1, tip / 2, tip - 1] {
            let m = packed::SendLastState::new_builder().last_header(chain.verifiable_header(n)).build();
            self.push(Proto::Lc, peer, lc_msg(m), format!("{}:last_header=block{}", tag, if n <= 1 { n.to_string() } else if n == tip - 1 { "tip-1".into() } else { "mid".into() }));
        }
    }

    fn last_state_proof(&mut self, peer: usize, chain: &SimChain, req: &packed::GetLastStateProof, tag: &str) {
        let full = self.full;
        let honest = match server::get_last_state_proof(chain, req, &self.sopts) {
            Ok(h) => h,
            Err(_) => return,
        };
        let numbers = server::last_state_proof_numbers(chain, req, &self.sopts).ok().flatten();
        self.push(Proto::Lc, peer, lc_msg(honest.clone()), format!("{}:honest", tag));
        let lh = honest.last_header();
        let hdrs: Vec<packed::VerifiableHeader> = honest.headers().into_iter().collect();
        // ---- last header
        for (label, vh) in vh_variants(&lh, true) {
            let m = honest.clone().as_builder().last_header(vh.clone()).build();
            self.push(Proto::Lc, peer, lc_msg(m), format!("{}:last_header.{}", tag, label));
            // the "tip state" form: no proof, no headers
            let m = packed::SendLastStateProof::new_builder().last_header(vh).build();
            self.push(Proto::Lc, peer, lc_msg(m), format!("{}:tip-state.last_header.{}", tag, label));
        }
        for (id, c) in self.world.chains.iter() {
            let m = packed::SendLastStateProof::new_builder().last_header(c.verifiable_header(c.tip_number())).build();
            self.out.push(Case::one(Proto::Lc, peer, lc_msg(m), format!("{}:tip-state={:?}", tag, id)));
        }
        let m = honest.clone().as_builder().proof(Default::default()).build();
        self.push(Proto::Lc, peer, lc_msg(m), format!("{}:proof=empty", tag));
        // ---- proof
        let mut r = self.rng.fork();
        for (label, p) in proof_variants(&honest.proof(), &mut r, 2500) {
            let m = honest.clone().as_builder().proof(p).build();
            self.push(Proto::Lc, peer, lc_msg(m), format!("{}:{}", tag, label));
        }
        // ---- headers: structure (same proof)
        let mut structs: Vec<(String, Vec<packed::VerifiableHeader>)> = vec![("headers=empty".into(), vec![])];
        if !hdrs.is_empty() {
            let n = hdrs.len();
            structs.push(("headers=first-only".into(), vec![hdrs[0].clone()]));
            structs.push(("headers=last-only".into(), vec![hdrs[n - 1].clone()]));
            structs.push(("headers=drop-first".into(), hdrs[1..].to_vec()));
            structs.push(("headers=drop-last".into(), hdrs[..n - 1].to_vec()));
            let mut v = hdrs.clone();
            v.remove(n / 2);
            structs.push(("headers=drop-middle".into(), v));
            let mut v = hdrs.clone();
            v.insert(n / 2, hdrs[n / 2].clone());
            structs.push(("headers=dup-middle".into(), v));
            let mut v = hdrs.clone();
            v.push(hdrs[n - 1].clone());
            structs.push(("headers=dup-last".into(), v));
            let mut v = hdrs.clone();
            v.reverse();
            structs.push(("headers=reversed".into(), v));
            if n >= 2 {
                let mut v = hdrs.clone();
                v.swap(n - 1, n - 2);
                structs.push(("headers=swap-last-two".into(), v));
                let mut v = hdrs.clone();
                v.swap(0, 1);
                structs.push(("headers=swap-first-two".into(), v));
            }
            let mut v = hdrs.clone();
            v.extend(hdrs.clone());
            structs.push(("headers=doubled".into(), v));
            let mut v = hdrs.clone();
            v.push(lh.clone());
            structs.push(("headers=plus-last-header".into(), v));
            let mut v = vec![chain.verifiable_header(0)];
            v.extend(hdrs.clone());
            structs.push(("headers=genesis-prepended".into(), v));
            // long: ascending fabricated headers up to the honest ones
            let base = hdrs[0].clone();
            let mut v: Vec<packed::VerifiableHeader> = Vec::new();
            let first: u64 = base.header().raw().number().unpack();
            for i in 0..2200u64 {
                if i < first {
                    v.push(vh_apply(&base, &VMut::HNumber(i)));
                }
            }
            v.extend(hdrs.clone());
            structs.push((format!("headers=fabricated-prefix{}", v.len() - n), v));
            let mut v = hdrs.clone();
            let lastn: u64 = hdrs[n - 1].header().raw().number().unpack();
            for i in 0..2200u64 {
                v.push(vh_apply(&hdrs[n - 1], &VMut::HNumber(lastn + 1 + i)));
            }
            structs.push(("headers=fabricated-suffix2200".into(), v));
            structs.push(("headers=2500-copies".into(), vec![hdrs[0].clone(); 2500]));
        }
        for (label, v) in structs {
            let m = honest.clone().as_builder().headers(vhvec(v)).build();
            self.push(Proto::Lc, peer, lc_msg(m), format!("{}:{}", tag, label));
        }
        // ---- headers: sections with a VALID proof for the changed set
        if let Some((last, reorg, sampled, last_n)) = numbers {
            let mk = |nums: &[u64]| -> Option<packed::SendLastStateProof> {
                let mut nums: Vec<u64> = nums.to_vec();
                nums.sort();
                nums.dedup();
                nums.retain(|n| *n < last);
                let proof = chain.try_mmr_proof(last, &nums).ok()?;
                Some(
                    packed::SendLastStateProof::new_builder()
                        .last_header(chain.verifiable_header(last))
                        .proof(proof)
                        .headers(vhvec(nums.iter().map(|n| chain.verifiable_header(*n)).collect()))
                        .build(),
                )
            };
            let cat = |a: &[u64], b: &[u64], c: &[u64]| -> Vec<u64> { a.iter().chain(b.iter()).chain(c.iter()).cloned().collect() };
            let start: u64 = req.start_number().unpack();
            let ln = self.world_last_n();
            let mut sets: Vec<(String, Vec<u64>)> = vec![
                ("only-reorg".into(), reorg.clone()),
                ("only-sampled".into(), sampled.clone()),
                ("only-last-n".into(), last_n.clone()),
                ("reorg+sampled".into(), cat(&reorg, &sampled, &[])),
                ("reorg+last-n".into(), cat(&reorg, &[], &last_n)),
                ("sampled+last-n".into(), cat(&[], &sampled, &last_n)),
                ("all-blocks".into(), (1..last).collect()),
                ("all-blocks-from-genesis".into(), (0..last).collect()),
                ("all-since-start".into(), (start..last).collect()),
                ("last-block-only".into(), vec![last - 1]),
                ("last-2n".into(), (last.saturating_sub(2 * ln)..last).collect()),
                ("last-n-exact".into(), (last.saturating_sub(ln)..last).collect()),
                ("last-n-minus-1".into(), (last.saturating_sub(ln.saturating_sub(1))..last).collect()),
                ("genesis-only".into(), vec![0]),
            ];
            if start >= 1 {
                // a reorg section where none (or another one) is expected
                sets.push(("fake-reorg+rest".into(), cat(&(start.saturating_sub(ln).max(1)..start).collect::<Vec<_>>(), &sampled, &last_n)));
                sets.push(("fake-reorg-only".into(), (start.saturating_sub(ln).max(1)..start).collect()));
                sets.push(("reorg-from-1".into(), cat(&(1..start).collect::<Vec<_>>(), &sampled, &last_n)));
                sets.push(("reorg-short+rest".into(), cat(&[start - 1], &sampled, &last_n)));
                sets.push(("reorg-last-missing+rest".into(), cat(&(start.saturating_sub(ln + 1).max(1)..start - 1).collect::<Vec<_>>(), &sampled, &last_n)));
            }
            if last_n.len() >= 2 {
                sets.push(("last-n-drop-first".into(), cat(&reorg, &sampled, &last_n[1..])));
                sets.push(("last-n-drop-last".into(), cat(&reorg, &sampled, &last_n[..last_n.len() - 1])));
                sets.push(("last-n-drop-middle".into(), {
                    let mut l = last_n.clone();
                    l.remove(l.len() / 2);
                    cat(&reorg, &sampled, &l)
                }));
            }
            if sampled.len() >= 2 {
                sets.push(("sampled-drop-first".into(), cat(&reorg, &sampled[1..], &last_n)));
                sets.push(("sampled-drop-last".into(), cat(&reorg, &sampled[..sampled.len() - 1], &last_n)));
                sets.push(("sampled-every-other".into(), cat(&reorg, &sampled.iter().step_by(2).cloned().collect::<Vec<_>>(), &last_n)));
                sets.push(("sampled-first-only".into(), cat(&reorg, &sampled[..1], &last_n)));
            }
            for (label, nums) in sets {
                if let Some(m) = mk(&nums) {
                    self.push(Proto::Lc, peer, lc_msg(m), format!("{}:valid-proof:{}", tag, label));
                }
            }
            // ---- single header fields at the section borders
            let mut positions: Vec<(String, usize)> = Vec::new();
            let (r, s, l) = (reorg.len(), sampled.len(), last_n.len());
            if r > 0 {
                positions.push(("reorg-first".into(), 0));
                positions.push(("reorg-last".into(), r - 1));
            }
            if s > 0 {
                positions.push(("sampled-first".into(), r));
                positions.push(("sampled-last".into(), r + s - 1));
            }
            if l > 0 {
                positions.push(("last-n-first".into(), r + s));
                positions.push(("last-n-last".into(), r + s + l - 1));
            }
            positions.dedup_by_key(|p| p.1);
            for (pname, pos) in positions {
                if pos >= hdrs.len() {
                    continue;
                }
                for (label, vh) in vh_variants(&hdrs[pos], full) {
                    let mut v = hdrs.clone();
                    v[pos] = vh;
                    let m = honest.clone().as_builder().headers(vhvec(v)).build();
                    self.push(Proto::Lc, peer, lc_msg(m), format!("{}:headers[{}].{}", tag, pname, label));
                }
            }
        }
    }

    fn world_last_n(&self) -> u64 {
        5
    }

    fn blocks_proof(&mut self, peer: usize, chain: &SimChain, req: &packed::GetBlocksProof, tag: &str) {
        let parts = match server::get_blocks_proof(chain, req, &self.sopts) {
            Ok(p) => p,
            Err(_) => return,
        };
        let v0 = parts.v0();
        self.push(Proto::Lc, peer, lc_msg(v0.clone()), format!("{}:honest-v0", tag));
        self.push(Proto::Lc, peer, lc_msg(parts.v1()), format!("{}:honest-v1", tag));
        let requested: Vec<Byte32> = req.block_hashes().into_iter().collect();
        // ---- last header
        for (label, vh) in vh_variants(&parts.last_header, self.full) {
            let m = v0.clone().as_builder().last_header(vh.clone()).build();
            self.push(Proto::Lc, peer, lc_msg(m), format!("{}:last_header.{}", tag, label));
            let m = packed::SendBlocksProof::new_builder().last_header(vh).build();
            self.push(Proto::Lc, peer, lc_msg(m), format!("{}:tip-state.last_header.{}", tag, label));
        }
        for (id, c) in self.world.chains.iter() {
            let m = packed::SendBlocksProof::new_builder().last_header(c.verifiable_header(c.tip_number())).build();
            self.out.push(Case::one(Proto::Lc, peer, lc_msg(m), format!("{}:tip-state={:?}", tag, id)));
        }
        // ---- proof
        let mut r = self.rng.fork();
        for (label, p) in proof_variants(&parts.proof, &mut r, 2500) {
            let m = v0.clone().as_builder().proof(p).build();
            self.push(Proto::Lc, peer, lc_msg(m), format!("{}:{}", tag, label));
        }
        // ---- headers / missing
        let hs = parts.headers.clone();
        let mut variants: Vec<(String, Vec<packed::Header>, Vec<Byte32>)> = vec![
            ("all-missing".into(), vec![], requested.clone()),
            ("headers=empty".into(), vec![], parts.missing.clone()),
            ("missing=empty".into(), hs.clone(), vec![]),
            ("missing=requested-too".into(), hs.clone(), requested.clone()),
            ("missing=garbage".into(), hs.clone(), byte32s(parts.missing.len().max(1), 0x4a)),
            ("missing=2000".into(), hs.clone(), byte32s(2000, 0x4b)),
            ("headers=2000-default".into(), vec![packed::Header::default(); 2000], parts.missing.clone()),
        ];
        if !hs.is_empty() {
            let mut v = hs.clone();
            v.reverse();
            variants.push(("headers=reversed".into(), v, parts.missing.clone()));
            let mut v = hs.clone();
            v.push(hs[0].clone());
            variants.push(("headers=dup-first".into(), v, parts.missing.clone()));
            variants.push(("headers=drop-first->missing".into(), hs[1..].to_vec(), {
                let mut m = parts.missing.clone();
                m.push(hs[0].calc_header_hash());
                m
            }));
            variants.push(("headers=drop-first".into(), hs[1..].to_vec(), parts.missing.clone()));
            let h0 = packed::VerifiableHeader::new_builder().header(hs[0].clone()).build();
            for (label, m) in vmuts(&h0, false) {
                if label.starts_with("root") || label.starts_with("ext") {
                    continue;
                }
                let mut v = hs.clone();
                v[0] = hdr_apply(&v[0], &m);
                variants.push((format!("headers[0].{}", label), v, parts.missing.clone()));
            }
        }
        for (label, headers, missing) in variants {
            let m = v0.clone().as_builder().headers(headers.pack()).missing_block_hashes(missing.pack()).build();
            self.push(Proto::Lc, peer, lc_msg(m), format!("{}:{}", tag, label));
        }
        // valid proof for a subset, the rest declared missing
        if hs.len() >= 2 {
            let keep = &hs[..hs.len() - 1];
            let nums: Vec<u64> = keep.iter().map(|h| Unpack::<u64>::unpack(&h.raw().number())).collect();
            let last: u64 = parts.last_header.header().raw().number().unpack();
            if let Ok(proof) = chain.try_mmr_proof(last, &nums) {
                let mut missing = parts.missing.clone();
                missing.push(hs[hs.len() - 1].calc_header_hash());
                let m = v0.clone().as_builder().proof(proof).headers(keep.to_vec().pack()).missing_block_hashes(missing.pack()).build();
                self.push(Proto::Lc, peer, lc_msg(m), format!("{}:valid-proof:subset+missing", tag));
            }
        }
        // ---- V1 extra fields
        for (label, extra) in v1_extra_variants(&parts.uncles_hashes, &parts.extensions) {
            let t = table_with_extra_fields(v0.as_slice(), &extra);
            self.push(Proto::Lc, peer, server::wrap_under_item_id(5, &t), format!("{}:{}", tag, label));
        }
    }

    fn txs_proof(&mut self, peer: usize, chain: &SimChain, req: &packed::GetTransactionsProof, tag: &str) {
        let parts = match server::get_transactions_proof(chain, req, &self.sopts) {
            Ok(p) => p,
            Err(_) => return,
        };
        let v0 = parts.v0();
        self.push(Proto::Lc, peer, lc_msg(v0.clone()), format!("{}:honest-v0", tag));
        self.push(Proto::Lc, peer, lc_msg(parts.v1()), format!("{}:honest-v1", tag));
        let requested: Vec<Byte32> = req.tx_hashes().into_iter().collect();
        for (label, vh) in vh_variants(&parts.last_header, self.full) {
            let m = v0.clone().as_builder().last_header(vh.clone()).build();
            self.push(Proto::Lc, peer, lc_msg(m), format!("{}:last_header.{}", tag, label));
            let m = packed::SendTransactionsProof::new_builder().last_header(vh).build();
            self.push(Proto::Lc, peer, lc_msg(m), format!("{}:tip-state.last_header.{}", tag, label));
        }
        for (id, c) in self.world.chains.iter() {
            let m = packed::SendTransactionsProof::new_builder().last_header(c.verifiable_header(c.tip_number())).build();
            self.out.push(Case::one(Proto::Lc, peer, lc_msg(m), format!("{}:tip-state={:?}", tag, id)));
        }
        let mut r = self.rng.fork();
        for (label, p) in proof_variants(&parts.proof, &mut r, 2500) {
            let m = v0.clone().as_builder().proof(p).build();
            self.push(Proto::Lc, peer, lc_msg(m), format!("{}:{}", tag, label));
        }
        let fbvec = |v: Vec<packed::FilteredBlock>| packed::FilteredBlockVec::new_builder().set(v).build();
        let fbs = parts.filtered_blocks.clone();
        let mut variants: Vec<(String, Vec<packed::FilteredBlock>, Vec<Byte32>)> = vec![
            ("all-missing".into(), vec![], requested.clone()),
            ("blocks=empty".into(), vec![], parts.missing.clone()),
            ("missing=empty".into(), fbs.clone(), vec![]),
            ("missing=requested-too".into(), fbs.clone(), requested.clone()),
            ("missing=2000".into(), fbs.clone(), byte32s(2000, 0x4c)),
            ("blocks=default".into(), vec![Default::default()], requested.clone()),
            ("blocks=2000-default".into(), vec![Default::default(); 2000], requested.clone()),
        ];
        if !fbs.is_empty() {
            let mut v = fbs.clone();
            v.reverse();
            variants.push(("blocks=reversed".into(), v, parts.missing.clone()));
            let mut v = fbs.clone();
            v.push(fbs[0].clone());
            variants.push(("blocks=dup-first".into(), v, parts.missing.clone()));
            let b0 = fbs[0].clone();
            let with0 = |b: packed::FilteredBlock| {
                let mut v = fbs.clone();
                v[0] = b;
                v
            };
            let mp = |idx: Vec<u32>, lemmas: Vec<Byte32>| packed::MerkleProof::new_builder().indices(idx.pack()).lemmas(lemmas.pack()).build();
            let idx: Vec<u32> = b0.proof().indices().into_iter().map(|v| v.unpack()).collect();
            let lem: Vec<Byte32> = b0.proof().lemmas().into_iter().collect();
            let mut proofs: Vec<(String, packed::MerkleProof)> = vec![
                ("indices=empty".into(), mp(vec![], lem.clone())),
                ("lemmas=empty".into(), mp(idx.clone(), vec![])),
                ("lemmas=garbage".into(), mp(idx.clone(), byte32s(lem.len().max(1), 0x51))),
                ("lemmas=2000".into(), mp(idx.clone(), byte32s(2000, 0x52))),
                ("lemmas=dup".into(), mp(idx.clone(), lem.iter().chain(lem.iter()).cloned().collect())),
                ("indices=2000".into(), mp((0..2000).collect(), lem.clone())),
                ("proof=default".into(), Default::default()),
            ];
            for v in [0u32, 1, 2, u32::MAX, u32::MAX - 1, 0x7fff_ffff, 0x8000_0000] {
                proofs.push((format!("indices=all-{}", v), mp(vec![v; idx.len().max(1)], lem.clone())));
                if !idx.is_empty() {
                    let mut i2 = idx.clone();
                    i2[0] = v;
                    proofs.push((format!("indices[0]={}", v), mp(i2, lem.clone())));
                }
            }
            for (label, p) in proofs {
                variants.push((format!("block0.proof.{}", label), with0(b0.clone().as_builder().proof(p).build()), parts.missing.clone()));
            }
            variants.push(("block0.witnesses_root=garbage".into(), with0(b0.clone().as_builder().witnesses_root([0x53u8; 32].pack()).build()), parts.missing.clone()));
            // transactions removed: their hashes are declared missing
            let tx_hashes: Vec<Byte32> = b0.transactions().into_iter().map(|t| t.calc_tx_hash()).collect();
            let mut miss = parts.missing.clone();
            miss.extend(tx_hashes.clone());
            variants.push(("block0.txs=empty->missing".into(), with0(b0.clone().as_builder().transactions(Default::default()).build()), miss.clone()));
            variants.push((
                "block0.txs=empty,proof=default->missing".into(),
                with0(b0.clone().as_builder().transactions(Default::default()).proof(Default::default()).build()),
                miss,
            ));
            variants.push(("block0.txs=empty".into(), with0(b0.clone().as_builder().transactions(Default::default()).build()), parts.missing.clone()));
            let txs: Vec<packed::Transaction> = b0.transactions().into_iter().collect();
            let mut t2 = txs.clone();
            t2.push(txs[0].clone());
            variants.push(("block0.txs=dup".into(), with0(b0.clone().as_builder().transactions(t2.pack()).build()), parts.missing.clone()));
            let mut t3 = txs.clone();
            t3.push(Default::default());
            variants.push(("block0.txs=plus-default".into(), with0(b0.clone().as_builder().transactions(t3.pack()).build()), parts.missing.clone()));
            // header fields
            let h0 = packed::VerifiableHeader::new_builder().header(b0.header()).build();
            for (label, m) in vmuts(&h0, false) {
                if label.starts_with("root") || label.starts_with("ext") {
                    continue;
                }
                variants.push((format!("block0.header.{}", label), with0(b0.clone().as_builder().header(hdr_apply(&b0.header(), &m)).build()), parts.missing.clone()));
            }
            // the transactions under the header of another block
            if fbs.len() >= 2 {
                variants.push(("block0.header=block1".into(), with0(b0.clone().as_builder().header(fbs[1].header()).build()), parts.missing.clone()));
            }
        }
        for (label, blocks, missing) in variants {
            let m = v0.clone().as_builder().filtered_blocks(fbvec(blocks)).missing_tx_hashes(missing.pack()).build();
            self.push(Proto::Lc, peer, lc_msg(m), format!("{}:{}", tag, label));
        }
        for (label, extra) in v1_extra_variants(&parts.uncles_hashes, &parts.extensions) {
            let t = table_with_extra_fields(v0.as_slice(), &extra);
            self.push(Proto::Lc, peer, server::wrap_under_item_id(7, &t), format!("{}:{}", tag, label));
        }
    }
}

impl<'a> Gen<'a> {
    fn block_filters(&mut self, peer: usize, chain: &SimChain, req: &packed::GetBlockFilters, tag: &str) {
        let honest = match server::get_block_filters(chain, req) {
            Some(h) => h,
            None => return,
        };
        self.push(Proto::Filter, peer, filter_msg(honest.clone()), format!("{}:honest", tag));
        let start: u64 = honest.start_number().unpack();
        let hashes: Vec<Byte32> = honest.block_hashes().into_iter().collect();
        let filters: Vec<packed::Bytes> = honest.filters().into_iter().collect();
        let n = filters.len();
        for v in b64(start).into_iter().chain([start.wrapping_sub(2), start + 2, start + n as u64]) {
            let m = honest.clone().as_builder().start_number(v.pack()).build();
            self.push(Proto::Filter, peer, filter_msg(m), format!("{}:start_number={}", tag, v));
        }
        let mk = |h: Vec<Byte32>, f: Vec<packed::Bytes>| honest.clone().as_builder().block_hashes(h.pack()).filters(f.pack()).build();
        let mut variants: Vec<(String, packed::BlockFilters)> = vec![
            ("both=empty".into(), mk(vec![], vec![])),
            ("hashes=empty".into(), mk(vec![], filters.clone())),
            ("filters=empty".into(), mk(hashes.clone(), vec![])),
            ("hashes=garbage".into(), mk(byte32s(n, 0x61), filters.clone())),
            ("first-only".into(), mk(hashes[..1].to_vec(), filters[..1].to_vec())),
            ("first-3".into(), mk(hashes[..3.min(n)].to_vec(), filters[..3.min(n)].to_vec())),
            ("hashes=one-less".into(), mk(hashes[..n - 1].to_vec(), filters.clone())),
            ("filters=one-less".into(), mk(hashes.clone(), filters[..n - 1].to_vec())),
            ("2000-default-filters".into(), mk(byte32s(2000, 0x62), vec![Default::default(); 2000])),
            ("honest+2000".into(), {
                let mut h = hashes.clone();
                h.extend(byte32s(2000, 0x63));
                let mut f = filters.clone();
                f.extend(vec![packed::Bytes::default(); 2000]);
                mk(h, f)
            }),
        ];
        let garbage: Vec<(&str, Vec<u8>)> = vec![
            ("empty", vec![]),
            ("1byte", vec![0x01]),
            ("count-max", vec![0xff; 8]),
            ("count-max+data", [vec![0xff; 8], vec![0x55; 16]].concat()),
            ("count-3-no-data", 3u64.to_le_bytes().to_vec()),
            ("count-3-ones", [3u64.to_le_bytes().to_vec(), vec![0xff; 40]].concat()),
            ("count-2^61", [(1u64 << 61).to_le_bytes().to_vec(), vec![0x12; 12]].concat()),
            ("random", (0..24).map(|_| self.rng.next() as u8).collect()),
        ];
        for pos in [0usize, n - 1] {
            for (gl, g) in &garbage {
                let mut f = filters.clone();
                f[pos] = g.pack();
                variants.push((format!("filters[{}]={}", if pos == 0 { "first" } else { "last" }, gl), mk(hashes.clone(), f)));
            }
            let honest_f = filters[pos].raw_data().to_vec();
            if honest_f.len() > 9 {
                let mut f = filters.clone();
                f[pos] = honest_f[..honest_f.len() - 1].pack();
                variants.push((format!("filters[{}]=truncated", pos), mk(hashes.clone(), f)));
            }
        }
        for (gl, g) in &garbage {
            variants.push((format!("filters=all-{}", gl), mk(hashes.clone(), vec![g.pack(); n])));
        }
        for (label, m) in variants {
            self.push(Proto::Filter, peer, filter_msg(m), format!("{}:{}", tag, label));
        }
    }

    fn block_filter_hashes(&mut self, peer: usize, chain: &SimChain, req: &packed::GetBlockFilterHashes, tag: &str) {
        let honest = match server::get_block_filter_hashes(chain, req) {
            Some(h) => h,
            None => return,
        };
        self.push(Proto::Filter, peer, filter_msg(honest.clone()), format!("{}:honest", tag));
        let start: u64 = honest.start_number().unpack();
        let hashes: Vec<Byte32> = honest.block_filter_hashes().into_iter().collect();
        let n = hashes.len();
        for v in b64(start).into_iter().chain([start.wrapping_sub(2), start + 2, start + n as u64, u64::MAX - 1, u64::MAX - n as u64 + 1]) {
            let m = honest.clone().as_builder().start_number(v.pack()).build();
            self.push(Proto::Filter, peer, filter_msg(m), format!("{}:start_number={}", tag, v));
        }
        let mk = |h: Vec<Byte32>| honest.clone().as_builder().block_filter_hashes(h.pack()).build();
        let mut variants: Vec<(String, packed::BlockFilterHashes)> = vec![
            ("hashes=empty".into(), mk(vec![])),
            ("hashes=garbage".into(), mk(byte32s(n, 0x64))),
            ("hashes=2500-garbage".into(), mk(byte32s(2500, 0x65))),
            ("hashes=honest+2500".into(), {
                let mut h = hashes.clone();
                h.extend(byte32s(2500, 0x66));
                mk(h)
            }),
            ("parent=garbage".into(), honest.clone().as_builder().parent_block_filter_hash([0x67u8; 32].pack()).build()),
        ];
        for k in [1usize, 2, 3, n / 2, n.saturating_sub(1)] {
            if k >= 1 && k < n {
                variants.push((format!("hashes=first-{}", k), mk(hashes[..k].to_vec())));
            }
        }
        if n >= 2 {
            let mut h = hashes.clone();
            h[n - 1] = [0x68u8; 32].pack();
            variants.push(("hashes[last]=garbage".into(), mk(h)));
            let mut h = hashes.clone();
            h[0] = [0x69u8; 32].pack();
            variants.push(("hashes[first]=garbage".into(), mk(h)));
        }
        for (label, m) in variants {
            self.push(Proto::Filter, peer, filter_msg(m), format!("{}:{}", tag, label));
        }
        // two steps: the honest reply, then a shorter one for the same start
        for k in [1usize, 3] {
            if k < n {
                self.out.push(Case {
                    steps: vec![
                        Step::Msg(Proto::Filter, peer, filter_msg(honest.clone())),
                        Step::Msg(Proto::Filter, peer, filter_msg(mk(hashes[..k].to_vec()))),
                    ],
                    kind: format!("{}:honest-then-first-{}", tag, k),
                });
            }
        }
    }

    fn check_points(&mut self, peer: usize, chain: &SimChain, req: &packed::GetBlockFilterCheckPoints, interval: u64, tag: &str) {
        let honest = match server::get_block_filter_check_points(chain, req, interval) {
            Some(h) => h,
            None => return,
        };
        self.push(Proto::Filter, peer, filter_msg(honest.clone()), format!("{}:honest", tag));
        let start: u64 = honest.start_number().unpack();
        let hashes: Vec<Byte32> = honest.block_filter_hashes().into_iter().collect();
        let n = hashes.len();
        for v in b64(start).into_iter().chain([interval, start + interval, 2 * interval, u64::MAX / interval * interval]) {
            let m = honest.clone().as_builder().start_number(v.pack()).build();
            self.push(Proto::Filter, peer, filter_msg(m), format!("{}:start_number={}", tag, v));
        }
        let mk = |h: Vec<Byte32>| honest.clone().as_builder().block_filter_hashes(h.pack()).build();
        let mut variants: Vec<(String, packed::BlockFilterCheckPoints)> = vec![
            ("hashes=empty".into(), mk(vec![])),
            ("hashes=garbage".into(), mk(byte32s(n, 0x6a))),
            ("hashes=first+2500-garbage".into(), {
                let mut h = hashes[..1].to_vec();
                h.extend(byte32s(2500, 0x6b));
                mk(h)
            }),
            ("hashes=honest+2500".into(), {
                let mut h = hashes.clone();
                h.extend(byte32s(2500, 0x6c));
                mk(h)
            }),
        ];
        for k in [1usize, 2, 3, n.saturating_sub(1)] {
            if k >= 1 && k < n {
                variants.push((format!("hashes=first-{}", k), mk(hashes[..k].to_vec())));
            }
        }
        for (label, m) in variants {
            self.push(Proto::Filter, peer, filter_msg(m), format!("{}:{}", tag, label));
        }
    }

    fn send_blocks(&mut self, peer: usize, chain: &SimChain, req: &packed::GetBlocks, tag: &str) {
        let hashes: Vec<Byte32> = req.block_hashes().into_iter().collect();
        let blocks: Vec<packed::Block> = hashes
            .iter()
            .filter_map(|h| chain.number_of_hash(h))
            .map(|n| chain.block(n).data())
            .collect();
        if blocks.is_empty() {
            return;
        }
        let msg = |b: packed::Block| sync_msg(packed::SendBlock::new_builder().block(b).build());
        // all blocks in order: the matched blocks get indexed
        self.out.push(Case { steps: blocks.iter().map(|b| Step::Msg(Proto::Sync, peer, msg(b.clone()))).collect(), kind: format!("{}:honest-all", tag) });
        self.push(Proto::Sync, peer, msg(blocks[0].clone()), format!("{}:honest-first", tag));
        // twice the same block, then the rest
        let mut steps = vec![Step::Msg(Proto::Sync, peer, msg(blocks[0].clone()))];
        steps.extend(blocks.iter().map(|b| Step::Msg(Proto::Sync, peer, msg(b.clone()))));
        self.out.push(Case { steps, kind: format!("{}:first-twice-then-all", tag) });
        // the body of the last delivered block is changed, its header is kept
        let last = blocks[blocks.len() - 1].clone();
        let txs: Vec<packed::Transaction> = last.transactions().into_iter().collect();
        let mut bodies: Vec<(String, Vec<packed::Transaction>)> = vec![
            ("txs=empty".into(), vec![]),
            ("txs=cellbase-only".into(), txs[..1].to_vec()),
            ("txs=dup".into(), txs.iter().chain(txs.iter()).cloned().collect()),
            ("txs=default".into(), vec![Default::default()]),
            ("txs=2000-default".into(), vec![Default::default(); 2000]),
        ];
        {
            // outputs without data, inputs pointing everywhere
            let lock = self.world.scripts[0].clone();
            let out = packed::CellOutput::new_builder().lock(lock.clone()).capacity(u64::MAX.pack()).build();
            let raw = packed::RawTransaction::new_builder()
                .outputs(vec![out.clone(); 3].pack())
                .inputs(
                    vec![
                        packed::CellInput::new(packed::OutPoint::new(txs[0].calc_tx_hash(), u32::MAX), u64::MAX),
                        packed::CellInput::new(packed::OutPoint::new(txs[0].calc_tx_hash(), 0), 0),
                        packed::CellInput::new(packed::OutPoint::new(Byte32::zero(), u32::MAX), 0),
                    ]
                    .pack(),
                )
                .build();
            let t = packed::Transaction::new_builder().raw(raw).build();
            let mut v = txs.clone();
            v.push(t.clone());
            bodies.push(("txs+outputs-without-data".into(), v));
            // a transaction spending its own output and an output of a later transaction
            let raw2 = packed::RawTransaction::new_builder()
                .outputs(vec![out.clone(); 2].pack())
                .outputs_data(vec![packed::Bytes::default(); 5].pack())
                .build();
            let t2 = packed::Transaction::new_builder().raw(raw2).build();
            let raw3 = packed::RawTransaction::new_builder()
                .inputs(
                    vec![
                        packed::CellInput::new(packed::OutPoint::new(t2.calc_tx_hash(), 1), 0),
                        packed::CellInput::new(packed::OutPoint::new(t2.calc_tx_hash(), 1), 0),
                        packed::CellInput::new(packed::OutPoint::new(t2.calc_tx_hash(), 7), 0),
                    ]
                    .pack(),
                )
                .outputs(vec![out; 2000].pack())
                .build();
            let t3 = packed::Transaction::new_builder().raw(raw3).build();
            bodies.push(("txs+double-spend+2000-outputs".into(), vec![txs[0].clone(), t2, t3]));
        }
        for (label, body) in bodies {
            let b = last.clone().as_builder().transactions(body.pack()).build();
            let mut steps: Vec<Step> = blocks[..blocks.len() - 1].iter().map(|b| Step::Msg(Proto::Sync, peer, msg(b.clone()))).collect();
            steps.push(Step::Msg(Proto::Sync, peer, msg(b)));
            self.out.push(Case { steps, kind: format!("{}:last-block.{}", tag, label) });
        }
        // header fields (another hash: not a requested block)
        let h0 = packed::VerifiableHeader::new_builder().header(last.header()).build();
        for (label, m) in vmuts(&h0, false) {
            if label.starts_with("root") || label.starts_with("ext") {
                continue;
            }
            let b = last.clone().as_builder().header(hdr_apply(&last.header(), &m)).build();
            self.push(Proto::Sync, peer, msg(b), format!("{}:header.{}", tag, label));
        }
        // extra fields behind the block table
        for (label, extra) in [("ext-field", vec![vec![4u8, 0, 0, 0]]), ("ext-garbage", vec![vec![0xffu8; 3]]), ("two-extra", vec![vec![], vec![1]])] {
            let t = table_with_extra_fields(last.as_slice(), &extra);
            let sb = send_block_table(&t);
            self.push(Proto::Sync, peer, server::wrap_under_item_id(3, &sb), format!("{}:block.{}", tag, label));
        }
    }
}

/// a `SendBlock` table around raw block bytes
fn send_block_table(block: &[u8]) -> Vec<u8> {
    let mut out = ((8 + block.len()) as u32).to_le_bytes().to_vec();
    out.extend_from_slice(&8u32.to_le_bytes());
    out.extend_from_slice(block);
    out
}

// ---------------------------------------------------------------------------------------------
// messages which do not depend on an outstanding request

impl<'a> Gen<'a> {
    /// every union variant of the four protocols, default-built and with boundary numbers
    fn scratch(&mut self, peer: usize) {
        let p = peer;
        let mut lc: Vec<(String, Bytes)> = Vec::new();
        lc.push(("GetLastState:default".into(), lc_msg(packed::GetLastState::default())));
        lc.push(("GetLastState:subscribe".into(), lc_msg(packed::GetLastState::new_builder().subscribe(true.pack()).build())));
        lc.push(("SendLastState:default".into(), lc_msg(packed::SendLastState::default())));
        lc.push(("GetLastStateProof:default".into(), lc_msg(packed::GetLastStateProof::default())));
        lc.push((
            "GetLastStateProof:max".into(),
            lc_msg(
                packed::GetLastStateProof::new_builder()
                    .start_number(u64::MAX.pack())
                    .last_n_blocks(u64::MAX.pack())
                    .difficulty_boundary(u256_max().pack())
                    .difficulties(vec![Pack::<packed::Uint256>::pack(&u256_max()); 2000].pack())
                    .build(),
            ),
        ));
        lc.push(("SendLastStateProof:default".into(), lc_msg(packed::SendLastStateProof::default())));
        lc.push(("GetBlocksProof:default".into(), lc_msg(packed::GetBlocksProof::default())));
        lc.push(("GetBlocksProof:2000".into(), lc_msg(packed::GetBlocksProof::new_builder().block_hashes(byte32s(2000, 0x71).pack()).build())));
        lc.push(("SendBlocksProof:default".into(), lc_msg(packed::SendBlocksProof::default())));
        lc.push(("SendBlocksProofV1:default".into(), lc_msg(packed::SendBlocksProofV1::default())));
        lc.push(("GetTransactionsProof:default".into(), lc_msg(packed::GetTransactionsProof::default())));
        lc.push(("SendTransactionsProof:default".into(), lc_msg(packed::SendTransactionsProof::default())));
        lc.push(("SendTransactionsProofV1:default".into(), lc_msg(packed::SendTransactionsProofV1::default())));
        // default tables around headers with boundary numbers
        let base = packed::VerifiableHeader::default();
        for (label, vh) in vh_variants(&base, false) {
            lc.push((format!("SendLastState:scratch.{}", label), lc_msg(packed::SendLastState::new_builder().last_header(vh.clone()).build())));
            lc.push((format!("SendLastStateProof:scratch.{}", label), lc_msg(packed::SendLastStateProof::new_builder().last_header(vh.clone()).build())));
            lc.push((
                format!("SendLastStateProof:scratch-headers.{}", label),
                lc_msg(packed::SendLastStateProof::new_builder().headers(vhvec(vec![vh.clone(), vh.clone()])).proof(digest_vec(vec![vh.parent_chain_root()])).build()),
            ));
            lc.push((format!("SendBlocksProof:scratch.{}", label), lc_msg(packed::SendBlocksProof::new_builder().last_header(vh.clone()).headers(vec![vh.header()].pack()).build())));
            lc.push((format!("SendTransactionsProof:scratch.{}", label), lc_msg(packed::SendTransactionsProof::new_builder().last_header(vh).build())));
        }
        for (k, b) in lc {
            self.push(Proto::Lc, p, b, format!("scratch:{}", k));
        }

        let mut fl: Vec<(String, Bytes)> = Vec::new();
        for v in [0u64, 1, u32::MAX as u64, u64::MAX] {
            fl.push((format!("GetBlockFilters:{}", v), filter_msg(packed::GetBlockFilters::new_builder().start_number(v.pack()).build())));
            fl.push((format!("GetBlockFilterHashes:{}", v), filter_msg(packed::GetBlockFilterHashes::new_builder().start_number(v.pack()).build())));
            fl.push((format!("GetBlockFilterCheckPoints:{}", v), filter_msg(packed::GetBlockFilterCheckPoints::new_builder().start_number(v.pack()).build())));
            for n in [0usize, 1, 2, 2500] {
                fl.push((
                    format!("BlockFilters:start={},n={}", v, n),
                    filter_msg(packed::BlockFilters::new_builder().start_number(v.pack()).block_hashes(byte32s(n, 0x72).pack()).filters(vec![packed::Bytes::default(); n].pack()).build()),
                ));
                fl.push((
                    format!("BlockFilterHashes:start={},n={}", v, n),
                    filter_msg(packed::BlockFilterHashes::new_builder().start_number(v.pack()).block_filter_hashes(byte32s(n, 0x73).pack()).build()),
                ));
                fl.push((
                    format!("BlockFilterCheckPoints:start={},n={}", v, n),
                    filter_msg(packed::BlockFilterCheckPoints::new_builder().start_number(v.pack()).block_filter_hashes(byte32s(n, 0x74).pack()).build()),
                ));
            }
        }
        for (k, b) in fl {
            self.push(Proto::Filter, p, b, format!("scratch:{}", k));
        }

        let sy: Vec<(String, Bytes)> = vec![
            ("GetHeaders:default".into(), sync_msg(packed::GetHeaders::default())),
            ("GetHeaders:2000".into(), sync_msg(packed::GetHeaders::new_builder().block_locator_hashes(byte32s(2000, 0x75).pack()).build())),
            ("SendHeaders:default".into(), sync_msg(packed::SendHeaders::default())),
            ("SendHeaders:2000".into(), sync_msg(packed::SendHeaders::new_builder().headers(vec![packed::Header::default(); 2000].pack()).build())),
            ("GetBlocks:default".into(), sync_msg(packed::GetBlocks::default())),
            ("GetBlocks:2000".into(), sync_msg(packed::GetBlocks::new_builder().block_hashes(byte32s(2000, 0x76).pack()).build())),
            ("SendBlock:default".into(), sync_msg(packed::SendBlock::default())),
            ("InIBD".into(), sync_msg(packed::InIBD::default())),
        ];
        for (k, b) in sy {
            self.push(Proto::Sync, p, b, format!("scratch:{}", k));
        }
        // blocks of the chain nobody asked for; the genesis block
        let main = self.world.main();
        for n in [0u64, 1, self.world.tip] {
            let b = sync_msg(packed::SendBlock::new_builder().block(main.block(n).data()).build());
            self.push(Proto::Sync, p, b, format!("scratch:SendBlock:block{}", if n <= 1 { n.to_string() } else { "tip".into() }));
        }
        for n in self.world.active_blocks.iter().rev().take(6).cloned().collect::<Vec<_>>() {
            let b = sync_msg(packed::SendBlock::new_builder().block(main.block(n).data()).build());
            self.push(Proto::Sync, p, b, "scratch:SendBlock:active-block".to_string());
        }

        let pending: Vec<Byte32> = vec![tx(&[], &[(script_of(1), None, 100_0000_0000, vec![])], 777).hash()];
        let rl: Vec<(String, Bytes)> = vec![
            ("CompactBlock:default".into(), relay_msg(packed::CompactBlock::default())),
            ("RelayTransactions:default".into(), relay_msg(packed::RelayTransactions::default())),
            ("RelayTransactionHashes:default".into(), relay_msg(packed::RelayTransactionHashes::default())),
            ("RelayTransactionHashes:2000".into(), relay_msg(packed::RelayTransactionHashes::new_builder().tx_hashes(byte32s(2000, 0x77).pack()).build())),
            ("GetRelayTransactions:default".into(), relay_msg(packed::GetRelayTransactions::default())),
            ("GetRelayTransactions:pending".into(), relay_msg(packed::GetRelayTransactions::new_builder().tx_hashes(pending.clone().pack()).build())),
            ("GetRelayTransactions:pending-x3".into(), relay_msg(packed::GetRelayTransactions::new_builder().tx_hashes(vec![pending[0].clone(); 3].pack()).build())),
            ("GetRelayTransactions:5000".into(), relay_msg(packed::GetRelayTransactions::new_builder().tx_hashes(byte32s(5000, 0x78).pack()).build())),
            ("GetBlockTransactions:default".into(), relay_msg(packed::GetBlockTransactions::default())),
            ("GetBlockTransactions:max".into(), relay_msg(packed::GetBlockTransactions::new_builder().indexes(vec![u32::MAX; 2000].pack()).uncle_indexes(vec![u32::MAX; 3].pack()).build())),
            ("BlockTransactions:default".into(), relay_msg(packed::BlockTransactions::default())),
            ("GetBlockProposal:default".into(), relay_msg(packed::GetBlockProposal::default())),
            ("BlockProposal:default".into(), relay_msg(packed::BlockProposal::default())),
        ];
        for (k, b) in rl {
            self.push(Proto::Relay, p, b, format!("scratch:{}", k));
        }
    }

    /// honest-looking messages nobody asked for (built from the main chain for made-up requests)
    fn unsolicited(&mut self, peer: usize, interval: u64) {
        let world = self.world;
        let main = world.main();
        let tip = world.tip;
        // last states
        for (id, c) in world.chains.iter() {
            let m = server::send_last_state(c);
            self.push(Proto::Lc, peer, lc_msg(m), format!("unsolicited:SendLastState={:?}", id));
        }
        // child of the proved tip with a forged chain root (the fast path)
        let child = world.chain(ChainId::Child).verifiable_header(tip + 1);
        for (label, vh) in vh_variants(&child, false) {
            if !label.ends_with("sealed") {
                continue;
            }
            let m = packed::SendLastState::new_builder().last_header(vh).build();
            self.push(Proto::Lc, peer, lc_msg(m), format!("unsolicited:SendLastState=child.{}", label));
        }
        // proofs for made-up requests
        let req = packed::GetLastStateProof::new_builder()
            .last_hash(main.block(tip).hash())
            .start_hash(main.block(0).hash())
            .start_number(0u64.pack())
            .last_n_blocks(5u64.pack())
            .difficulty_boundary(main.total_difficulty(tip - 20).pack())
            .build();
        if let Ok(m) = server::get_last_state_proof(main, &req, &self.sopts) {
            self.push(Proto::Lc, peer, lc_msg(m), "unsolicited:SendLastStateProof".into());
        }
        let req = packed::GetBlocksProof::new_builder()
            .last_hash(main.block(tip).hash())
            .block_hashes(vec![main.block(3).hash(), main.block(tip / 2).hash()].pack())
            .build();
        if let Ok(parts) = server::get_blocks_proof(main, &req, &self.sopts) {
            self.push(Proto::Lc, peer, lc_msg(parts.v0()), "unsolicited:SendBlocksProof".into());
            self.push(Proto::Lc, peer, lc_msg(parts.v1()), "unsolicited:SendBlocksProofV1".into());
        }
        if let Some(n) = world.active_blocks.last() {
            let req = packed::GetTransactionsProof::new_builder()
                .last_hash(main.block(tip).hash())
                .tx_hashes(vec![main.block(*n).transaction(1).unwrap().hash()].pack())
                .build();
            if let Ok(parts) = server::get_transactions_proof(main, &req, &self.sopts) {
                self.push(Proto::Lc, peer, lc_msg(parts.v0()), "unsolicited:SendTransactionsProof".into());
                self.push(Proto::Lc, peer, lc_msg(parts.v1()), "unsolicited:SendTransactionsProofV1".into());
            }
        }
        // filter protocol: honest content for many start numbers, full and short
        let mut starts: Vec<u64> = vec![0, 1, 2, interval, interval + 1, tip - 75, tip - 74, tip - 40, tip - 39, tip - 38, tip - 30, tip - 1, tip, tip + 1];
        for k in 0..(tip / interval.max(1)).min(14) {
            starts.push(k * interval);
            starts.push(k * interval + 1);
            starts.push(k * interval + 2);
            starts.push(k * interval + 11);
        }
        starts.sort();
        starts.dedup();
        for s in starts {
            if s > tip {
                continue;
            }
            if let Some(h) = server::get_block_filter_hashes(main, &packed::GetBlockFilterHashes::new_builder().start_number(s.pack()).build()) {
                let all: Vec<Byte32> = h.block_filter_hashes().into_iter().collect();
                self.push(Proto::Filter, peer, filter_msg(h.clone()), format!("unsolicited:BlockFilterHashes:start={}", rel(s, tip, interval)));
                for k in [1usize, 2, 5, interval as usize, interval as usize + 1] {
                    if k < all.len() {
                        let m = h.clone().as_builder().block_filter_hashes(all[..k].to_vec().pack()).build();
                        self.push(Proto::Filter, peer, filter_msg(m), format!("unsolicited:BlockFilterHashes:start={},first-{}", rel(s, tip, interval), k));
                    }
                }
            }
            if let Some(f) = server::get_block_filters(main, &packed::GetBlockFilters::new_builder().start_number(s.pack()).build()) {
                self.push(Proto::Filter, peer, filter_msg(f.clone()), format!("unsolicited:BlockFilters:start={}", rel(s, tip, interval)));
                let hs: Vec<Byte32> = f.block_hashes().into_iter().collect();
                let fs: Vec<packed::Bytes> = f.filters().into_iter().collect();
                for k in [1usize, 3] {
                    if k < hs.len() {
                        let m = f.clone().as_builder().block_hashes(hs[..k].to_vec().pack()).filters(fs[..k].to_vec().pack()).build();
                        self.push(Proto::Filter, peer, filter_msg(m), format!("unsolicited:BlockFilters:start={},first-{}", rel(s, tip, interval), k));
                    }
                }
            }
            if s % interval == 0 {
                if let Some(c) = server::get_block_filter_check_points(main, &packed::GetBlockFilterCheckPoints::new_builder().start_number(s.pack()).build(), interval) {
                    self.push(Proto::Filter, peer, filter_msg(c), format!("unsolicited:BlockFilterCheckPoints:start={}", rel(s, tip, interval)));
                }
            }
        }
    }

    /// truncations, bit flips, random strings
    fn malformed(&mut self, peer: usize, samples: &[(Proto, Bytes)], every_len_below: usize, n_random: usize) {
        for (proto, bytes) in samples {
            let (_, variant) = classify(*proto, bytes);
            let len = bytes.len();
            let lens: Vec<usize> = if len <= every_len_below {
                (0..len).collect()
            } else {
                let mut v: Vec<usize> = (0..64.min(len)).collect();
                for _ in 0..64 {
                    v.push(self.rng.below(len as u64) as usize);
                }
                v.extend([len - 1, len - 2, len - 4, len / 2]);
                v.sort();
                v.dedup();
                v
            };
            for l in lens {
                self.push(*proto, peer, bytes.slice(..l), format!("truncated:{}", variant));
            }
            // one more byte, and a few bit flips
            let mut v = bytes.to_vec();
            v.push(0);
            self.push(*proto, peer, Bytes::from(v), format!("extended:{}", variant));
            for _ in 0..n_random {
                let mut v = bytes.to_vec();
                let flips = self.rng.range(1, 3);
                for _ in 0..flips {
                    let i = self.rng.below(len as u64) as usize;
                    v[i] ^= 1 << self.rng.below(8);
                }
                self.push(*proto, peer, Bytes::from(v), format!("bitflip:{}", variant));
            }
            // flips confined to the molecule header (sizes and offsets)
            for _ in 0..n_random {
                let mut v = bytes.to_vec();
                let i = self.rng.below(len.min(48) as u64) as usize;
                v[i] = self.rng.next() as u8;
                self.push(*proto, peer, Bytes::from(v), format!("header-byte:{}", variant));
            }
        }
        for proto in [Proto::Lc, Proto::Filter, Proto::Sync, Proto::Relay] {
            for _ in 0..n_random {
                let len = self.rng.below(200) as usize;
                let mut v: Vec<u8> = (0..len).map(|_| self.rng.next() as u8).collect();
                if v.len() >= 4 && self.rng.chance(2, 3) {
                    // a valid union item id
                    let id = self.rng.below(9) as u32;
                    v[..4].copy_from_slice(&id.to_le_bytes());
                    if v.len() >= 8 && self.rng.chance(1, 2) {
                        let l = (v.len() - 4) as u32;
                        v[4..8].copy_from_slice(&l.to_le_bytes());
                    }
                }
                self.push(proto, peer, Bytes::from(v), "random-bytes".to_string());
            }
        }
    }
}

fn rel(s: u64, tip: u64, interval: u64) -> String {
    if s + 80 >= tip {
        format!("tip-{}", tip as i64 - s as i64)
    } else if interval < 1000 {
        format!("{}i+{}", s / interval, s % interval)
    } else {
        s.to_string()
    }
}

// ---------------------------------------------------------------------------------------------
// all cases of one state

fn cases_for_state(world: &World, ctx: &Ctx, state: &str, seed: u64, thorough: bool) -> Vec<Case> {
    let mut g = Gen {
        world,
        sopts: ServerOpts { check_point_interval: ctx.interval, ..Default::default() },
        full: thorough,
        rng: Rng::new(seed ^ fnv(state)),
        out: Vec::new(),
    };
    let target = ctx.target;
    let mut samples: Vec<(Proto, Bytes)> = Vec::new();
    for (protocol, peer, data) in &ctx.outstanding {
        let p = peer.value();
        let chain = match ctx.chains.get(&p) {
            Some(id) => world.chain(*id),
            None => continue,
        };
        let before = g.out.len();
        match Proto::of(*protocol) {
            Some(Proto::Lc) => {
                if let Ok(m) = packed::LightClientMessage::from_slice(data) {
                    match m.to_enum() {
                        packed::LightClientMessageUnion::GetLastState(_) => {
                            g.send_last_state(p, chain, "SendLastState");
                            // a made-up tip (block 3 with boundary fields, re-sealed), then its "proof"
                            let base = chain.verifiable_header(3);
                            let hs = vhvec((0..3).map(|n| chain.verifiable_header(n)).collect());
                            let proof = chain.try_mmr_proof(3, &[0, 1, 2]).unwrap_or_default();
                            for (label, vh) in vh_variants(&base, true) {
                                if !label.ends_with(":sealed") {
                                    continue;
                                }
                                let a = packed::SendLastState::new_builder().last_header(vh.clone()).build();
                                let b = packed::SendLastStateProof::new_builder().last_header(vh).headers(hs.clone()).proof(proof.clone()).build();
                                g.out.push(Case {
                                    steps: vec![Step::Msg(Proto::Lc, p, lc_msg(a)), Step::Msg(Proto::Lc, p, lc_msg(b))],
                                    kind: format!("SendLastState:made-up-tip(block3.{})->SendLastStateProof", label),
                                });
                            }
                            // the tips of all other chains
                            for (id, c) in world.chains.iter() {
                                let m = server::send_last_state(c);
                                g.out.push(Case::one(Proto::Lc, p, lc_msg(m), format!("SendLastState:tip={:?}", id)));
                            }
                        }
                        packed::LightClientMessageUnion::GetLastStateProof(r) => g.last_state_proof(p, chain, &r, "SendLastStateProof"),
                        packed::LightClientMessageUnion::GetBlocksProof(r) => g.blocks_proof(p, chain, &r, "SendBlocksProof"),
                        packed::LightClientMessageUnion::GetTransactionsProof(r) => g.txs_proof(p, chain, &r, "SendTransactionsProof"),
                        _ => {}
                    }
                }
            }
            Some(Proto::Filter) => {
                if let Ok(m) = packed::BlockFilterMessage::from_slice(data) {
                    match m.to_enum() {
                        packed::BlockFilterMessageUnion::GetBlockFilters(r) => {
                            g.block_filters(p, chain, &r, "BlockFilters");
                            // the hashes of the matched blocks are not checked: a made-up header
                            if let Some(honest) = server::get_block_filters(chain, &r) {
                                let n = honest.filters().len();
                                let tipvh = chain.verifiable_header(chain.tip_number());
                                for number in [u64::MAX, u64::MAX - 1, 1u64 << 63, chain.tip_number() + 7, 0] {
                                    let evil = packed::Header::new_builder()
                                        .raw(packed::RawHeader::new_builder().number(number.pack()).compact_target(0x2001_0000u32.pack()).build())
                                        .build();
                                    let bf = honest.clone().as_builder().block_hashes(vec![evil.calc_header_hash(); n].pack()).build();
                                    let bp = packed::SendBlocksProof::new_builder().last_header(tipvh.clone()).headers(vec![evil].pack()).build();
                                    g.out.push(Case {
                                        steps: vec![Step::Msg(Proto::Filter, p, filter_msg(bf)), Step::Msg(Proto::Lc, p, lc_msg(bp))],
                                        kind: format!("BlockFilters:made-up-block-hash(number={})->SendBlocksProof", number),
                                    });
                                }
                            }
                        }
                        packed::BlockFilterMessageUnion::GetBlockFilterHashes(r) => g.block_filter_hashes(p, chain, &r, "BlockFilterHashes"),
                        packed::BlockFilterMessageUnion::GetBlockFilterCheckPoints(r) => g.check_points(p, chain, &r, ctx.interval, "BlockFilterCheckPoints"),
                        _ => {}
                    }
                }
            }
            Some(Proto::Sync) => {
                if let Ok(m) = packed::SyncMessage::from_slice(data) {
                    if let packed::SyncMessageUnion::GetBlocks(r) = m.to_enum() {
                        g.send_blocks(p, chain, &r, "SendBlock");
                    }
                }
            }
            _ => {}
        }
        // the honest reply, then the peer goes away
        if g.out.len() > before {
            let first = g.out[before].clone();
            if let Some(Step::Msg(pr, _, b)) = first.steps.first() {
                samples.push((*pr, b.clone()));
            }
            let mut steps = first.steps.clone();
            steps.push(Step::Disconnect(p));
            steps.push(Step::Tick);
            steps.push(Step::Connect(p));
            g.out.push(Case { steps, kind: format!("{}+disconnect+reconnect", first.kind) });
        }
    }
    // boundary sequences of the filter protocol: the agreed filter hashes end just before / at /
    // after the filtered height, then the batch that follows the filtered height arrives
    if let Some(id) = ctx.chains.get(&target) {
        let chain = world.chain(*id);
        let min_f = ctx.node.i().storage.get_min_filtered_block_number();
        let (fin_idx, _) = ctx.node.i().storage.get_last_check_point();
        let fin = fin_idx as u64 * ctx.interval;
        if !ctx.node.i().storage.is_filter_scripts_empty() && min_f > fin + 2 && min_f + 2 < chain.tip_number() {
            for l in [min_f - fin - 2, min_f - fin - 1, min_f - fin, min_f - fin + 1] {
                let hashes: Vec<Byte32> = (fin + 1..=fin + l).map(|n| chain.filter_hashes[n as usize].clone()).collect();
                let hm = packed::BlockFilterHashes::new_builder()
                    .start_number((fin + 1).pack())
                    .parent_block_filter_hash(chain.filter_hashes[fin as usize].clone())
                    .block_filter_hashes(hashes.pack())
                    .build();
                if let Some(fm) = server::get_block_filters(chain, &packed::GetBlockFilters::new_builder().start_number((min_f + 1).pack()).build()) {
                    g.out.push(Case {
                        steps: vec![Step::Msg(Proto::Filter, target, filter_msg(hm)), Step::Msg(Proto::Filter, target, filter_msg(fm))],
                        kind: format!("BlockFilterHashes:up-to-min-filtered{:+}->BlockFilters", l as i64 - (min_f - fin) as i64),
                    });
                }
            }
        }
    }
    g.unsolicited(target, ctx.interval);
    g.scratch(target);
    // control sequences
    g.out.push(Case { steps: vec![Step::Disconnect(target), Step::Tick, Step::Connect(target)], kind: "ctl:disconnect+reconnect".into() });
    g.out.push(Case {
        steps: vec![Step::Msg(Proto::Lc, target, Bytes::from(vec![9u8, 9, 9])), Step::Disconnect(target), Step::Tick],
        kind: "ctl:garbage+disconnect".into(),
    });
    g.out.push(Case { steps: vec![Step::Connect(target)], kind: "ctl:connect-again".into() });
    g.out.push(Case { steps: vec![Step::Connect(7), Step::Tick, Step::Disconnect(7)], kind: "ctl:another-peer".into() });
    // malformed encodings
    let main = world.main();
    samples.push((Proto::Lc, lc_msg(server::send_last_state(main))));
    samples.push((Proto::Sync, sync_msg(packed::SendBlock::new_builder().block(main.block(1).data()).build())));
    samples.push((Proto::Relay, relay_msg(packed::GetRelayTransactions::new_builder().tx_hashes(byte32s(3, 0x79).pack()).build())));
    if let Some(c) = server::get_block_filter_check_points(main, &packed::GetBlockFilterCheckPoints::new_builder().start_number(0u64.pack()).build(), ctx.interval) {
        samples.push((Proto::Filter, filter_msg(c)));
    }
    if let Some(f) = server::get_block_filters(main, &packed::GetBlockFilters::new_builder().start_number((world.tip - 2).pack()).build()) {
        samples.push((Proto::Filter, filter_msg(f)));
    }
    let (every, n_random) = if thorough { (30_000, 300) } else { (420, 24) };
    g.malformed(target, &samples, every, n_random);
    g.out
}

// ---------------------------------------------------------------------------------------------
// delivery

struct Outcome {
    class: String,
    variant: String,
    proto: Option<Proto>,
    parsed: bool,
    delivered: u64,
    panic: Option<(PanicRec, String)>,
}

fn drain(ctx: &Ctx) -> (Vec<String>, usize, usize) {
    let i = ctx.node.i();
    let mut bans = Vec::new();
    let mut sent = 0;
    let mut disc = 0;
    for nc in [&i.nc_lc, &i.nc_filter, &i.nc_sync, &ctx.nc_relay] {
        let rec = nc.take();
        bans.extend(rec.banned.into_iter().map(|(_, _, reason)| reason));
        sent += rec.sent.len();
        disc += rec.disconnected.len();
    }
    (bans, sent, disc)
}

fn ban_class(reason: &str) -> String {
    if reason.contains("malformed message") {
        return "banned:malformed".into();
    }
    if let (Some(a), Some(b)) = (reason.find('('), reason.find(')')) {
        if a < b && reason[a + 1..b].chars().all(|c| c.is_ascii_digit()) {
            return format!("banned:{}", &reason[a + 1..b]);
        }
    }
    format!("banned:{}", reason.chars().take(24).collect::<String>())
}

fn deliver(ctx: &mut Ctx, proto: Proto, peer: usize, bytes: Bytes) {
    let peer = PeerIndex::new(peer);
    match proto {
        Proto::Relay => block_on(ctx.relay.received(as_ctx(&ctx.nc_relay), peer, bytes)),
        p => ctx.node.deliver(peer, p.id(), bytes),
    }
}

fn tick(ctx: &mut Ctx) {
    ctx.node.im().filter.last_ask_time.write().unwrap().take();
    ctx.node.tick_all();
    block_on(ctx.relay.notify(as_ctx(&ctx.nc_relay), 0));
}

fn run_case(ctx: &mut Ctx, case: &Case, clean_fp: u64) -> (Outcome, bool) {
    let mut out = Outcome { class: String::new(), variant: "ctl".into(), proto: None, parsed: false, delivered: 0, panic: None };
    let mut ctl = false;
    let mut last_bans: Vec<String> = Vec::new();
    let mut last_sent = 0;
    for step in &case.steps {
        let r = match step {
            Step::Msg(proto, peer, bytes) => {
                let (parsed, variant) = classify(*proto, bytes);
                out.parsed = parsed;
                out.variant = variant.clone();
                out.proto = Some(*proto);
                out.delivered += 1;
                CACHE_KEY.with(|k| *k.borrow_mut() = variant);
                let (pr, pe, b) = (*proto, *peer, bytes.clone());
                let r = guarded(|| deliver(ctx, pr, pe, b)).map_err(|p| (p, "received".to_string()));
                let (bans, sent, _) = drain(ctx);
                last_bans = bans;
                last_sent = sent;
                r
            }
            Step::Tick => guarded(|| tick(ctx)).map_err(|p| (p, "timer".to_string())),
            Step::Disconnect(p) => {
                ctl = true;
                let p = PeerIndex::new(*p);
                guarded(|| ctx.node.disconnect(p)).map_err(|p| (p, "disconnected".to_string()))
            }
            Step::Connect(p) => {
                ctl = true;
                let p = PeerIndex::new(*p);
                guarded(|| ctx.node.connect(p)).map_err(|p| (p, "connected".to_string()))
            }
        };
        if let Err(e) = r {
            out.panic = Some(e);
            break;
        }
    }
    let mut timer_disconnects = 0;
    if out.panic.is_none() {
        if let Err(p) = guarded(|| tick(ctx)) {
            out.panic = Some((p, "timer".into()));
        }
        let (_, _, d) = drain(ctx);
        timer_disconnects = d;
    }
    let dirty = out.panic.is_some() || guarded(|| fingerprint(ctx)).map(|f| f != clean_fp).unwrap_or(true);
    out.class = if let Some((p, _)) = &out.panic {
        if p.msg.contains("long fork detected") {
            "allowed-long-fork".into()
        } else {
            "panic".into()
        }
    } else if let Some(b) = last_bans.first() {
        ban_class(b)
    } else if timer_disconnects > 0 {
        "disconnect-by-timer".into()
    } else if dirty {
        "ok:state-changed".into()
    } else if last_sent > 0 {
        "ok:replied".into()
    } else {
        "ignored".into()
    };
    if ctl {
        out.class = format!("ctl/{}", out.class);
    }
    (out, dirty)
}

fn replay_lines(state: &str, seed: u64, cases: &[&Case]) -> Vec<String> {
    let mut lines = Vec::new();
    lines.push(format!("state {} seed {}", state, seed));
    for c in cases {
        lines.push(format!("# {}", c.kind));
        for s in &c.steps {
            lines.push(match s {
                Step::Msg(p, peer, b) => format!("msg {} {} @{}", p.name(), hex(b), peer),
                Step::Tick => "tick".into(),
                Step::Disconnect(p) => format!("disconnect {}", p),
                Step::Connect(p) => format!("connect {}", p),
            });
        }
        lines.push("tick".into());
    }
    lines
}

/// `state <name> seed <n>` starts a case; `msg <protocol> <hex> [@peer]`, `tick`,
/// `disconnect <peer>`, `connect <peer>` are its steps (a tick always follows a case)
fn parse_replay(text: &str) -> Vec<(String, u64, Case)> {
    let mut out: Vec<(String, u64, Case)> = Vec::new();
    let mut comment = String::new();
    for line in text.lines() {
        let line = line.trim();
        let t: Vec<&str> = line.split_whitespace().collect();
        match t.first().copied() {
            Some("#") => comment = line[1..].trim().to_string(),
            Some("state") if t.len() >= 4 => {
                out.push((t[1].to_string(), t[3].parse().unwrap_or(1), Case { steps: vec![], kind: "replay".into() }));
            }
            Some(k) => {
                let cur = match out.last_mut() {
                    Some(c) => c,
                    None => continue,
                };
                if !comment.is_empty() && cur.2.kind == "replay" {
                    cur.2.kind = format!("replay:{}", comment);
                }
                match (k, t.len()) {
                    ("msg", n) if n >= 3 => {
                        if let (Some(p), Some(b)) = (Proto::parse(t[1]), unhex(t[2])) {
                            let peer = t.get(3).and_then(|x| x.trim_start_matches('@').parse().ok()).unwrap_or(1);
                            cur.2.steps.push(Step::Msg(p, peer, Bytes::from(b)));
                        }
                    }
                    ("tick", _) => cur.2.steps.push(Step::Tick),
                    ("disconnect", 2) => cur.2.steps.push(Step::Disconnect(t[1].parse().unwrap_or(1))),
                    ("connect", 2) => cur.2.steps.push(Step::Connect(t[1].parse().unwrap_or(1))),
                    _ => {}
                }
            }
            None => {}
        }
    }
    out
}

fn build_with_retries(world: &World, state: &str, seed: u64) -> Result<(Ctx, u64), String> {
    let mut last = String::new();
    for k in 0..12 {
        let s = seed + k;
        match guarded(|| build_state(world, state, s)) {
            Ok(Ok(mut ctx)) => {
                if state == "long-fork-rerequested" {
                    // the state is only useful if the honest reply reaches the documented abort
                    // (a sampled genesis block makes the client ask again without the flag)
                    let reply = ctx.outstanding.iter().find_map(|(p, peer, d)| {
                        let chain = world.chain(*ctx.chains.get(&peer.value())?);
                        server::handle(chain, &ServerOpts::default(), *p, d).ok()?.into_iter().next().map(|(pp, b)| (*peer, pp, b))
                    });
                    let hit = match reply {
                        Some((peer, pp, b)) => matches!(guarded(|| ctx.node.deliver(peer, pp, b)), Err(p) if p.msg.contains("long fork detected")),
                        None => false,
                    };
                    if !hit {
                        last = "the honest reply does not reach the long fork abort".into();
                        continue;
                    }
                    match guarded(|| build_state(world, state, s)) {
                        Ok(Ok(c)) => return Ok((c, s)),
                        _ => continue,
                    }
                }
                return Ok((ctx, s));
            }
            Ok(Err(e)) => last = e,
            Err(p) => last = format!("panic while building: {}", where_of(&p)),
        }
    }
    Err(last)
}

struct Tally {
    per_sig: BTreeMap<String, u64>,
    confirmed: BTreeMap<String, u32>,
}

#[allow(clippy::too_many_arguments)]
fn record(rep: &mut Report, tally: &mut Tally, world: &World, wseed: u64, state: &str, seed: u64, case: &Case, history: &[&Case], o: &Outcome) {
    rep.evaluations += o.delivered.max(1);
    let op = match o.proto {
        Some(p) => format!("{}:{}", p.name(), o.variant),
        None => "ctl".to_string(),
    };
    rep.count_op(&op);
    *rep.ops.entry(format!("state:{}", state)).or_default() += o.delivered.max(1);
    rep.count_class(&o.class);
    if o.parsed {
        rep.nontrivial.insert(fnv(&format!("{}|{}|{}", state, op, case.kind)));
    }
    let (p, phase) = match &o.panic {
        Some(x) => x,
        None => return,
    };
    if p.msg.contains("long fork detected") {
        return;
    }
    let site = site_of(p);
    let handler = if phase == "received" { o.variant.clone() } else { format!("{}-after:{}", phase, o.variant) };
    let sig = format!("C10|panic|{}|{}", handler, site);
    *tally.per_sig.entry(sig.clone()).or_default() += 1;
    // does it reproduce on a freshly built state?
    let n_conf = tally.confirmed.entry(sig.clone()).or_default();
    let mut fresh = "not re-checked";
    let mut lines = replay_lines(state, seed, &[case]);
    lines.insert(0, format!("world-seed {}", wseed));
    if *n_conf < 2 {
        *n_conf += 1;
        fresh = "no";
        if let Ok(Ok(mut ctx)) = guarded(|| build_state(world, state, seed)) {
            let fp = fingerprint(&ctx);
            let (o2, _) = run_case(&mut ctx, case, fp);
            if let Some((p2, _)) = &o2.panic {
                if site_of(p2) == site {
                    fresh = "yes";
                }
            }
        }
        if fresh == "no" {
            let mut all: Vec<&Case> = history.to_vec();
            all.push(case);
            lines = replay_lines(state, seed, &all);
            lines.insert(0, format!("world-seed {}", wseed));
        }
    }
    let what = format!(
        "panic in `{}` while handling {} ({}) in state {}: {}; reproduced on a fresh state: {}",
        phase,
        op,
        case.kind,
        state,
        where_of(p),
        fresh
    );
    rep.violate(&sig, &what, lines);
}

const RULE: &str = "a full client (real store, peer table, light-client / filter / sync handlers and the relay handler over \
    recording network contexts) on a dummy-PoW chain of 230..260 blocks in 12+ epochs with script activity, last_n 5, \
    is put into 25 peer states (no last state; last state only; first / new prove request outstanding with growth, \
    short fork, fork+growth, fork after restart; second from-genesis request after a long fork; second request after a \
    tau failure; proved; header / transaction fetches outstanding; filter hashes / filters / matched-block proof / \
    block download outstanding, also after a restart; check point, cached hashes (partially filled) and filters \
    requests with a check point interval of 20; hash-consistent garbage filters; two peers; a peer which is not \
    connected; pending relay transaction).  Per state: the honest reply of every outstanding request and single-field \
    mutations of it (every number / epoch (length 0) / compact target / timestamp / total difficulty / chain root \
    field of the last header and of the headers at every section border set to 0, 1, 2^32-1, 2^64-1, 2^256-1, \
    honest+-1, raw and re-sealed (extension + extra hash recomputed); proof emptied, truncated, reversed, doubled, \
    garbled, extended to 2500 items; header vectors emptied, truncated, swapped, reversed, doubled, extended by 2200 \
    fabricated headers; reorg / sampled / last-n sections added, removed, shortened with a VALID proof for the \
    changed set; missing lists; v0 and V1 tables incl. malformed extra fields; merkle proof indices and lemmas; \
    filter start numbers, hash / filter vectors, GCS garbage, made-up matched block hashes; check points; block \
    bodies under an honest header), honest messages nobody asked for, default-built tables of every union variant of \
    all four protocols with boundary numbers and 2000..5000 item vectors, every truncation length of small \
    encodings, bit flips, header byte flips and random strings; each case is followed by all timers; some cases add \
    disconnect / reconnect.  The state is rebuilt (same seed) whenever a case changed anything observable (store \
    writes, peer table, fetch / matched tables).  non-trivial = distinct (state, variant, mutation) that parses \
    under the handler's reader.  States run in parallel child processes; the parent merges the reports.";

/// the work of one process: `jobs` = (world seed, state)
fn run_jobs(opts: &Options, jobs: &[(u64, String)], with_corpus: bool) -> Report {
    let mut rep = Report::default();
    rep.rule = RULE.into();
    install_hook();
    if std::env::var("C10_LOG").is_ok() {
        let _ = env_logger::try_init();
    }
    let t0 = std::time::Instant::now();
    let mut tally = Tally { per_sig: BTreeMap::new(), confirmed: BTreeMap::new() };
    let mut worlds: HashMap<u64, World> = HashMap::new();

    // ---- replay files: the corpus first, or only the given file
    let mut files: Vec<String> = Vec::new();
    if let Some(p) = &opts.replay {
        files.push(p.clone());
    } else if with_corpus {
        if let Ok(rd) = std::fs::read_dir("/verif/corpus/C10") {
            let mut v: Vec<String> = rd.flatten().map(|e| e.path().to_string_lossy().to_string()).collect();
            v.sort();
            files = v;
        }
    }
    for f in &files {
        let text = std::fs::read_to_string(f).unwrap_or_default();
        // `world-seed <n>` selects the chain (default: the run's seed)
        let wseed = text
            .lines()
            .find_map(|l| l.trim().strip_prefix("world-seed ").and_then(|x| x.trim().parse().ok()))
            .unwrap_or(opts.seed);
        let world = worlds.entry(wseed).or_insert_with(|| World::build(wseed));
        for (state, seed, case) in parse_replay(&text) {
            match guarded(|| build_state(world, &state, seed)) {
                Ok(Ok(mut ctx)) => {
                    let fp = fingerprint(&ctx);
                    let (o, _) = run_case(&mut ctx, &case, fp);
                    record(&mut rep, &mut tally, world, wseed, &state, seed, &case, &[], &o);
                    rep.sample(&format!("replay {}: state {} {} -> {}", basename(f), state, case.kind, o.class));
                    if let Some((p, ph)) = &o.panic {
                        rep.notes.push(format!("replay {}: {} panic in `{}`: {}", basename(f), state, ph, where_of(p)));
                    }
                }
                Ok(Err(e)) => rep.notes.push(format!("replay {}: {}", f, e)),
                Err(p) => rep.notes.push(format!("replay {}: state build panicked: {}", f, where_of(&p))),
            }
        }
    }

    // ---- generated cases
    for (wseed, state) in jobs {
        let (wseed, state) = (*wseed, state.as_str());
        let world = worlds.entry(wseed).or_insert_with(|| World::build(wseed));
        let ts = std::time::Instant::now();
        let (probe, seed) = match build_with_retries(world, state, 1) {
            Ok(x) => x,
            Err(e) => {
                rep.notes.push(format!("state {} (world {}) NOT exercised: {}", state, wseed, e));
                continue;
            }
        };
        let names: Vec<String> = probe.outstanding.iter().map(|(p, _, d)| request_name(*p, d)).collect();
        let tg = std::time::Instant::now();
        let cases = cases_for_state(world, &probe, state, seed ^ wseed, opts.thorough());
        let gen_time = tg.elapsed().as_secs_f64();
        let mut build_time = 0f64;
        let clean_fp = fingerprint(&probe);
        let mut ctx = Some(probe);
        let mut history: Vec<&Case> = Vec::new();
        let mut rebuilds = 0u64;
        for (ci, case) in cases.iter().enumerate() {
            if ctx.is_none() {
                rebuilds += 1;
                history.clear();
                let tb = std::time::Instant::now();
                let built = guarded(|| build_state(world, state, seed));
                build_time += tb.elapsed().as_secs_f64();
                match built {
                    Ok(Ok(c)) => {
                        if fingerprint(&c) != clean_fp {
                            rep.notes.push(format!("state {}: rebuild is not deterministic", state));
                        }
                        ctx = Some(c);
                    }
                    _ => {
                        rep.notes.push(format!("state {}: rebuild failed", state));
                        break;
                    }
                }
            }
            let c = ctx.as_mut().unwrap();
            let (o, dirty) = run_case(c, case, clean_fp);
            record(&mut rep, &mut tally, world, wseed, state, seed, case, &history, &o);
            if ci % 997 == 0 {
                rep.sample(&format!("world-seed {} state {} seed {}: {} -> {}", wseed, state, seed, case.kind, o.class));
            }
            if dirty {
                ctx = None;
            } else {
                history.push(case);
                if history.len() > 64 {
                    history.remove(0);
                }
            }
        }
        rep.notes.push(format!(
            "state {} (world {}, seed {}): {} cases, {} rebuilds, outstanding {:?}, {:.1}s (gen {:.1}s, rebuilds {:.1}s)",
            state,
            wseed,
            seed,
            cases.len(),
            rebuilds,
            names,
            ts.elapsed().as_secs_f64(),
            gen_time,
            build_time
        ));
    }
    for (sig, n) in &tally.per_sig {
        *rep.classes.entry(format!("panics-of:{}", sig)).or_default() += n;
    }
    rep.notes.push(format!("process elapsed {:.1}s", t0.elapsed().as_secs_f64()));
    crate::verif_hooks::set_before_write(None);
    crate::verif_hooks::set_random_unit(None);
    ckb_systemtime::faketime().disable_faketime();
    super::silence_panics();
    rep
}

fn all_jobs(opts: &Options) -> Vec<(u64, String)> {
    let world_seeds: Vec<u64> = if opts.thorough() { vec![opts.seed, opts.seed + 1, opts.seed + 2] } else { vec![opts.seed] };
    let mut jobs = Vec::new();
    for w in world_seeds {
        for s in STATES {
            if let Ok(only) = std::env::var("C10_STATE") {
                if only != *s {
                    continue;
                }
            }
            jobs.push((w, s.to_string()));
        }
    }
    jobs
}

fn merge(into: &mut Report, json: &serde_json::Value, hashes: &str) {
    into.evaluations += json["evaluations"].as_u64().unwrap_or(0);
    for h in hashes.lines() {
        if let Ok(v) = h.trim().parse::<u64>() {
            into.nontrivial.insert(v);
        }
    }
    for (key, map) in [("ops", &mut into.ops), ("classes", &mut into.classes)] {
        if let Some(m) = json["correspondence"][key].as_object() {
            for (k, v) in m {
                *map.entry(k.clone()).or_default() += v.as_u64().unwrap_or(0);
            }
        }
    }
    if let Some(a) = json["correspondence"]["notes"].as_array() {
        into.notes.extend(a.iter().filter_map(|x| x.as_str().map(|s| s.to_string())));
    }
    if let Some(a) = json["samples"].as_array() {
        for s in a.iter().filter_map(|x| x.as_str()) {
            if into.samples.len() < 12 {
                into.samples.push(s.to_string());
            }
        }
    }
    if let Some(a) = json["violations"].as_array() {
        for v in a {
            let replay: Vec<String> = v["replay"].as_array().map(|r| r.iter().filter_map(|x| x.as_str().map(|s| s.to_string())).collect()).unwrap_or_default();
            into.violate(v["signature"].as_str().unwrap_or(""), v["what"].as_str().unwrap_or(""), replay);
        }
    }
}

pub fn run(opts: &Options) -> Report {
    // a child process: its jobs come from the environment
    if let Ok(j) = std::env::var("C10_JOBS") {
        let jobs: Vec<(u64, String)> = j
            .split(',')
            .filter_map(|x| x.split_once(':').and_then(|(w, s)| w.parse().ok().map(|w| (w, s.to_string()))))
            .collect();
        let rep = run_jobs(opts, &jobs, false);
        if let Ok(p) = std::env::var("C10_HASHES_OUT") {
            let text: String = rep.nontrivial.iter().map(|h| format!("{}\n", h)).collect();
            let _ = std::fs::write(p, text);
        }
        return rep;
    }
    if opts.replay.is_some() {
        return run_jobs(opts, &[], false);
    }
    let jobs = all_jobs(opts);
    let exe = std::env::current_exe().ok();
    if std::env::var("C10_NO_FORK").is_ok() || exe.is_none() || jobs.len() <= 1 {
        return run_jobs(opts, &jobs, true);
    }
    let t0 = std::time::Instant::now();
    // the corpus in this process, the states in children
    let mut rep = run_jobs(opts, &[], true);
    let dir = tempfile::Builder::new().prefix("c10jobs").tempdir().expect("tempdir");
    let par = std::thread::available_parallelism().map(|n| n.get()).unwrap_or(4).clamp(1, 16);
    let exe = exe.unwrap();
    let mut pending: Vec<(usize, (u64, String))> = jobs.iter().cloned().enumerate().collect();
    pending.reverse();
    let mut running: Vec<(usize, (u64, String), std::process::Child)> = Vec::new();
    let mut done: Vec<(usize, (u64, String), bool)> = Vec::new();
    while !pending.is_empty() || !running.is_empty() {
        while running.len() < par && !pending.is_empty() {
            let (i, job) = pending.pop().unwrap();
            let child = std::process::Command::new(&exe)
                .arg("C10")
                .arg("--tier")
                .arg(&opts.tier)
                .arg("--seed")
                .arg(opts.seed.to_string())
                .arg("--out")
                .arg(dir.path().join(format!("{}.json", i)))
                .env("C10_JOBS", format!("{}:{}", job.0, job.1))
                .env("C10_HASHES_OUT", dir.path().join(format!("{}.hashes", i)))
                .stdout(std::process::Stdio::null())
                .spawn();
            match child {
                Ok(c) => running.push((i, job, c)),
                Err(e) => {
                    rep.notes.push(format!("cannot start a child for {:?}: {}", job, e));
                    done.push((i, job, false));
                }
            }
        }
        let mut k = 0;
        let mut progressed = false;
        while k < running.len() {
            match running[k].2.try_wait() {
                Ok(Some(status)) => {
                    let (i, job, _) = running.remove(k);
                    done.push((i, job, status.success()));
                    progressed = true;
                }
                Ok(None) => k += 1,
                Err(_) => {
                    let (i, job, _) = running.remove(k);
                    done.push((i, job, false));
                }
            }
        }
        if !progressed {
            std::thread::sleep(std::time::Duration::from_millis(20));
        }
    }
    done.sort_by_key(|d| d.0);
    for (i, job, ok) in done {
        let json = std::fs::read_to_string(dir.path().join(format!("{}.json", i))).ok().and_then(|t| serde_json::from_str::<serde_json::Value>(&t).ok());
        let hashes = std::fs::read_to_string(dir.path().join(format!("{}.hashes", i))).unwrap_or_default();
        match (ok, json) {
            (true, Some(j)) => merge(&mut rep, &j, &hashes),
            _ => {
                // a child which dies is itself a finding: the client code aborted the process
                rep.violate(
                    &format!("C10|process-died|{}", job.1),
                    &format!("the child process for state {} (world {}) did not finish: the code under test aborted the process (stack overflow, abort, out of memory?)", job.1, job.0),
                    vec![format!("# run: C10_NO_FORK=1 C10_STATE={} lcverif C10 --seed {}", job.1, job.0)],
                );
            }
        }
    }
    rep.notes.push(format!("total elapsed {:.1}s with {} processes in parallel", t0.elapsed().as_secs_f64(), par));
    rep
}


//! Sync layer harness (serves C09 and C08): a full client syncing script activity from an
//! honest peer through the filter / light-client / sync protocols, with `set_scripts` commands at
//! arbitrary points and a simulated crash at any store write (hook `before_write`), compared
//! write-group by write-group with the `Sync` Lean layer, plus the property oracles: nothing is
//! skipped (`Safe`), and continued syncing converges to the ground truth.

use std::collections::{BTreeMap, BTreeSet};

use ckb_network::{bytes::Bytes, PeerIndex, ProtocolId, SupportProtocols};
use ckb_types::{
    core::TransactionView,
    packed::{self, Byte32, Script},
    prelude::*,
};

use super::node::{set_now, Node};
use super::server::{self, ServerOpts};
use super::simchain::{script, tx, SimChain};
use super::{catch, fnv, run_model, Options, Report, Rng};
use crate::service::{BlockFilterRpc, ScriptStatus, ScriptType, SetScriptsCommand};
use crate::storage::{extract_raw_data, KeyPrefix};

pub(crate) const N_SCRIPTS: u64 = 3;

pub(crate) fn script_of(id: u64) -> Script {
    script(0x40 + id as u8, &[id as u8])
}

/// registration ids: 1..=3 = script 1..3 registered as a lock script, 11..=13 = the SAME scripts
/// registered as type scripts
pub(crate) const ALL_IDS: [u64; 6] = [1, 2, 3, 11, 12, 13];

pub(crate) fn reg_of(id: u64) -> (Script, ScriptType) {
    if id > 10 {
        (script_of(id - 10), ScriptType::Type)
    } else {
        (script_of(id), ScriptType::Lock)
    }
}

pub struct World {
    pub chain: SimChain,
    /// script id -> (block, creating block) of the activity touching it: an output locked by it
    /// (creating block = the block itself) or an input spending such an output.  An input is
    /// attributable by the index only if the creating block is indexed too (above the script's
    /// start number): the spends of older cells are the structural limit recorded under C03.
    pub touches: BTreeMap<u64, BTreeSet<(u64, u64)>>,
}

impl World {
    /// filters per `BlockFilters` answer of the honest peer in this world: all at once, or short
    /// batches (then batches without a match arrive while matched blocks of an earlier batch are
    /// still being downloaded).  Derived from the chain, not drawn, so that pinned seeds keep
    /// their histories.
    pub fn server_opts(&self) -> ServerOpts {
        let x = self.chain.tip().hash().as_slice()[0] as u64;
        let filters_batch = if x % 2 == 0 { server::BLOCK_FILTERS_BATCH } else { 3 + (x / 2) % 9 };
        ServerOpts { filters_batch, ..Default::default() }
    }
}

pub fn build_world(rng: &mut Rng, n_blocks: u64) -> World {
    let mut chain = SimChain::new_dummy();
    let mut touches: BTreeMap<u64, BTreeSet<(u64, u64)>> = BTreeMap::new();
    // (tx hash, idx, lock script id, type script id (0 = none), block)
    let mut live: Vec<(Byte32, u32, u64, u64, u64)> = Vec::new();
    for b in 1..=n_blocks {
        let mut txs: Vec<TransactionView> = Vec::new();
        let n_tx = if rng.chance(1, 3) { rng.range(1, 2) } else { 0 };
        for k in 0..n_tx {
            let mut inputs = Vec::new();
            if !live.is_empty() && rng.chance(1, 2) {
                let i = rng.below(live.len() as u64) as usize;
                let (h, idx, sid, tid, created) = live.remove(i);
                inputs.push((h, idx));
                touches.entry(sid).or_default().insert((b, created));
                if tid != 0 {
                    touches.entry(10 + tid).or_default().insert((b, created));
                }
            }
            let sid = rng.range(1, N_SCRIPTS);
            let tid = if rng.chance(1, 3) { rng.range(1, N_SCRIPTS) } else { 0 };
            let type_ = if tid != 0 { Some(script_of(tid)) } else { None };
            let outputs = vec![(script_of(sid), type_, 200_0000_0000u64 + b, vec![])];
            let t = tx(&inputs, &outputs, b * 10 + k);
            live.push((t.hash(), 0, sid, tid, b));
            touches.entry(sid).or_default().insert((b, b));
            if tid != 0 {
                touches.entry(10 + tid).or_default().insert((b, b));
            }
            txs.push(t);
        }
        chain.append_with_txs(txs);
    }
    World { chain, touches }
}

#[derive(Clone, Debug)]
pub enum Step {
    /// timers once, then answer at most `n` of the client's requests
    Run(u32),
    /// `set_scripts(cmd, [(script id, block number)])`
    Set(u8, Vec<(u64, u64)>),
}

pub fn gen_steps(rng: &mut Rng, tip: u64, len: usize) -> Vec<Step> {
    let first = *rng.pick(&ALL_IDS);
    let mut steps = vec![Step::Set(0, vec![(first, rng.below(tip / 2))])];
    // ids named so far: a later command often names the same script under the other script type
    let mut named = vec![first];
    for _ in 0..len {
        if rng.chance(1, 4) {
            let cmd = rng.below(3) as u8;
            let n = rng.below(3);
            let list: Vec<(u64, u64)> = (0..n)
                .map(|_| {
                    let id = if rng.chance(1, 3) {
                        let t = *rng.pick(&named);
                        if t > 10 { t - 10 } else { t + 10 }
                    } else {
                        *rng.pick(&ALL_IDS)
                    };
                    named.push(id);
                    (
                        id,
                        *rng.pick(&[0u64, 1, tip / 3, tip / 2, tip - 1, tip, tip + 5]),
                    )
                })
                .collect();
            steps.push(Step::Set(cmd, list));
        } else {
            steps.push(Step::Run(rng.range(1, 6) as u32));
        }
    }
    steps
}

#[derive(Clone, Debug, PartialEq)]
pub struct Obs {
    pub scripts: BTreeMap<u64, u64>,
    pub min_f: u64,
    pub records: Vec<(u64, u64, Vec<u64>)>,
}

pub(crate) fn observe(node: &Node, chain: &SimChain) -> Obs {
    let st = &node.i().storage;
    let mut scripts = BTreeMap::new();
    for ss in st.get_filter_scripts() {
        let raw = extract_raw_data(&ss.script);
        for id in 1..=N_SCRIPTS {
            if extract_raw_data(&script_of(id)) == raw {
                let id = if matches!(ss.script_type, crate::storage::ScriptType::Type) { id + 10 } else { id };
                scripts.insert(id, ss.block_number);
            }
        }
    }
    // all records: walk the keyspace through the earliest/latest accessors is not enough; read
    // the raw keys
    let mut records = Vec::new();
    let mut prefix = vec![KeyPrefix::Meta as u8];
    prefix.extend_from_slice(b"MATCHED_BLOCKS");
    use rocksdb::{prelude::*, Direction, IteratorMode};
    for (k, v) in st
        .db
        .iterator(IteratorMode::From(&prefix, Direction::Forward))
        .take_while(|(k, _)| k.starts_with(&prefix))
    {
        let start = u64::from_be_bytes(k[prefix.len()..].try_into().unwrap());
        let count = u64::from_le_bytes(v[0..8].try_into().unwrap());
        let n = (v.len() - 8) / 33;
        let mut nums = Vec::new();
        for i in 0..n {
            let h = Byte32::from_slice(&v[8 + i * 33..8 + i * 33 + 32]).unwrap();
            nums.push(chain.number_of_hash(&h).unwrap_or(999_999));
        }
        records.push((start, count, nums));
    }
    Obs {
        scripts,
        min_f: st.get_min_filtered_block_number(),
        records,
    }
}

pub fn show_obs(o: &Obs) -> String {
    let scripts: Vec<String> = o.scripts.iter().map(|(k, v)| format!("({}, {})", k, v)).collect();
    let recs: Vec<String> = o
        .records
        .iter()
        .map(|(s, c, m)| {
            format!(
                "({},{},[{}])",
                s,
                c,
                m.iter().map(|x| x.to_string()).collect::<Vec<_>>().join(", ")
            )
        })
        .collect();
    format!("scripts [{}] minF {} records [{}]", scripts.join(", "), o.min_f, recs.join(", "))
}

/// blocks of the chain indexed for script `sid` (from the transaction history keyspace)
pub(crate) fn indexed_blocks(node: &Node, sid: u64) -> BTreeSet<u64> {
    use rocksdb::{prelude::*, Direction, IteratorMode};
    let (sc, ty) = reg_of(sid);
    let mut prefix = vec![if matches!(ty, ScriptType::Type) { KeyPrefix::TxTypeScript as u8 } else { KeyPrefix::TxLockScript as u8 }];
    prefix.extend_from_slice(&extract_raw_data(&sc));
    let mut out = BTreeSet::new();
    for (k, _) in node
        .i()
        .storage
        .db
        .iterator(IteratorMode::From(&prefix, Direction::Forward))
        .take_while(|(k, _)| k.starts_with(&prefix))
    {
        if k.len() == prefix.len() + 17 {
            out.insert(u64::from_be_bytes(k[prefix.len()..prefix.len() + 8].try_into().unwrap()));
        }
    }
    out
}

pub struct RunOut {
    pub lines: Vec<String>,
    pub impls: Vec<String>,
    pub crashed: bool,
    pub writes_seen: u64,
    /// registration numbers: script id -> the number the user last gave / the number recorded
    /// when a command kept the script
    pub reg: BTreeMap<u64, u64>,
    /// for a crash inside `set_scripts`: the registration the interrupted command asked for
    pub reg_pending: Option<BTreeMap<u64, u64>>,
    /// what was going on at the crash: `<activity> @ <write site>`
    pub crash_ctx: String,
    /// for every model op line: (index in `lines`, global index of its first write, one past
    /// its last write)
    pub spans: Vec<(usize, u64, u64)>,
}

/// the model op for a message the client just handled, from what it did to the store
pub(crate) fn model_op_after(
    before: &Obs,
    after: &Obs,
    kind: &str,
    start: u64,
    volatile_empty: bool,
) -> Option<String> {
    match kind {
        "BlockFilters" => {
            let k = if after.min_f != before.min_f && after.min_f + 1 > start {
                after.min_f + 1 - start
            } else {
                0
            };
            let matched: Vec<String> = after
                .records
                .iter()
                .find(|r| r.0 == start && !before.records.iter().any(|b| b.0 == start && b.2 == r.2))
                .map(|r| r.2.iter().map(|x| x.to_string()).collect())
                .unwrap_or_default();
            Some(format!("filters {} {} {} | {}", start, k, volatile_empty as u8, matched.join(" ")))
        }
        "SendBlock" => {
            if before.records.first().map(|r| r.0) != after.records.first().map(|r| r.0)
                || before.scripts != after.scripts
            {
                Some("blocks".into())
            } else {
                None
            }
        }
        _ => None,
    }
}

/// runs `steps`; `crash_at` = panic in front of the n-th store write (1-based)
pub(crate) fn run_steps(
    rep: &mut Report,
    world: &World,
    steps: &[Step],
    crash_at: Option<u64>,
    now: &mut u64,
) -> (Node, RunOut) {
    let chain = &world.chain;
    let opts = world.server_opts();
    let mut node = Node::new(&chain.consensus, 5, 2000, 1);
    let peer = PeerIndex::new(1);
    set_now(*now);
    node.connect(peer);
    let mut lines = vec!["reset 0".to_string()];
    let mut impls = vec!["ok".to_string()];
    let mut reg: BTreeMap<u64, u64> = BTreeMap::new();
    // the write counter / crash trigger
    let counter = std::rc::Rc::new(std::cell::Cell::new(0u64));
    let crash_site = std::rc::Rc::new(std::cell::RefCell::new(String::new()));
    let mut activity = String::new();
    let mut reg_pending = None;
    let mut spans: Vec<(usize, u64, u64)> = Vec::new();
    // the sites of the completed writes, in order
    let sites = std::rc::Rc::new(std::cell::RefCell::new(Vec::<String>::new()));
    {
        let c = counter.clone();
        let cs = crash_site.clone();
        let log = sites.clone();
        crate::verif_hooks::set_before_write(Some(Box::new(move |site| {
            c.set(c.get() + 1);
            if Some(c.get()) != crash_at {
                log.borrow_mut().push(site.to_string());
            }
            if Some(c.get()) == crash_at {
                *cs.borrow_mut() = site.to_string();
                panic!("simulated crash at store write {}", c.get());
            }
        })));
    }
    let mut crashed = false;
    let chain_of = |_p: PeerIndex| Some(chain);
    'outer: for step in steps {
        rep.evaluations += 1;
        match step {
            Step::Set(cmd, list) => {
                let before = observe(&node, chain);
                let statuses: Vec<ScriptStatus> = list
                    .iter()
                    .map(|(id, n)| {
                        let (sc, ty) = reg_of(*id);
                        ScriptStatus { script: sc.into(), script_type: ty, block_number: (*n).into() }
                    })
                    .collect();
                let command = match cmd {
                    0 => SetScriptsCommand::All,
                    1 => SetScriptsCommand::Partial,
                    _ => SetScriptsCommand::Delete,
                };
                let rpc = node.filter_rpc();
                activity = format!("set_scripts({})", cmd);
                let w0 = sites.borrow().len();
                let r = catch(|| rpc.set_scripts(statuses, Some(command)));
                drop(rpc);
                let body: Vec<String> = list.iter().map(|(i, n)| format!("{} {}", i, n)).collect();
                let mut reg_new = reg.clone();
                match cmd {
                    0 => {
                        reg_new.clear();
                        for (i, n) in list {
                            reg_new.insert(*i, *n);
                        }
                    }
                    1 => {
                        if !list.is_empty() {
                            for (i, n) in &before.scripts {
                                reg_new.entry(*i).or_insert(*n);
                            }
                            for (i, n) in list {
                                reg_new.insert(*i, *n);
                            }
                        }
                    }
                    _ => {
                        for (i, _) in list {
                            reg_new.remove(i);
                        }
                    }
                }
                if r.is_err() {
                    reg_pending = Some(reg_new);
                    crashed = true;
                    lines.push(format!("set {} | {} @ CRASH", cmd, body.join(" ")));
                    impls.push(String::new());
                    break 'outer;
                }
                lines.push(format!("set {} | {}", cmd, body.join(" ")));
                impls.push(format!("writes {}", sites.borrow()[w0..].join(" ")));
                spans.push((lines.len() - 1, w0 as u64, sites.borrow().len() as u64));
                lines.push("dump".into());
                impls.push(show_obs(&observe(&node, chain)));
                // registration bookkeeping for the oracle
                reg = reg_new;
                rep.count_op("set_scripts");
            }
            Step::Run(n) => {
                *now += 3000;
                set_now(*now);
                activity = "timers".to_string();
                if catch(|| node.tick_all()).is_err() {
                    crashed = true;
                    break 'outer;
                }
                let mut budget = *n;
                while budget > 0 {
                    let sent = node.collect();
                    if sent.is_empty() {
                        break;
                    }
                    for (protocol, p, data) in sent {
                        if budget == 0 {
                            break; // unanswered requests are simply lost (the peer is slow)
                        }
                        budget -= 1;
                        let replies = match server::handle(chain, &opts, protocol, &data) {
                            Ok(r) => r,
                            Err(e) => {
                                node.server_errors.push(e);
                                continue;
                            }
                        };
                        for (rp, bytes) in replies {
                            let (kind, start) = classify(rp, &bytes);
                            let before = observe(&node, chain);
                            let volatile_empty =
                                node.i().peers.matched_blocks().read().unwrap().is_empty();
                            activity = format!("{}({})", kind, start);
                            let w0 = sites.borrow().len();
                            if catch(|| node.deliver(p, rp, bytes)).is_err() {
                                crashed = true;
                                break 'outer;
                            }
                            let after = observe(&node, chain);
                            if let Some(op) = model_op_after(&before, &after, &kind, start, volatile_empty) {
                                lines.push(op);
                                impls.push(format!("writes {}", sites.borrow()[w0..].join(" ")));
                                spans.push((lines.len() - 1, w0 as u64, sites.borrow().len() as u64));
                                lines.push("dump".into());
                                impls.push(show_obs(&after));
                                rep.count_op(&kind);
                            }
                        }
                    }
                }
            }
        }
        // ---- Safe: nothing at or below a script's recorded number was skipped
        let o = observe(&node, chain);
        for (sid, n_s) in &o.scripts {
            let start = *reg.get(sid).unwrap_or(&0);
            let idx = indexed_blocks(&node, *sid);
            let pending: BTreeSet<u64> = o.records.iter().flat_map(|r| r.2.iter().cloned()).collect();
            if let Some(t) = world.touches.get(sid) {
                let attributable: BTreeSet<u64> = t
                    .iter()
                    .filter(|(_, created)| *created > start)
                    .map(|(b, _)| *b)
                    .collect();
                for b in attributable.iter().filter(|b| **b > start && **b <= *n_s && **b <= chain.tip_number()) {
                    if !idx.contains(b) && !pending.contains(b) {
                        rep.violate(
                            "C09|overclaim",
                            "get_scripts reports a script as filtered up to a height although a block at or below it that touches the script is neither indexed nor pending",
                            vec![format!("# script {} registered from {} reports {} but block {} is skipped", sid, start, n_s, b)],
                        );
                    }
                }
            }
        }
        let _ = _chain_of_unused(&chain_of);
    }
    crate::verif_hooks::set_before_write(None);
    let writes_seen = counter.get();
    (
        node,
        RunOut {
            lines,
            impls,
            crashed,
            writes_seen,
            reg,
            reg_pending,
            crash_ctx: format!("{} @ {}", activity, crash_site.borrow()),
            spans,
        },
    )
}

fn _chain_of_unused<'a>(_f: &dyn Fn(PeerIndex) -> Option<&'a SimChain>) {}

pub(crate) fn classify(protocol: ProtocolId, data: &Bytes) -> (String, u64) {
    if protocol == SupportProtocols::Filter.protocol_id() {
        if let Ok(m) = packed::BlockFilterMessageReader::from_compatible_slice(data) {
            if let packed::BlockFilterMessageUnionReader::BlockFilters(r) = m.to_enum() {
                return ("BlockFilters".into(), r.start_number().unpack());
            }
            return (m.to_enum().item_name().to_string(), 0);
        }
    } else if protocol == SupportProtocols::Sync.protocol_id() {
        if let Ok(m) = packed::SyncMessageReader::from_compatible_slice(data) {
            return (m.to_enum().item_name().to_string(), 0);
        }
    }
    ("other".into(), 0)
}

/// continue syncing with the honest peer until quiet; returns the per-script indexed blocks
pub(crate) fn converge(node: &mut Node, world: &World, now: &mut u64) -> BTreeMap<u64, BTreeSet<u64>> {
    let chain = &world.chain;
    let opts = world.server_opts();
    let peer = PeerIndex::new(1);
    // a request lost in a bounded round makes the client drop the peer after the message
    // timeout; the network layer would dial again, so does the harness.  The honest chain
    // keeps growing meanwhile (blocks without activity): a client cannot prove a peer whose
    // tip is exactly its stored tip.
    let mut grown = chain.fork(chain.tip_number(), 7);
    // (a record can list every block of the chain - a batch filtered for a script set whose
    // start numbers all lie above it matches everything - and a round downloads a few blocks)
    for _ in 0..40 {
        grown.append_simple(1);
        let chain_of = |_p: PeerIndex| Some(&grown);
        if node.i().peers.get_state(&peer).is_none() {
            node.connect(peer);
        }
        node.run_to_quiescence(&chain_of, &opts, now, 3000, 400);
        if std::env::var("VERIF_DEBUG_SYNC").is_ok() {
            eprintln!("  round: requests {:?} state {}", node.requests, node.i().peers.get_state(&peer).is_some());
        }
        let quiet = node.i().peers.get_state(&peer).is_some()
            && node.i().peers.matched_blocks().read().unwrap().is_empty()
            && node.i().storage.get_earliest_matched_blocks().is_none();
        if quiet {
            break;
        }
        // let every message / download timeout of the client expire
        *now += 120_000;
        set_now(*now);
    }
    if std::env::var("VERIF_DEBUG_SYNC").is_ok() {
        eprintln!(
            "converge: requests {:?} bans {:?} server_errors {:?} state {} volatile {} record {:?}",
            node.requests,
            node.bans,
            node.server_errors,
            node.i().peers.get_state(&peer).is_some(),
            node.i().peers.matched_blocks().read().unwrap().len(),
            node.i().storage.get_earliest_matched_blocks().map(|r| (r.0, r.1, r.2.len()))
        );
    }
    let mut out = BTreeMap::new();
    for sid in ALL_IDS {
        out.insert(sid, indexed_blocks(node, sid));
    }
    out
}

/// the ground truth after convergence: every touching block above the registration number
fn expected_index(world: &World, reg: &BTreeMap<u64, u64>, scripts: &BTreeMap<u64, u64>) -> BTreeMap<u64, BTreeSet<u64>> {
    let mut out = BTreeMap::new();
    for sid in scripts.keys() {
        let start = *reg.get(sid).unwrap_or(&0);
        let set: BTreeSet<u64> = world
            .touches
            .get(sid)
            .map(|t| t.iter().filter(|(b, created)| *b > start && *created > start).map(|(b, _)| *b).collect())
            .unwrap_or_default();
        out.insert(*sid, set);
    }
    out
}

fn parse_seeds(text: &str) -> Vec<(u64, usize)> {
    text.lines()
        .filter_map(|l| {
            let t: Vec<&str> = l.split_whitespace().collect();
            if t.first() == Some(&"history-seed") && t.len() >= 4 {
                Some((t[1].parse().ok()?, t[3].parse().ok()?))
            } else {
                None
            }
        })
        .collect()
}

pub fn run(opts: &Options, prop: &str) -> Report {
    let mut rep = Report::default();
    rep.rule = "full-stack histories: a dummy-PoW chain of 30..90 blocks whose transactions pay to / \
        spend from 3 scripts, one honest peer, check point interval 2000 (latest-hashes path), \
        last_n 5; steps = set_scripts (all / partial / delete; empty lists, duplicates, start numbers \
        0, 1, tip/3, tip/2, tip-1, tip, tip+5) interleaved with bounded sync rounds (timers + at most \
        1..6 answered requests, the rest lost); after every store-changing message the (scripts, \
        min filtered, records) triple is compared with the Sync model; C08 additionally re-runs the \
        history with a crash in front of the k-th store write for sampled k, restarts, and lets the \
        sync converge; non-trivial = a registered script has indexed activity at the end; \
        distinct = distinct history seed (x crash point)"
        .into();
    let mut rng = Rng::new(opts.seed ^ fnv(prop));
    let mut seeds: Vec<(u64, usize)> = Vec::new();
    if let Some(p) = &opts.replay {
        seeds = parse_seeds(&std::fs::read_to_string(p).expect("replay"));
    } else {
        if let Ok(rd) = std::fs::read_dir(format!("/verif/corpus/{}", prop)) {
            for e in rd.flatten() {
                seeds.extend(parse_seeds(&std::fs::read_to_string(e.path()).unwrap_or_default()));
            }
        }
        let n = match (prop, opts.thorough()) {
            ("C08", false) => 12,
            ("C08", true) => 300,
            (_, false) => 60,
            (_, true) => 1500,
        };
        for _ in 0..n {
            seeds.push((rng.next(), rng.range(6, 22) as usize));
        }
    }
    let mut all_lines = Vec::new();
    let mut all_impls = Vec::new();
    let mut owner = Vec::new();
    for (hi, (seed, len)) in seeds.iter().enumerate() {
        let mut hrng = Rng::new(*seed);
        super::seed_client_randomness(*seed);
        let n_blocks = hrng.range(30, 90);
        let world = build_world(&mut hrng, n_blocks);
        let steps = gen_steps(&mut hrng, world.chain.tip_number(), *len);
        let t0 = world.chain.tip().timestamp() + 5000;
        let replay = |extra: String| vec![format!("history-seed {} len {}", seed, len), extra];
        // ---- the uncrashed run
        let mut now = t0;
        let (mut node, out) = run_steps(&mut rep, &world, &steps, None, &mut now);
        let final_scripts = observe(&node, &world.chain).scripts;
        let got = converge(&mut node, &world, &mut now);
        let final_obs = observe(&node, &world.chain);
        let expect = expected_index(&world, &out.reg, &final_obs.scripts);
        let mut any = false;
        for (sid, exp) in &expect {
            let g = got.get(sid).cloned().unwrap_or_default();
            // blocks indexed for other reasons (registered earlier, then re-registered higher) may
            // remain: only missing activity is a violation
            let missing: Vec<u64> = exp.difference(&g).cloned().collect();
            if !g.is_empty() {
                any = true;
            }
            if !missing.is_empty() {
                rep.violate(
                    &format!("{}|activity-lost|no-crash", prop),
                    "after syncing to the tip a registered script misses blocks that touch it above its start number",
                    replay(format!("# script {} from {}: missing blocks {:?}; steps {:?}", sid, out.reg.get(sid).unwrap_or(&0), missing, steps)),
                );
            }
        }
        let _ = final_scripts;
        if final_obs.min_f < world.chain.tip_number() && !final_obs.scripts.is_empty() {
            rep.violate(
                &format!("{}|stuck|no-crash", prop),
                "filter sync does not reach the tip",
                replay(format!("# min filtered {} tip {} records {:?}", final_obs.min_f, world.chain.tip_number(), final_obs.records)),
            );
        }
        if any {
            rep.nontrivial.insert(fnv(&format!("{}:{}", seed, len)));
        }
        if hi % 13 == 0 {
            rep.sample(&format!("history-seed {} len {}: tip {} steps {:?}", seed, len, world.chain.tip_number(), steps));
        }
        for _ in 0..out.lines.len() {
            owner.push(hi);
        }
        all_lines.extend(out.lines.clone());
        all_impls.extend(out.impls.clone());
        drop(node);

        // ---- crash points (C08)
        if prop == "C08" {
            let total = out.writes_seen;
            let ks: Vec<u64> = if opts.thorough() || total <= 40 {
                (1..=total).collect()
            } else {
                // every write of the first 15, then a sample
                let mut v: Vec<u64> = (1..=15).collect();
                let mut r2 = Rng::new(*seed ^ 0xc8);
                for _ in 0..25 {
                    v.push(r2.range(16, total));
                }
                v.sort();
                v.dedup();
                v
            };
            for k in ks {
                rep.evaluations += 1;
                super::seed_client_randomness(*seed);
                let mut now = t0;
                let (mut node, cout) = run_steps(&mut rep, &world, &steps, Some(k), &mut now);
                if !cout.crashed {
                    continue;
                }
                rep.count_class("crash:injected");
                // restart: may abort if the store is unusable
                let reopened = catch(|| node.restart());
                if let Err(e) = reopened {
                    rep.violate(
                        "C08|store-unusable-after-crash",
                        "the client aborts at start-up after a crash",
                        replay(format!("# crash at store write {} of {}; start-up panic: {}", k, total, e)),
                    );
                    continue;
                }
                // ---- the store after the crash = the model after the same prefix of writes
                {
                    let done = k - 1; // completed writes
                    let mut trace: Vec<String> = Vec::new();
                    let hit = out.spans.iter().find(|(_, a, b)| *a <= done && done < *b);
                    match hit {
                        Some((li, a, _)) => {
                            trace.extend(out.lines[..*li].iter().cloned());
                            trace.push(format!("{} @ {}", out.lines[*li], done - a));
                        }
                        None => {
                            // the interrupted write belongs to no modelled operation: everything
                            // completed before it counts
                            let upto = out
                                .spans
                                .iter()
                                .filter(|(_, _, b)| *b <= done)
                                .map(|(li, _, _)| *li + 1)
                                .max()
                                .unwrap_or(1);
                            trace.extend(out.lines[..upto].iter().cloned());
                        }
                    }
                    trace.push("dump".into());
                    let n = trace.len();
                    for (i, l) in trace.into_iter().enumerate() {
                        all_lines.push(l);
                        all_impls.push(if i + 1 == n { show_obs(&observe(&node, &world.chain)) } else { String::new() });
                        owner.push(hi);
                    }
                    rep.count_op("crash-state");
                }
                let conv = catch(|| converge(&mut node, &world, &mut now));
                let got = match conv {
                    Ok(g) => g,
                    Err(e) => {
                        rep.violate(
                            "C08|abort-after-crash",
                            "the client aborts while syncing after a crash",
                            replay(format!("# crash at store write {} of {}; panic: {}", k, total, e)),
                        );
                        continue;
                    }
                };
                let obs = observe(&node, &world.chain);
                // an interrupted set_scripts call did not return: either registration is fine, a
                // script is then owed its activity above the larger of its two start numbers
                let mut reg = cout.reg.clone();
                if let Some(pending) = &cout.reg_pending {
                    for (sid, n) in pending {
                        let e = reg.entry(*sid).or_insert(*n);
                        *e = (*e).max(*n);
                    }
                }
                let expect = expected_index(&world, &reg, &obs.scripts);
                let act = cout.crash_ctx.split('(').next().unwrap_or("").to_string();
                let site = cout.crash_ctx.split(" @ ").nth(1).unwrap_or("").to_string();
                for (sid, exp) in &expect {
                    let g = got.get(sid).cloned().unwrap_or_default();
                    let missing: Vec<u64> = exp.difference(&g).cloned().collect();
                    if !missing.is_empty() {
                        rep.violate(
                            &format!("C08|activity-lost|crash-in-{}-at-{}", act, site),
                            "a crash at a store write makes a registered script lose activity for good",
                            replay(format!("# crash at store write {} of {} ({}); script {} from {}: missing blocks {:?}; steps {:?}", k, total, cout.crash_ctx, sid, reg.get(sid).unwrap_or(&0), missing, steps)),
                        );
                    }
                }
                if obs.min_f < world.chain.tip_number() && !obs.scripts.is_empty() {
                    rep.violate(
                        "C08|stuck-after-crash",
                        "after a crash the filter sync never reaches the tip again",
                        replay(format!("# crash at store write {} of {} ({}); scripts {:?}; min filtered {} tip {} records {:?}", k, total, cout.crash_ctx, obs.scripts, obs.min_f, world.chain.tip_number(), obs.records.iter().map(|r| (r.0, r.1, r.2.len())).collect::<Vec<_>>())),
                    );
                }
            }
        }
    }
    // ---- first-run initialisation (C08): a crash in front of every store write of the very
    // first start, then a normal start and a complete sync
    if prop == "C08" && opts.replay.is_none() {
        let mut hrng = Rng::new(opts.seed ^ 0x1417);
        let world = build_world(&mut hrng, 30);
        let mut total_writes = 0u64;
        let mut k = 1u64;
        loop {
            rep.evaluations += 1;
            let mut node = Node::new_unopened(&world.chain.consensus, 5, 2000, 1);
            let counter = std::rc::Rc::new(std::cell::Cell::new(0u64));
            let first_sites: std::rc::Rc<std::cell::RefCell<Vec<&'static str>>> = Default::default();
            {
                let c = counter.clone();
                let fs = first_sites.clone();
                crate::verif_hooks::set_before_write(Some(Box::new(move |site| {
                    fs.borrow_mut().push(site);
                    c.set(c.get() + 1);
                    if c.get() == k {
                        panic!("simulated crash at store write {} of the first start", c.get());
                    }
                })));
            }
            let first = catch(|| node.open());
            crate::verif_hooks::set_before_write(None);
            if first.is_ok() {
                total_writes = counter.get();
                // the writes of an uninterrupted first start against the Meta model
                let ans = run_model(opts, "meta", &["reset".to_string(), "init 1 0".to_string(), "init 1 0".to_string()]);
                let imp = format!("writes {}", first_sites.borrow().join(" "));
                if ans.get(1) == Some(&imp) && ans.get(2).map(|a| a.trim_end()) == Some("writes") {
                    rep.traces_validated += 1;
                } else {
                    rep.disagree("meta: init (the store writes of the first start)", &imp, ans.get(1).map(|s| s.as_str()).unwrap_or(""));
                }
                break; // k is beyond the last write of the initialisation
            }
            node.inner = None;
            rep.count_class("crash:first-start");
            let replay = vec![format!("init-crash {}", k), format!("# crash in front of store write {} of the first start", k)];
            match catch(|| node.open()) {
                Err(e) => {
                    rep.violate(
                        "C08|store-unusable-after-crash|first-start",
                        "after a crash during the first start the client aborts on every further start",
                        vec![replay[0].clone(), format!("{}; second start: {}", replay[1], e.chars().take(200).collect::<String>())],
                    );
                }
                Ok(()) => {
                    // usable: registers scripts and syncs to the ground truth
                    let mut now = world.chain.tip().timestamp() + 5000;
                    set_now(now);
                    let r = catch(|| {
                        node.connect(PeerIndex::new(1));
                        let statuses: Vec<ScriptStatus> = ALL_IDS
                            .iter()
                            .map(|id| {
                                let (sc, ty) = reg_of(*id);
                                ScriptStatus { script: sc.into(), script_type: ty, block_number: 0.into() }
                            })
                            .collect();
                        node.filter_rpc().set_scripts(statuses, Some(SetScriptsCommand::All)).expect("set_scripts");
                        converge(&mut node, &world, &mut now)
                    });
                    match r {
                        Err(e) => rep.violate(
                            "C08|abort-after-crash|first-start",
                            "after a crash during the first start the client aborts while syncing",
                            vec![replay[0].clone(), format!("{}; {}", replay[1], e.chars().take(200).collect::<String>())],
                        ),
                        Ok(got) => {
                            let reg: BTreeMap<u64, u64> = ALL_IDS.iter().map(|i| (*i, 0)).collect();
                            let expect = expected_index(&world, &reg, &reg);
                            for (sid, exp) in &expect {
                                let g = got.get(sid).cloned().unwrap_or_default();
                                if exp.difference(&g).next().is_some() {
                                    rep.violate(
                                        "C08|activity-lost|first-start",
                                        "after a crash during the first start a registered script misses activity",
                                        vec![replay[0].clone(), format!("{}; script {}", replay[1], sid)],
                                    );
                                }
                            }
                        }
                    }
                }
            }
            k += 1;
            if k > 40 {
                break;
            }
        }
        rep.notes.push(format!("first start: {} store writes, a crash injected in front of each", total_writes));
    }
    ckb_systemtime::faketime().disable_faketime();
    let answers = run_model(opts, "sync", &all_lines);
    let mut bad = BTreeSet::new();
    for (i, a) in answers.iter().enumerate() {
        if all_impls[i].is_empty() {
            continue; // write counts are informational
        }
        if *a == all_impls[i] {
            rep.traces_validated += 1;
        } else if bad.insert(owner[i]) {
            let (seed, len) = seeds[owner[i]];
            rep.disagree(
                &format!("{} after `{}`  [history-seed {} len {}]", all_lines[i], all_lines[i.saturating_sub(1)], seed, len),
                &all_impls[i],
                a,
            );
        }
    }
    rep
}

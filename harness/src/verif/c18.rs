//! C18 — send_transaction admits only verifiable transactions; pool bound; relays once per peer.
//! Histories of submissions / connects / ticks against the real `TransactionRpcImpl`,
//! `PendingTxs` and `RelayProtocol`, compared with the `Pool` Lean layer; verdict-level oracle.

use std::collections::{BTreeMap, BTreeSet};
use std::sync::{Arc, RwLock};

use ckb_network::{CKBProtocolHandler, PeerIndex, SupportProtocols};
use ckb_types::{
    bytes::Bytes,
    core::{DepType, HeaderBuilder, ScriptHashType, TransactionBuilder, TransactionView},
    packed::{self, Byte32, CellDep, CellInput, CellOutput, OutPoint, Script},
    prelude::*,
};

use super::env::{as_ctx, block_on, Env, MockContext};
use super::{catch, fnv, run_model, Options, Report, Rng};
use crate::protocols::{PendingTxs, RelayProtocol};
use crate::service::{Status, TransactionRpc, TransactionRpcImpl};
use crate::storage::{HeaderWithExtension, StorageWithChainData};

const ALWAYS_SUCCESS_PATH: &str = "/repo/src/tests/specs/cells/always_success";

#[derive(Clone, Copy, Debug, PartialEq)]
enum Fault {
    None,
    CapacityOverflow,
    DupInput,
    /// the same cell twice, with two different (both satisfied) `since` values
    DupInputOtherSince,
    UnknownInput,
    UnknownDep,
    Immature,
    NoOutputs,
    DupCellDep,
    ScriptMissing,
    Resubmit,
}

struct World {
    env: Env,
    nc: Arc<MockContext>,
    rpc: TransactionRpcImpl,
    relay: RelayProtocol,
    lock: Script,
    dep: CellDep,
    ids: BTreeMap<Byte32, u64>,
    /// spendable out points: (out point, capacity, creator id)
    cells: Vec<(OutPoint, u64)>,
    txs: BTreeMap<u64, TransactionView>,
    /// peers which got an announcement (their `opened_peers` entry holds an Instant)
    has_instant: BTreeSet<u64>,
    opened: BTreeSet<u64>,
    peer_ids: BTreeMap<u64, ckb_network::PeerId>,
    next_number: u64,
    /// dep group cells (committed): [always-success], [always-success, unknown], [unknown,
    /// always-success]; and the out point nobody knows
    groups: Vec<OutPoint>,
    unknown_member: OutPoint,
}

impl World {
    fn new(limit: usize, rng: &mut Rng) -> World {
        let env = Env::new(1, 2000);
        let bin = std::fs::read(ALWAYS_SUCCESS_PATH).expect("always_success binary");
        let lock = Script::new_builder()
            .hash_type(ScriptHashType::Data.into())
            .code_hash(CellOutput::calc_data_hash(&bin))
            .build();
        let genesis = env.consensus.genesis_block();
        let mut dep = None;
        for tx in genesis.transactions() {
            for (idx, data) in tx.outputs_data().into_iter().enumerate() {
                if data.raw_data().as_ref() == &bin[..] {
                    dep = Some(
                        CellDep::new_builder()
                            .out_point(OutPoint::new(tx.hash(), idx as u32))
                            .build(),
                    );
                }
            }
        }
        let pending = Arc::new(RwLock::new(PendingTxs::new(limit)));
        let swc = StorageWithChainData::new(
            env.storage.clone(),
            Arc::clone(&env.peers),
            Arc::clone(&pending),
        );
        let consensus = Arc::new(env.consensus.clone());
        let ckb2023 = env
            .consensus
            .hardfork_switch
            .ckb2023
            .is_vm_version_2_and_syscalls_3_enabled(0);
        let relay = RelayProtocol::new(
            Arc::clone(&pending),
            Arc::clone(&env.peers),
            env.consensus.clone(),
            env.storage.clone(),
            ckb2023,
        );
        let mut w = World {
            nc: MockContext::new(SupportProtocols::RelayV2),
            rpc: TransactionRpcImpl { swc, consensus },
            relay,
            lock,
            dep: dep.expect("always success cell in genesis"),
            ids: BTreeMap::new(),
            cells: Vec::new(),
            txs: BTreeMap::new(),
            has_instant: BTreeSet::new(),
            opened: BTreeSet::new(),
            peer_ids: BTreeMap::new(),
            next_number: 1,
            groups: Vec::new(),
            unknown_member: OutPoint::new([0xd9; 32].pack(), 7),
            env,
        };
        // funding transactions, stored as fetched
        let n_fund = rng.range(2, 4);
        for f in 0..n_fund {
            let outs: Vec<CellOutput> = (0..3)
                .map(|_| {
                    CellOutput::new_builder()
                        .capacity((1000_0000_0000u64).pack())
                        .lock(w.lock.clone())
                        .build()
                })
                .collect();
            let tx = TransactionBuilder::default()
                .outputs(outs)
                .outputs_data(vec![Bytes::new().pack(); 3])
                .witness(Bytes::from(vec![0xf0, f as u8]).pack())
                .build();
            w.commit(&tx);
            for i in 0..3u32 {
                w.cells.push((OutPoint::new(tx.hash(), i), 1000_0000_0000));
            }
        }
        // three dep group cells: complete, and two with a member that no store / pool knows
        {
            let code = w.dep.out_point();
            let unk = w.unknown_member.clone();
            let datas: Vec<Bytes> = vec![
                vec![code.clone()].pack().as_bytes(),
                vec![code.clone(), unk.clone()].pack().as_bytes(),
                vec![unk, code].pack().as_bytes(),
            ];
            let outs: Vec<CellOutput> = (0..3)
                .map(|_| CellOutput::new_builder().capacity((1000_0000_0000u64).pack()).lock(w.lock.clone()).build())
                .collect();
            let tx = TransactionBuilder::default()
                .outputs(outs)
                .outputs_data(datas.iter().map(|d| d.pack()).collect::<Vec<_>>())
                .witness(Bytes::from(vec![0xf1]).pack())
                .build();
            w.commit(&tx);
            w.groups = (0..3u32).map(|i| OutPoint::new(tx.hash(), i)).collect();
        }
        w
    }

    fn id(&mut self, h: &Byte32) -> u64 {
        let n = self.ids.len() as u64 + 1;
        *self.ids.entry(h.clone()).or_insert(n)
    }

    /// the transaction becomes part of the store (as a fetched transaction of a new block)
    fn commit(&mut self, tx: &TransactionView) -> u64 {
        let header = HeaderBuilder::default()
            .number(self.next_number.pack())
            .build();
        self.next_number += 1;
        self.env.storage.add_fetched_tx(
            &tx.data(),
            &HeaderWithExtension {
                header: header.data(),
                extension: None,
            },
        );
        let id = self.id(&tx.hash());
        self.txs.insert(id, tx.clone());
        id
    }
}

fn refs(w: &mut World, pts: &[OutPoint]) -> String {
    pts.iter()
        .map(|o| {
            let id = w.id(&o.tx_hash());
            let idx: u32 = o.index().unpack();
            format!("{} {}", id, idx)
        })
        .collect::<Vec<_>>()
        .join(" ")
}

fn classify_err(msg: &str) -> String {
    // the RPC wraps the verifier's error as `invalid transaction: {:?}`
    let m = msg;
    let c = if m.contains("Dead(") {
        "dead-input"
    } else if m.contains("Unknown(") {
        "unknown-cell"
    } else if m.contains("Immature") || m.contains("InvalidSince") {
        "time-relative"
    } else if m.contains("OutputsSumOverflow") || m.contains("InsufficientCellCapacity") {
        "capacity"
    } else if m.contains("Script") || m.contains("script") {
        "script"
    } else if m.contains("Empty") || m.contains("DuplicateCellDeps") || m.contains("Transaction(") {
        "non-contextual"
    } else {
        return format!("err other:{}", m.chars().take(80).collect::<String>());
    };
    format!("err {}", c)
}

fn canon_ann(s: &str) -> String {
    // "ann p:[a,b] q:[c]" -> sorted by peer
    let mut parts: Vec<&str> = s.split(' ').filter(|t| !t.is_empty()).collect();
    if parts.first() == Some(&"ann") {
        parts.remove(0);
        parts.sort();
        return format!("ann {}", parts.join(" "));
    }
    s.to_string()
}

fn run_history(rep: &mut Report, seed: u64, len: usize) -> (Vec<String>, Vec<String>) {
    let mut rng = Rng::new(seed);
    let limit = *rng.pick(&[1usize, 2, 3, 5, 64]);
    let mut w = World::new(limit, &mut rng);
    let mut lines = vec![format!("init {}", limit)];
    let mut impls = vec!["ok".to_string()];
    // the funding transactions
    let fund_ids: Vec<u64> = w.txs.keys().cloned().collect();
    for id in fund_ids {
        lines.push(format!("commit {} 3", id));
        impls.push("ok".into());
    }
    let replay = |seed: u64| vec![format!("history-seed {} len {}", seed, len)];
    let mut announced: BTreeSet<(u64, u64)> = BTreeSet::new();
    let mut resubmitted: BTreeSet<u64> = BTreeSet::new();
    let mut readmitted: BTreeSet<u64> = BTreeSet::new();
    let mut accepted: BTreeSet<u64> = BTreeSet::new();
    let mut pending_pool: Vec<u64> = Vec::new(); // ids accepted, for Resubmit / chaining
    let mut any_ok = false;

    let record_ann = |w: &mut World, rep: &mut Report, announced: &mut BTreeSet<(u64, u64)>, resubmitted: &BTreeSet<u64>, readmitted: &BTreeSet<u64>, accepted: &BTreeSet<u64>| -> String {
        let rec = w.nc.take();
        let mut out: Vec<String> = Vec::new();
        for (_proto, peer, data) in rec.sent {
            let msg = packed::RelayMessage::from_slice(&data).expect("relay message");
            if let packed::RelayMessageUnion::RelayTransactionHashes(h) = msg.to_enum() {
                let p = peer.value() as u64;
                let mut ids = Vec::new();
                for hash in h.tx_hashes().into_iter() {
                    let id = w.id(&hash);
                    ids.push(id);
                    if !accepted.contains(&id) {
                        rep.violate(
                            "C18|rejected-tx-relayed",
                            "a transaction that was never admitted is announced",
                            replay(seed),
                        );
                    }
                    if !announced.insert((id, p)) {
                        if std::env::var("VERIF_DEBUG_PANICS").is_ok() {
                            eprintln!("dup announce id={} peer={} resubmitted={:?}", id, p, resubmitted);
                        }
                        rep.violate(
                            if readmitted.contains(&id) {
                                "C18|announced-twice|after-eviction-and-resubmission"
                            } else if resubmitted.contains(&id) {
                                "C18|announced-twice|after-resubmission"
                            } else {
                                "C18|announced-twice"
                            },
                            "a pending hash is announced to the same peer twice",
                            replay(seed),
                        );
                    }
                }
                out.push(format!(
                    "{}:[{}]",
                    p,
                    ids.iter().map(|i| i.to_string()).collect::<Vec<_>>().join(", ")
                ));
            }
        }
        out.sort();
        format!("ann {}", out.join(" "))
    };

    for step in 0..len {
        rep.evaluations += 1;
        match rng.below(10) {
            0 | 1 | 2 | 3 | 4 => {
                // ---- submit
                let fault = *rng.pick(&[
                    Fault::None,
                    Fault::None,
                    Fault::None,
                    Fault::None,
                    Fault::CapacityOverflow,
                    Fault::DupInput,
                    Fault::DupInputOtherSince,
                    Fault::UnknownInput,
                    Fault::UnknownDep,
                    Fault::Immature,
                    Fault::NoOutputs,
                    Fault::DupCellDep,
                    Fault::ScriptMissing,
                    Fault::Resubmit,
                ]);
                let mut group_mode = "";
                let tx: TransactionView = if fault == Fault::Resubmit && !pending_pool.is_empty() {
                    let id = *rng.pick(&pending_pool);
                    resubmitted.insert(id);
                    w.txs.get(&id).unwrap().clone()
                } else {
                    if w.cells.is_empty() {
                        continue;
                    }
                    let n_in = rng.range(1, 2.min(w.cells.len() as u64)) as usize;
                    let mut ins: Vec<(OutPoint, u64)> = Vec::new();
                    for _ in 0..n_in {
                        let i = rng.below(w.cells.len() as u64) as usize;
                        // valid transactions consume the cell; faulty ones leave it available
                        let c = if fault == Fault::None { w.cells.remove(i) } else { w.cells[i].clone() };
                        if !ins.iter().any(|x| x.0 == c.0) {
                            ins.push(c);
                        }
                    }
                    let total: u64 = ins.iter().map(|c| c.1).sum();
                    let n_out = rng.range(1, 2);
                    let fee = 1000;
                    let each = (total - fee) / n_out;
                    let mut outputs: Vec<CellOutput> = (0..n_out)
                        .map(|_| {
                            CellOutput::new_builder()
                                .capacity(each.pack())
                                .lock(w.lock.clone())
                                .build()
                        })
                        .collect();
                    let mut inputs: Vec<CellInput> =
                        ins.iter().map(|c| CellInput::new(c.0.clone(), 0)).collect();
                    let mut deps = vec![w.dep.clone()];
                    match fault {
                        Fault::CapacityOverflow => {
                            outputs[0] = outputs[0]
                                .clone()
                                .as_builder()
                                .capacity((total + 1).pack())
                                .build();
                        }
                        Fault::DupInput => inputs.push(inputs[0].clone()),
                        Fault::DupInputOtherSince => {
                            // absolute block number 1: as satisfied as 0 is
                            inputs.push(CellInput::new(ins[0].0.clone(), 1));
                        }
                        Fault::UnknownInput => {
                            let pos = rng.below(inputs.len() as u64 + 1) as usize;
                            inputs.insert(
                                pos,
                                CellInput::new(OutPoint::new([rng.next() as u8; 32].pack(), 0), 0),
                            );
                        }
                        Fault::UnknownDep => deps.push(
                            CellDep::new_builder()
                                .out_point(OutPoint::new([0xdd; 32].pack(), rng.below(3) as u32))
                                .dep_type(DepType::Code.into())
                                .build(),
                        ),
                        Fault::Immature => {
                            // absolute block number far above the tip
                            inputs[0] = CellInput::new(ins[0].0.clone(), 1_000_000);
                        }
                        Fault::NoOutputs => outputs.clear(),
                        Fault::DupCellDep => deps.push(w.dep.clone()),
                        Fault::ScriptMissing => {
                            // the spent cell is fine, but an output's *type* script has no code
                            outputs[0] = outputs[0]
                                .clone()
                                .as_builder()
                                .type_(Some(Script::new_builder().code_hash([0x77; 32].pack()).build()).pack())
                                .build();
                        }
                        _ => {}
                    }
                    // dep groups (decided from seed and step, not drawn: the random stream of
                    // the histories stays what it was): a valid transaction names the code
                    // through a complete group; an unknown dep becomes the unknown MEMBER of a
                    // group that also holds the code
                    let gm = fnv(&format!("{}:{}:dep-group", seed, step)) % 4;
                    let group_dep = |o: &OutPoint| CellDep::new_builder().out_point(o.clone()).dep_type(DepType::DepGroup.into()).build();
                    if fault == Fault::None && gm == 0 {
                        deps = vec![group_dep(&w.groups[0])];
                        group_mode = "complete";
                    } else if fault == Fault::UnknownDep && gm < 3 {
                        deps.pop();
                        if gm == 2 {
                            // the group alone: the code is a member of it
                            deps.clear();
                        }
                        deps.push(group_dep(&w.groups[1 + (gm % 2) as usize]));
                        group_mode = "unknown-member";
                    }
                    let n_o = outputs.len();
                    TransactionBuilder::default()
                        .inputs(inputs)
                        .outputs(outputs)
                        .outputs_data(vec![Bytes::new().pack(); n_o])
                        .cell_deps(deps)
                        .witness(Bytes::from(rng.next().to_le_bytes().to_vec()).pack())
                        .build()
                };
                let id = w.id(&tx.hash());
                w.txs.insert(id, tx.clone());
                if accepted.contains(&id) {
                    // the same raw transaction again (witnesses are not part of the hash)
                    resubmitted.insert(id);
                    if w.rpc.swc.pending_txs().read().unwrap().get(&tx.hash()).is_none() {
                        // it had been evicted from the pool: a second residency
                        readmitted.insert(id);
                    }
                }
                let json_tx: ckb_jsonrpc_types::Transaction = tx.data().into();
                let est = catch(|| {
                    use crate::service::ChainRpc;
                    let chain = crate::service::ChainRpcImpl {
                        swc: w.rpc.swc.clone(),
                        consensus: Arc::clone(&w.rpc.consensus),
                    };
                    chain.estimate_cycles(json_tx.clone())
                });
                let r = catch(|| w.rpc.send_transaction(json_tx.clone()));
                // estimate_cycles ran on the same state: same verdict, and it is where the
                // cycles are visible
                let est_txt = match &est {
                    Err(p) => format!("panic {}", super::c14::panic_class(p)),
                    Ok(Err(e)) => classify_err(&e.message),
                    Ok(Ok(e)) => {
                        let c: u64 = e.cycles.into();
                        format!("ok {}", c)
                    }
                };
                let (imp, cycles) = match &r {
                    Err(p) => (format!("panic {}", super::c14::panic_class(p)), None),
                    Ok(Err(e)) => (classify_err(&e.message), None),
                    Ok(Ok(_)) => match &est {
                        Ok(Ok(e)) => {
                            let c: u64 = e.cycles.into();
                            (format!("ok {}", c), Some(c))
                        }
                        _ => ("ok ?".to_string(), Some(0)),
                    },
                };
                if est_txt != imp {
                    rep.violate(
                        "C18|estimate-differs",
                        "estimate_cycles and send_transaction give different verdicts on the same state",
                        replay(seed),
                    );
                }
                if imp.starts_with("panic") {
                    rep.violate(&format!("C18|abort|{}", imp), "send_transaction aborts", replay(seed));
                }
                // verdicts by construction
                let noncontextual = !matches!(fault, Fault::NoOutputs | Fault::DupCellDep);
                let time_rel = fault != Fault::Immature;
                // (an output below its occupied capacity - the cells get small after many splits -
                // is the same verdict class: InsufficientCellCapacity)
                let lacks = tx.outputs().into_iter().any(|o| {
                    o.is_lack_of_capacity(ckb_types::core::Capacity::zero()).unwrap_or(true)
                });
                let capacity = fault != Fault::CapacityOverflow && !lacks;
                let script = if fault == Fault::ScriptMissing { "-".to_string() } else { cycles.unwrap_or(0).to_string() };
                let inputs: Vec<OutPoint> = tx.input_pts_iter().collect();
                // dep groups expanded like resolve_tx does: the group cell, then its members
                let deps: Vec<OutPoint> = tx
                    .cell_deps_iter()
                    .flat_map(|d| {
                        let mut v = vec![d.out_point()];
                        if d.dep_type() == DepType::DepGroup.into() {
                            match w.groups.iter().position(|g| *g == d.out_point()) {
                                Some(0) => v.push(w.dep.out_point()),
                                Some(1) => v.extend([w.dep.out_point(), w.unknown_member.clone()]),
                                Some(2) => v.extend([w.unknown_member.clone(), w.dep.out_point()]),
                                _ => {}
                            }
                        }
                        v
                    })
                    .collect();
                if !group_mode.is_empty() {
                    rep.count_class(&format!("dep-group:{}", group_mode));
                }
                let gen_tx_hash = w.dep.out_point().tx_hash();
                // the genesis always-success transaction is known to the store
                let gid = w.id(&gen_tx_hash);
                if !lines.iter().any(|l| l.starts_with(&format!("commit {} ", gid))) {
                    lines.push(format!("commit {} 1000", gid));
                    impls.push("ok".into());
                }
                let line = format!(
                    "submit {} {} {} {} {} {} | {} | {}",
                    id,
                    tx.outputs().len(),
                    noncontextual as u8,
                    time_rel as u8,
                    capacity as u8,
                    script,
                    refs(&mut w, &inputs),
                    refs(&mut w, &deps)
                );
                // oracle
                if cycles.is_some() {
                    any_ok = true;
                    if !matches!(fault, Fault::None | Fault::Resubmit) {
                        rep.violate(
                            &(if group_mode == "unknown-member" { "C18|admitted-invalid|DepGroupUnknownMember".to_string() } else { format!("C18|admitted-invalid|{:?}", fault) }),
                            "send_transaction admitted a transaction that must be rejected",
                            replay(seed),
                        );
                    }
                    accepted.insert(id);
                    if !pending_pool.contains(&id) {
                        pending_pool.push(id);
                    }
                    if fault == Fault::None {
                        for i in 0..tx.outputs().len() {
                            let cap: u64 = tx.outputs().get(i).unwrap().capacity().unpack();
                            w.cells.push((OutPoint::new(tx.hash(), i as u32), cap));
                        }
                    }
                } else if !accepted.contains(&id) {
                    let st = w.rpc.get_transaction(tx.hash().unpack()).unwrap();
                    if st.tx_status.status != Status::Unknown {
                        rep.violate("C18|rejected-tx-stored", "a rejected transaction is reported by get_transaction", replay(seed));
                    }
                }
                rep.count_op("submit");
                rep.count_class(&format!("submit:{:?}:{}", fault, imp.split(' ').take(2).collect::<Vec<_>>().join(" ")));
                lines.push(line);
                impls.push(imp);
                // pool bound + status of every known hash
                let mut n_pending = 0;
                let known: Vec<(Byte32, u64)> = w.ids.iter().map(|(h, i)| (h.clone(), *i)).collect();
                for (h, i) in known {
                    if !w.txs.contains_key(&i) {
                        continue;
                    }
                    let st = w.rpc.get_transaction(h.unpack()).unwrap();
                    let s = match st.tx_status.status {
                        Status::Committed => "committed".to_string(),
                        Status::Pending => {
                            n_pending += 1;
                            let c: u64 = st.cycles.map(Into::into).unwrap_or(0);
                            format!("pending {}", c)
                        }
                        Status::Unknown => "unknown".to_string(),
                    };
                    lines.push(format!("get {}", i));
                    impls.push(s);
                }
                if n_pending > limit {
                    rep.violate("C18|pool-over-limit", "more pending transactions than the pool limit", replay(seed));
                }
            }
            5 | 6 => {
                let p = rng.range(1, 4);
                let peer = PeerIndex::new(p as usize);
                if !w.peer_ids.contains_key(&p) {
                    let id = w.nc.identify(peer);
                    w.peer_ids.insert(p, id);
                }
                let pool_nonempty = !pending_pool.is_empty()
                    && pending_pool.iter().any(|i| {
                        let h = w.txs.get(i).unwrap().hash();
                        w.rpc.swc.pending_txs().read().unwrap().get(&h).is_some()
                    });
                let r = catch(|| block_on(w.relay.connected(as_ctx(&w.nc), peer, "3")));
                if let Err(pn) = r {
                    rep.violate(&format!("C18|abort|connected {}", pn), "relay connected aborts", replay(seed));
                }
                let ann = record_ann(&mut w, rep, &mut announced, &resubmitted, &readmitted, &accepted);
                // `connected` re-inserts the peer: with or without an announcement timestamp
                if ann != "ann " {
                    w.has_instant.insert(p);
                } else {
                    w.has_instant.remove(&p);
                }
                w.opened.insert(p);
                lines.push(format!("connect {} {}", p, pool_nonempty as u8));
                impls.push(ann);
                rep.count_op("connect");
            }
            7 => {
                let p = rng.range(1, 4);
                block_on(w.relay.disconnected(as_ctx(&w.nc), PeerIndex::new(p as usize)));
                w.opened.remove(&p);
                w.has_instant.remove(&p);
                lines.push(format!("disconnect {}", p));
                impls.push("ok".into());
                rep.count_op("disconnect");
            }
            8 => {
                // relay tick; only when the mock context can serve it (no p2p_control needed):
                // some peer is open and every open peer either gets something new or already
                // holds an announcement timestamp
                if w.opened.is_empty() {
                    continue;
                }
                let pool_hashes: Vec<u64> = pending_pool
                    .iter()
                    .cloned()
                    .filter(|i| {
                        let h = w.txs.get(i).unwrap().hash();
                        w.rpc.swc.pending_txs().read().unwrap().get(&h).is_some()
                    })
                    .collect();
                let safe = w.opened.iter().all(|p| {
                    w.has_instant.contains(p)
                        || pool_hashes.iter().any(|h| {
                            let hash = w.txs.get(h).unwrap().hash();
                            let pid = w.peer_ids.get(p).unwrap();
                            !w.rpc.swc.pending_txs().read().unwrap().get(&hash).unwrap().2.contains(pid)
                        })
                });
                if !safe {
                    continue;
                }
                let r = catch(|| block_on(w.relay.notify(as_ctx(&w.nc), 0)));
                if let Err(pn) = r {
                    rep.violate(&format!("C18|abort|notify {}", pn), "relay notify aborts", replay(seed));
                }
                let ann = record_ann(&mut w, rep, &mut announced, &resubmitted, &readmitted, &accepted);
                for part in ann.split(' ').skip(1) {
                    if let Some((p, _)) = part.split_once(':') {
                        if let Ok(p) = p.parse::<u64>() {
                            w.has_instant.insert(p);
                        }
                    }
                }
                lines.push("tick".into());
                impls.push(ann);
                rep.count_op("tick");
            }
            _ => {
                // a pending transaction gets committed (indexed by filter sync / fetched)
                if pending_pool.is_empty() {
                    continue;
                }
                let id = *rng.pick(&pending_pool);
                let tx = w.txs.get(&id).unwrap().clone();
                w.commit(&tx);
                lines.push(format!("commit {} {}", id, tx.outputs().len()));
                impls.push("ok".into());
                lines.push(format!("get {}", id));
                let st = w.rpc.get_transaction(tx.hash().unpack()).unwrap();
                impls.push(match st.tx_status.status {
                    Status::Committed => "committed".into(),
                    Status::Pending => "pending".into(),
                    Status::Unknown => "unknown".into(),
                });
                rep.count_op("commit");
            }
        }
    }
    if any_ok {
        rep.nontrivial.insert(fnv(&format!("{}-{}", seed, len)));
    }
    (lines, impls)
}

pub fn run(opts: &Options) -> Report {
    let mut rep = Report::default();
    rep.rule = "histories of send_transaction (valid always-success transactions spending stored or \
        pending cells, chains of dependent pending transactions, and single-fault edits: capacity \
        overflow, duplicated / unknown input, unknown dep, immature since, no outputs, duplicated cell \
        dep, missing script code, re-submission), estimate_cycles, get_transaction of every known hash \
        after every submission, relay connect / disconnect / tick and commits, pool limits 1,2,3,5,64; \
        non-trivial = at least one transaction admitted; distinct = distinct history seed"
        .into();
    let mut rng = Rng::new(opts.seed);
    let mut seeds: Vec<(u64, usize)> = Vec::new();
    if let Some(p) = &opts.replay {
        for l in std::fs::read_to_string(p).expect("replay").lines() {
            let t: Vec<&str> = l.split_whitespace().collect();
            if t.first() == Some(&"history-seed") {
                seeds.push((t[1].parse().unwrap(), t[3].parse().unwrap()));
            }
        }
    } else {
        if let Ok(rd) = std::fs::read_dir("/verif/corpus/C18") {
            for e in rd.flatten() {
                for l in std::fs::read_to_string(e.path()).unwrap_or_default().lines() {
                    let t: Vec<&str> = l.split_whitespace().collect();
                    if t.first() == Some(&"history-seed") {
                        seeds.push((t[1].parse().unwrap(), t[3].parse().unwrap()));
                    }
                }
            }
        }
        let n = if opts.thorough() { 3000 } else { 150 };
        for _ in 0..n {
            seeds.push((rng.next(), rng.range(8, 40) as usize));
        }
    }
    let mut all_lines = Vec::new();
    let mut all_impls = Vec::new();
    let mut owner = Vec::new();
    for (i, (seed, len)) in seeds.iter().enumerate() {
        let (l, im) = run_history(&mut rep, *seed, *len);
        if i % 37 == 0 {
            rep.sample(&format!(
                "history-seed {} len {}: {}",
                seed,
                len,
                l.iter().filter(|x| !x.starts_with("get")).take(12).cloned().collect::<Vec<_>>().join("; ")
            ));
        }
        for _ in 0..l.len() {
            owner.push(i);
        }
        all_lines.extend(l);
        all_impls.extend(im);
    }
    let answers = run_model(opts, "pool", &all_lines);
    let mut bad = BTreeSet::new();
    for (i, a) in answers.iter().enumerate() {
        let a = canon_ann(a);
        let imp = canon_ann(&all_impls[i]);
        if a == imp {
            rep.traces_validated += 1;
        } else if bad.insert(owner[i]) {
            let (seed, len) = seeds[owner[i]];
            rep.disagree(
                &format!("{}   [history-seed {} len {}]", all_lines[i], seed, len),
                &imp,
                &a,
            );
        }
    }
    rep
}

//! The transactions Merkle proof of one filtered block (`merkle-cbt` `MerkleProof::root`,
//! `MergeByte32`, `merkle_root`) as `SendTransactionsProofProcess::execute` evaluates it, against the
//! Lean `Cbmt` layer and the statement of `Cbmt.root_contains_leaves`: an accepted list of
//! transaction hashes consists of leaves of the tree the header's transactions root commits to.

use std::collections::{BTreeSet, HashMap};

use ckb_types::{
    packed::Byte32,
    prelude::*,
    utilities::{merkle_root, MerkleProof, CBMT},
};

use super::{catch, fnv, run_model, Options, Report, Rng};

fn rand_hash(r: &mut Rng) -> Byte32 {
    let mut b = [0u8; 32];
    for k in 0..4 {
        b[k * 8..k * 8 + 8].copy_from_slice(&r.next().to_le_bytes());
    }
    b.pack()
}

#[derive(Clone)]
struct Case {
    label: String,
    /// all transaction hashes of the block
    block: Vec<Byte32>,
    troot: Byte32,
    wroot: Byte32,
    indices: Vec<u32>,
    lemmas: Vec<Byte32>,
    txs: Vec<Byte32>,
}

/// the check of one filtered block as `send_transactions_proof.rs` performs it: the guard of the
/// repository (`required_lemmas_count`, called through the hook re-export), then the expression
/// of the handler on the library
fn run_impl(c: &Case) -> String {
    use crate::protocols::light_client::verif_exports::required_lemmas_count;
    // CBMT_NO_GUARD=1: the library alone, i.e. the handler before the repair fb17202 (probe)
    let guard = std::env::var("CBMT_NO_GUARD").is_err();
    let res = catch(|| {
        if guard && required_lemmas_count(&c.indices) != Some(c.lemmas.len()) {
            return Some(false);
        }
        let merkle_proof = MerkleProof::new(c.indices.clone(), c.lemmas.clone());
        merkle_proof
            .root(&c.txs)
            .map(|raw| c.troot == merkle_root(&[raw, c.wroot.clone()]))
    });
    match res {
        Ok(Some(true)) => "ok".into(),
        Ok(_) => "invalid".into(),
        Err(m) => format!("panic {}", m.chars().take(60).collect::<String>()),
    }
}

fn gen_case(r: &mut Rng) -> Case {
    let n = match r.below(6) {
        0 => 1,
        1 => 2,
        2 => 3,
        _ => r.range(1, 13),
    } as usize;
    let block: Vec<Byte32> = (0..n).map(|_| rand_hash(r)).collect();
    let wroot = rand_hash(r);
    let k = r.range(1, (n as u64).min(5)) as usize;
    let mut set = BTreeSet::new();
    while set.len() < k {
        set.insert(r.below(n as u64) as u32);
    }
    let idx: Vec<u32> = set.into_iter().collect();
    let proof = CBMT::build_merkle_proof(&block, &idx).expect("proof");
    let raw_root = CBMT::build_merkle_root(&block);
    let troot = merkle_root(&[raw_root, wroot.clone()]);
    let mut c = Case {
        label: "honest".into(),
        block: block.clone(),
        troot,
        wroot,
        indices: proof.indices().to_vec(),
        lemmas: proof.lemmas().to_vec(),
        txs: idx.iter().map(|i| block[*i as usize].clone()).collect(),
    };
    // the order of the transactions in the message is free
    if r.chance(1, 2) {
        c.txs.reverse();
    }
    match r.below(24) {
        0 | 1 | 2 => {}
        3 => {
            let i = r.below(c.indices.len() as u64) as usize;
            c.indices[i] = *r.pick(&[0u32, 1, 2, u32::MAX, u32::MAX - 1, u32::MAX / 2, 1 << 31]);
            c.label = "index-boundary".into();
        }
        4 => {
            let i = r.below(c.indices.len() as u64) as usize;
            c.indices[i] = c.indices[i].wrapping_add(1);
            c.label = "index-plus-one".into();
        }
        5 => {
            let i = r.below(c.indices.len() as u64) as usize;
            c.indices[i] = c.indices[i].saturating_sub(1);
            c.label = "index-minus-one".into();
        }
        6 => {
            if c.indices.len() >= 2 {
                c.indices[0] = c.indices[1];
                c.label = "index-duplicated".into();
            }
        }
        7 => {
            c.indices.reverse();
            c.label = "indices-reversed".into();
        }
        8 => {
            if !c.lemmas.is_empty() {
                let i = r.below(c.lemmas.len() as u64) as usize;
                c.lemmas.remove(i);
                c.label = "lemma-dropped".into();
            }
        }
        9 => {
            if !c.lemmas.is_empty() {
                let i = r.below(c.lemmas.len() as u64) as usize;
                c.lemmas[i] = rand_hash(r);
                c.label = "lemma-altered".into();
            }
        }
        10 => {
            c.lemmas.push(rand_hash(r));
            c.label = "lemma-appended".into();
        }
        11 => {
            if c.lemmas.len() >= 2 {
                c.lemmas.swap(0, 1);
                c.label = "lemmas-swapped".into();
            }
        }
        12 => {
            let i = r.below(c.txs.len() as u64) as usize;
            c.txs[i] = rand_hash(r);
            c.label = "tx-replaced".into();
        }
        13 => {
            let t = c.txs[0].clone();
            c.txs.push(t);
            c.label = "tx-duplicated".into();
        }
        14 => {
            let t = c.txs[0].clone();
            c.txs.push(t);
            let i = c.indices[0];
            c.indices.push(i);
            c.label = "tx-and-index-duplicated".into();
        }
        15 => {
            c.txs.pop();
            c.label = "tx-dropped".into();
        }
        16 => {
            c.wroot = rand_hash(r);
            c.label = "witnesses-root-altered".into();
        }
        17 => {
            c.troot = rand_hash(r);
            c.label = "transactions-root-altered".into();
        }
        18 => {
            // a made-up transaction in the place of a lemma's subtree: the lemma becomes the "tx"
            if !c.lemmas.is_empty() && c.txs.len() == 1 {
                let l = c.lemmas[0].clone();
                c.lemmas[0] = c.txs[0].clone();
                c.txs[0] = l;
                c.indices[0] = if c.indices[0] % 2 == 1 { c.indices[0] + 1 } else { c.indices[0] - 1 };
                c.label = "sibling-as-tx".into();
            }
        }
        19 => {
            // two indices where the first is the largest `u32` (the guard of the loop calls `sibling`)
            c.indices.push(u32::MAX);
            c.txs.push(rand_hash(r));
            c.label = "index-max-appended".into();
        }
        20 => {
            // an inner node presented as a transaction hash at the inner node's index
            let tree = CBMT::build_merkle_tree(&c.block);
            if tree.nodes().len() >= 3 {
                c.indices = vec![1];
                c.txs = vec![tree.nodes()[1].clone()];
                c.lemmas = vec![tree.nodes()[2].clone()];
                c.label = "inner-node-as-tx".into();
            }
        }
        21 | 22 => {
            // every transaction of the block (a proof without lemmas) plus a made-up one under an
            // index that is nobody's sibling: `root` has no lemma for it and skips it
            let all: Vec<u32> = (0..n as u32).collect();
            let proof = CBMT::build_merkle_proof(&block, &all).expect("proof");
            c.indices = proof.indices().to_vec();
            c.lemmas = proof.lemmas().to_vec();
            let mut txs = block.clone();
            txs.sort();
            c.txs = txs;
            let fake = rand_hash(r);
            // `root` sorts the hashes and pairs them with the indices as given
            let pos = c.txs.iter().position(|t| t.as_slice() > fake.as_slice()).unwrap_or(c.txs.len());
            c.txs.insert(pos, fake);
            c.indices.insert(pos, 2 * n as u32 + 3 + r.below(40) as u32);
            c.label = "fake-next-to-complete-block".into();
        }
        _ => {
            c.indices.clear();
            c.label = "indices-emptied".into();
        }
    }
    c
}

fn line_of(c: &Case) -> String {
    // ranks in byte order over every 32-byte value of the case
    let tree = CBMT::build_merkle_tree(&c.block);
    let nodes = tree.nodes().to_vec();
    let honest_raw = CBMT::build_merkle_root(&c.block);
    let honest_troot = merkle_root(&[honest_raw.clone(), c.wroot.clone()]);
    let mut all: Vec<Vec<u8>> = Vec::new();
    let mut add = |h: &Byte32| all.push(h.as_slice().to_vec());
    for h in nodes.iter().chain(c.lemmas.iter()).chain(c.txs.iter()) {
        add(h);
    }
    add(&c.troot);
    add(&c.wroot);
    add(&honest_troot);
    all.sort();
    all.dedup();
    let rank: HashMap<Vec<u8>, usize> = all.into_iter().enumerate().map(|(i, b)| (b, i + 1)).collect();
    let id = |h: &Byte32| rank[&h.as_slice().to_vec()];
    let mut defs: Vec<String> = Vec::new();
    let inner = nodes.len().saturating_sub(c.block.len());
    for i in 0..inner {
        defs.push(format!("{} {} {}", id(&nodes[i]), id(&nodes[2 * i + 1]), id(&nodes[2 * i + 2])));
    }
    defs.push(format!("{} {} {}", id(&honest_troot), id(&honest_raw), id(&c.wroot)));
    format!(
        "{} {} {} {} {} {} {} {} {} {} {}",
        if std::env::var("CBMT_NO_GUARD").is_err() { "cb" } else { "cb0" },
        defs.len(),
        defs.join(" "),
        id(&c.troot),
        id(&c.wroot),
        c.indices.len(),
        c.indices.iter().map(|i| i.to_string()).collect::<Vec<_>>().join(" "),
        c.lemmas.len(),
        c.lemmas.iter().map(|h| id(h).to_string()).collect::<Vec<_>>().join(" "),
        c.txs.len(),
        c.txs.iter().map(|h| id(h).to_string()).collect::<Vec<_>>().join(" "),
    )
    .split_whitespace()
    .collect::<Vec<_>>()
    .join(" ")
}

pub fn run(opts: &Options) -> Report {
    let mut rep = Report::default();
    rep.rule = "cbmt: the case reaches the loop of MerkleProof::root (as many hashes as indices, not empty)".into();
    let mut r = Rng::new(opts.seed ^ 0x63626d74);
    let only: Option<BTreeSet<u64>> = opts.replay.as_ref().map(|p| {
        std::fs::read_to_string(p)
            .unwrap_or_default()
            .lines()
            .filter_map(|l| {
                let t: Vec<&str> = l.split_whitespace().collect();
                if t.len() == 3 && t[0] == "cbmt-case" { t[2].parse().ok() } else { None }
            })
            .collect()
    });
    let n_cases = if opts.thorough() { 200_000 } else { 20_000 };
    let mut lines = Vec::new();
    let mut cases = Vec::new();
    for i in 0..n_cases {
        let c = gen_case(&mut r);
        if let Some(o) = &only {
            if !o.contains(&i) {
                continue;
            }
        }
        let class = run_impl(&c);
        lines.push(line_of(&c));
        cases.push((i, c, class));
    }
    let answers = run_model(opts, "cbmt", &lines);
    for (k, (i, c, class)) in cases.iter().enumerate() {
        let line = &lines[k];
        let model = &answers[k];
        rep.evaluations += 1;
        rep.count_op("filtered_block_merkle_proof");
        rep.count_class(&format!("{}:{}", c.label, class.split(' ').next().unwrap()));
        if c.txs.len() == c.indices.len() && !c.txs.is_empty() {
            rep.nontrivial.insert(fnv(line));
        }
        if k < 3 {
            rep.sample(line);
        }
        let same = if class.starts_with("panic") { model.starts_with("panic") } else { class == model };
        let replay = vec![
            format!("cbmt-case {} {}", opts.seed, i),
            format!("# {}: indices {:?}, {} lemmas, {} transaction hashes of a block of {}", c.label, c.indices, c.lemmas.len(), c.txs.len(), c.block.len()),
            format!("# implementation: {}   model: {}", class, model),
            line.clone(),
        ];
        if !same {
            rep.disagree(line, class, model);
        } else {
            rep.traces_validated += 1;
        }
        if class.starts_with("panic") {
            rep.violate(&format!("C10|panic|transactions-merkle-proof|{}", c.label), &format!("MerkleProof::root aborts on peer-supplied indices: {}", class), replay.clone());
        }
        if c.label == "honest" && class != "ok" {
            rep.violate("C05|honest-merkle-proof-rejected", &format!("an honest transactions Merkle proof is rejected ({})", class), replay.clone());
        }
        // soundness: accepted against the honest transactions root => every hash is a transaction of the block
        let honest_troot = merkle_root(&[CBMT::build_merkle_root(&c.block), c.wroot.clone()]);
        if class == "ok" && c.troot == honest_troot {
            let tree = CBMT::build_merkle_tree(&c.block);
            for t in &c.txs {
                // (an inner node of the tree passes as well: only the preimage resistance of
                // blake2b keeps a transaction from having such a hash - `Cbmt.Sub` says the same)
                if !c.block.contains(t) && !tree.nodes().contains(t) {
                    rep.violate(
                        &format!("accepted-tx-not-committed|{}", c.label),
                        &format!("the Merkle proof check accepts a hash that is no transaction of the block ({})", c.label),
                        replay.clone(),
                    );
                }
            }
        }
    }
    rep
}

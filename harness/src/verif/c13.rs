//! C13 — cell and transaction queries are exact views of the index: correspondence of the real
//! `get_cells` / `get_transactions` / `get_cells_capacity` RPC implementations with the `Kv`
//! Lean layer over directly constructed index contents, and a three-way comparison with a
//! semantic recomputation from the dump (true script prefix, filters, order, pagination).

use std::collections::BTreeMap;
use std::sync::{Arc, RwLock};

use ckb_jsonrpc_types::JsonBytes;
use ckb_types::{
    bytes::Bytes,
    core::{ScriptHashType, TransactionBuilder},
    packed::{self, Byte32, CellInput, CellOutput, OutPoint, Script},
    prelude::*,
};
use rocksdb::{prelude::*, IteratorMode};

use super::env::Env;
use super::{catch, fnv, run_model, Options, Report, Rng};
use crate::protocols::PendingTxs;
use crate::service::{
    BlockFilterRpc, BlockFilterRpcImpl, Order, ScriptType, SearchKey, SearchKeyFilter,
};
use crate::storage::{extract_raw_data, CellType, Key, KeyPrefix, StorageWithChainData, Value};

fn hex(b: &[u8]) -> String {
    if b.is_empty() {
        return "-".into();
    }
    let mut s = String::with_capacity(b.len() * 2);
    for x in b {
        s.push_str(&format!("{:02x}", x));
    }
    s
}

#[derive(Clone, Debug)]
struct CellRec {
    key: Vec<u8>,
    tx_hash: Byte32,
    lock: Vec<u8>,
    type_: Option<Vec<u8>>,
    data_len: usize,
    capacity: u64,
    block_number: u64,
}

#[derive(Clone, Debug)]
struct TxRec {
    key: Vec<u8>,
    tx_hash: Byte32,
    /// the script this history entry belongs to (raw data)
    script: Vec<u8>,
    block_number: u64,
}

struct Store {
    env: Env,
    scripts: Vec<Script>,
    cells: BTreeMap<Vec<u8>, CellRec>,
    txs: BTreeMap<Vec<u8>, TxRec>,
}

fn script_alphabet(rng: &mut Rng) -> Vec<Script> {
    let code_hashes: Vec<[u8; 32]> = vec![[0x11; 32], {
        let mut h = [0x11; 32];
        h[31] = 0x12;
        h
    }];
    let args_pool: Vec<Vec<u8>> = vec![
        vec![],
        vec![0xa1],
        vec![0xa1, 0x00],
        vec![0xa1, 0x00, 0x00],
        vec![0xa1, 0xb2],
        vec![0xa1, 0xb2, 0xc3],
        vec![0xff],
        vec![0xff, 0xff],
        vec![0x00],
        vec![0x00, 0x00, 0x00, 0x00, 0x00, 0x00, 0x00, 0x00, 0x01],
        vec![0x50; 20],
        // args that continue a shorter searched prefix with long runs of 0xff: they sort behind
        // every descending start key that pads the prefix with too few 0xff bytes
        [vec![0xa1], vec![0xff; 16]].concat(),
        [vec![0xa1], vec![0xff; 17]].concat(),
        [vec![0xa1, 0xb2], vec![0xff; 40]].concat(),
        vec![0xff; 21],
        [vec![0x50; 20], vec![0xff; 70]].concat(),
    ];
    let mut out = Vec::new();
    let n = rng.range(3, 9);
    for _ in 0..n {
        let ch = rng.pick(&code_hashes);
        let ht = if rng.chance(1, 2) {
            ScriptHashType::Data
        } else {
            ScriptHashType::Type
        };
        let args = rng.pick(&args_pool).clone();
        let s = Script::new_builder()
            .code_hash(ch.pack())
            .hash_type(ht.into())
            .args(Bytes::from(args).pack())
            .build();
        if !out.iter().any(|o: &Script| o.as_slice() == s.as_slice()) {
            out.push(s);
        }
    }
    out
}

fn build_store(rng: &mut Rng) -> Store {
    let env = Env::new(1, 2000);
    let scripts = script_alphabet(rng);
    let mut cells = BTreeMap::new();
    let mut txs: BTreeMap<Vec<u8>, TxRec> = BTreeMap::new();
    // (tx_hash, index) -> (lock, type, block, txi) of all created outputs, for inputs
    let mut created: Vec<(Byte32, u32, Script, Option<Script>)> = Vec::new();
    let n_tx = rng.range(3, 36);
    let mut block_number = rng.range(1, 3);
    let mut tx_index = 0u32;
    let db = &env.storage.db;
    for t in 0..n_tx {
        if rng.chance(1, 3) {
            block_number += *rng.pick(&[1u64, 1, 1, 2, 250, 70000]);
            tx_index = 0;
        } else {
            tx_index += 1;
        }
        let n_out = rng.range(1, 4) as usize;
        let mut outputs = Vec::new();
        let mut outputs_data = Vec::new();
        for _ in 0..n_out {
            let lock = rng.pick(&scripts).clone();
            let type_ = if rng.chance(1, 3) {
                Some(rng.pick(&scripts).clone())
            } else {
                None
            };
            let cap = *rng.pick(&[6_100_000_000u64, 10_000_000_000, 10_000_000_001, 123, 0, u32::MAX as u64 + 7]);
            let out = CellOutput::new_builder()
                .capacity(cap.pack())
                .lock(lock)
                .type_(type_.pack())
                .build();
            outputs.push(out);
            let dl = rng.below(5) as usize;
            outputs_data.push(Bytes::from(vec![t as u8; dl]).pack());
        }
        let n_in = if created.is_empty() { 0 } else { rng.below(3) as usize };
        let mut inputs = Vec::new();
        let mut spent = Vec::new();
        for _ in 0..n_in {
            if created.is_empty() {
                break;
            }
            let i = rng.below(created.len() as u64) as usize;
            let c = created.remove(i);
            inputs.push(CellInput::new(OutPoint::new(c.0.clone(), c.1), 0));
            spent.push(c);
        }
        let tx = TransactionBuilder::default()
            .inputs(inputs)
            .outputs(outputs.clone())
            .outputs_data(outputs_data.clone())
            .witness(Bytes::from(vec![t as u8, (t >> 8) as u8]).pack())
            .build();
        let tx_hash = tx.hash();
        db.put(
            Key::TxHash(&tx_hash).into_vec(),
            Into::<Vec<u8>>::into(Value::Transaction(block_number, tx_index, &tx.data())),
        )
        .unwrap();
        // history + removal of spent cells
        for (ii, c) in spent.iter().enumerate() {
            let (h, idx, lock, type_) = c;
            let _ = (h, idx);
            let k = Key::TxLockScript(lock, block_number, tx_index, ii as u32, CellType::Input).into_vec();
            db.put(&k, tx_hash.as_slice()).unwrap();
            txs.insert(k.clone(), TxRec { key: k, tx_hash: tx_hash.clone(), script: extract_raw_data(lock), block_number });
            if let Some(ty) = type_ {
                let k = Key::TxTypeScript(ty, block_number, tx_index, ii as u32, CellType::Input).into_vec();
                db.put(&k, tx_hash.as_slice()).unwrap();
                txs.insert(k.clone(), TxRec { key: k, tx_hash: tx_hash.clone(), script: extract_raw_data(ty), block_number });
            }
        }
        for (oi, out) in outputs.iter().enumerate() {
            let lock = out.lock();
            let type_ = out.type_().to_opt();
            let data_len = outputs_data[oi].raw_data().len();
            let capacity: u64 = out.capacity().unpack();
            let k = Key::CellLockScript(&lock, block_number, tx_index, oi as u32).into_vec();
            db.put(&k, tx_hash.as_slice()).unwrap();
            let rec = CellRec {
                key: k.clone(),
                tx_hash: tx_hash.clone(),
                lock: extract_raw_data(&lock),
                type_: type_.as_ref().map(extract_raw_data),
                data_len,
                capacity,
                block_number,
            };
            cells.insert(k, rec.clone());
            let k = Key::TxLockScript(&lock, block_number, tx_index, oi as u32, CellType::Output).into_vec();
            db.put(&k, tx_hash.as_slice()).unwrap();
            txs.insert(k.clone(), TxRec { key: k, tx_hash: tx_hash.clone(), script: extract_raw_data(&lock), block_number });
            if let Some(ty) = &type_ {
                let k = Key::CellTypeScript(ty, block_number, tx_index, oi as u32).into_vec();
                db.put(&k, tx_hash.as_slice()).unwrap();
                let mut r = rec.clone();
                r.key = k.clone();
                cells.insert(k, r);
                let k = Key::TxTypeScript(ty, block_number, tx_index, oi as u32, CellType::Output).into_vec();
                db.put(&k, tx_hash.as_slice()).unwrap();
                txs.insert(k.clone(), TxRec { key: k, tx_hash: tx_hash.clone(), script: extract_raw_data(ty), block_number });
            }
            created.push((tx_hash.clone(), oi as u32, lock, type_));
        }
        // spent cells disappear from the live-cell keyspaces
        for (h, idx, lock, type_) in &spent {
            // find block/tx index from the cells map via the tx hash
            let victims: Vec<Vec<u8>> = cells
                .iter()
                .filter(|(k, r)| r.tx_hash == *h && u32::from_be_bytes(k[k.len() - 4..].try_into().unwrap()) == *idx)
                .map(|(k, _)| k.clone())
                .collect();
            let _ = (lock, type_);
            for k in victims {
                db.delete(&k).unwrap();
                cells.remove(&k);
            }
        }
    }
    Store { env, scripts, cells, txs }
}

#[derive(Clone, Debug)]
struct Query {
    kind: u8, // 0 get_cells, 1 get_txs ungrouped, 2 get_txs grouped, 3 capacity
    script_type_is_type: bool,
    script: Script,
    desc: bool,
    limit: u32,
    fscript: Option<Script>,
    script_len: Option<(u64, u64)>,
    data_len: Option<(u64, u64)>,
    capacity: Option<(u64, u64)>,
    block: Option<(u64, u64)>,
}

fn truncate_args(s: &Script, n: usize) -> Script {
    let args = s.args().raw_data();
    let n = n.min(args.len());
    s.clone().as_builder().args(args.slice(0..n).pack()).build()
}

fn gen_query(rng: &mut Rng, st: &Store) -> Query {
    let base = rng.pick(&st.scripts).clone();
    let script = match rng.below(8) {
        0 => truncate_args(&base, 0),
        1 => truncate_args(&base, 1),
        2 => {
            // args extended by a zero byte: the ambiguous-key probe
            let mut a = base.args().raw_data().to_vec();
            a.push(0);
            base.clone().as_builder().args(Bytes::from(a).pack()).build()
        }
        3 => {
            let mut a = base.args().raw_data().to_vec();
            a.push(rng.below(256) as u8);
            base.clone().as_builder().args(Bytes::from(a).pack()).build()
        }
        _ => base.clone(),
    };
    let range = |rng: &mut Rng, vals: &[u64]| -> Option<(u64, u64)> {
        if rng.chance(3, 4) {
            None
        } else {
            Some((*rng.pick(vals), *rng.pick(vals)))
        }
    };
    let kind = rng.below(4) as u8;
    Query {
        kind,
        script_type_is_type: rng.chance(1, 3),
        script,
        desc: rng.chance(1, 2),
        limit: *rng.pick(&[1u32, 2, 3, 7, 50]),
        fscript: if rng.chance(1, 4) {
            let f = rng.pick(&st.scripts).clone();
            Some(if rng.chance(1, 2) { truncate_args(&f, 1) } else { f })
        } else {
            None
        },
        script_len: if kind == 0 || kind == 3 { range(rng, &[0, 33, 34, 35, 36, 53, 100]) } else { None },
        data_len: if kind == 0 || kind == 3 { range(rng, &[0, 1, 2, 3, 5, 100]) } else { None },
        capacity: if kind == 0 || kind == 3 {
            range(rng, &[0, 123, 124, 6_100_000_000, 10_000_000_000, 10_000_000_001, 10_000_000_002, u64::MAX])
        } else {
            None
        },
        block: range(rng, &[0, 1, 2, 3, 5, 250, 300, 70000, u64::MAX]),
    }
}

fn search_key(q: &Query) -> SearchKey {
    let filter = SearchKeyFilter {
        script: q.fscript.clone().map(Into::into),
        script_len_range: q.script_len.map(|(a, b)| [a.into(), b.into()]),
        output_data_len_range: q.data_len.map(|(a, b)| [a.into(), b.into()]),
        output_capacity_range: q.capacity.map(|(a, b)| [a.into(), b.into()]),
        block_range: q.block.map(|(a, b)| [a.into(), b.into()]),
    };
    SearchKey {
        script: q.script.clone().into(),
        script_type: if q.script_type_is_type { ScriptType::Type } else { ScriptType::Lock },
        filter: Some(filter),
        with_data: Some(true),
        group_by_transaction: Some(q.kind == 2),
    }
}

fn r2(r: Option<(u64, u64)>) -> String {
    match r {
        None => "- -".into(),
        Some((a, b)) => format!("{} {}", a, b),
    }
}

fn prefix_of(q: &Query) -> Vec<u8> {
    let p = match (q.kind, q.script_type_is_type) {
        (0 | 3, false) => KeyPrefix::CellLockScript as u8,
        (0 | 3, true) => KeyPrefix::CellTypeScript as u8,
        (_, false) => KeyPrefix::TxLockScript as u8,
        (_, true) => KeyPrefix::TxTypeScript as u8,
    };
    let mut v = vec![p];
    v.extend_from_slice(&extract_raw_data(&q.script));
    v
}

fn describe(q: &Query) -> String {
    format!(
        "kind={} type={} script={} desc={} limit={} fscript={} slen={} dlen={} cap={} blk={}",
        q.kind,
        q.script_type_is_type as u8,
        hex(&extract_raw_data(&q.script)),
        q.desc as u8,
        q.limit,
        q.fscript.as_ref().map(|s| hex(&extract_raw_data(s))).unwrap_or("-".into()),
        r2(q.script_len),
        r2(q.data_len),
        r2(q.capacity),
        r2(q.block)
    )
}

/// semantic ground truth (independent of model and implementation): suffixes of the matching
/// entries in ascending key order
fn truth_cells(st: &Store, q: &Query) -> Vec<CellRec> {
    let want = extract_raw_data(&q.script);
    let ks = if q.script_type_is_type { KeyPrefix::CellTypeScript as u8 } else { KeyPrefix::CellLockScript as u8 };
    st.cells
        .values()
        .filter(|r| r.key[0] == ks)
        .filter(|r| {
            let own = if q.script_type_is_type { r.type_.clone().unwrap_or_default() } else { r.lock.clone() };
            own.starts_with(&want)
        })
        .filter(|r| {
            let other: Option<Vec<u8>> = if q.script_type_is_type { Some(r.lock.clone()) } else { r.type_.clone() };
            if let Some(f) = &q.fscript {
                match &other {
                    None => return false,
                    Some(o) => {
                        if !o.starts_with(&extract_raw_data(f)) {
                            return false;
                        }
                    }
                }
            }
            if let Some((a, b)) = q.script_len {
                let l = other.as_ref().map(|o| o.len()).unwrap_or(0) as u64;
                if l < a || l > b {
                    return false;
                }
            }
            if let Some((a, b)) = q.data_len {
                if (r.data_len as u64) < a || (r.data_len as u64) >= b {
                    return false;
                }
            }
            if let Some((a, b)) = q.capacity {
                if r.capacity < a || r.capacity >= b {
                    return false;
                }
            }
            if let Some((a, b)) = q.block {
                if r.block_number < a || r.block_number >= b {
                    return false;
                }
            }
            true
        })
        .cloned()
        .collect()
}

fn truth_txs(st: &Store, q: &Query) -> Vec<TxRec> {
    let want = extract_raw_data(&q.script);
    let ks = if q.script_type_is_type { KeyPrefix::TxTypeScript as u8 } else { KeyPrefix::TxLockScript as u8 };
    let other_ks = if q.script_type_is_type { KeyPrefix::TxLockScript as u8 } else { KeyPrefix::TxTypeScript as u8 };
    st.txs
        .values()
        .filter(|r| r.key[0] == ks && r.script.starts_with(&want))
        .filter(|r| {
            if let Some(f) = &q.fscript {
                let mut k = vec![other_ks];
                k.extend_from_slice(&extract_raw_data(f));
                k.extend_from_slice(&r.key[r.key.len() - 17..]);
                if !st.txs.contains_key(&k) {
                    return false;
                }
            }
            if let Some((a, b)) = q.block {
                if r.block_number < a || r.block_number >= b {
                    return false;
                }
            }
            true
        })
        .cloned()
        .collect()
}

pub fn run(opts: &Options) -> Report {
    let mut rep = Report::default();
    rep.rule = "index contents written directly into the store (2 code hashes x 2 hash types x args \
        sharing prefixes, incl. args that differ by trailing zero bytes; 3..36 transactions with typed \
        and untyped outputs, several per block, spent cells removed) x queries (exact / prefix / \
        extended / absent search scripts, lock and type keyspaces, both orders, limits 1,2,3,7,50, \
        every filter with ranges below/at/above/inverted) each followed page by page to the end; \
        three-way comparison implementation / Lean model / semantic recomputation from the dump; \
        non-trivial = the query returned at least one entry; distinct = distinct (store seed, query)"
        .into();
    let mut rng = Rng::new(opts.seed);
    let n_stores = if opts.thorough() { 1500 } else { 120 };
    let n_queries = if opts.thorough() { 200 } else { 80 };
    let seeds: Vec<u64> = if let Some(p) = &opts.replay {
        std::fs::read_to_string(p)
            .expect("replay")
            .lines()
            .filter_map(|l| l.strip_prefix("store-seed ").and_then(|s| s.trim().parse().ok()))
            .collect()
    } else {
        let mut v: Vec<u64> = Vec::new();
        if let Ok(rd) = std::fs::read_dir("/verif/corpus/C13") {
            for e in rd.flatten() {
                for l in std::fs::read_to_string(e.path()).unwrap_or_default().lines() {
                    if let Some(s) = l.strip_prefix("store-seed ") {
                        if let Ok(x) = s.trim().parse() {
                            v.push(x);
                        }
                    }
                }
            }
        }
        for _ in 0..n_stores {
            v.push(rng.next());
        }
        v
    };

    let mut lines: Vec<String> = Vec::new();
    let mut impls: Vec<String> = Vec::new();
    let mut ctx: Vec<String> = Vec::new();

    for (si, seed) in seeds.iter().enumerate() {
        let mut srng = Rng::new(*seed);
        let st = build_store(&mut srng);
        let swc = StorageWithChainData::new(
            st.env.storage.clone(),
            Arc::clone(&st.env.peers),
            Arc::new(RwLock::new(PendingTxs::new(8))),
        );
        let rpc = BlockFilterRpcImpl { swc };
        // dump the four keyspaces to the model (read back from the database itself)
        lines.push("reset".into());
        impls.push("ok".into());
        ctx.push(format!("store-seed {}", seed));
        let mut dumped = 0;
        for (k, v) in st.env.storage.db.iterator(IteratorMode::Start) {
            let p = k[0];
            if p == KeyPrefix::CellLockScript as u8 || p == KeyPrefix::CellTypeScript as u8 {
                let r = st.cells.get(&k.to_vec()).expect("dumped cell key is known");
                lines.push(format!(
                    "cell {} {} {} {} {} {}",
                    hex(&k),
                    hex(&v),
                    hex(&r.lock),
                    r.type_.as_ref().map(|t| hex(t)).unwrap_or("-".into()),
                    r.data_len,
                    r.capacity
                ));
                impls.push("ok".into());
                ctx.push(String::new());
                dumped += 1;
            } else if p == KeyPrefix::TxLockScript as u8 || p == KeyPrefix::TxTypeScript as u8 {
                lines.push(format!("tx {} {}", hex(&k), hex(&v)));
                impls.push("ok".into());
                ctx.push(String::new());
                dumped += 1;
            }
        }
        assert_eq!(dumped, st.cells.len() + st.txs.len());
        rep.count_class(&format!("store-size:{}", (dumped / 50) * 50));

        for qi in 0..n_queries {
            let q = gen_query(&mut srng, &st);
            let pre = prefix_of(&q);
            let args_len = q.script.args().raw_data().len();
            let filter_on_type = !q.script_type_is_type;
            let cx = format!("store-seed {}  query#{} {}", seed, qi, describe(&q));
            rep.evaluations += 1;
            if q.kind == 3 {
                let r = catch(|| rpc.get_cells_capacity(search_key(&q)));
                let imp = match &r {
                    Err(p) => format!("panic {}", super::c14::panic_class(p)),
                    Ok(Err(e)) => format!("rpc-error {}", e.message),
                    Ok(Ok(c)) => {
                        let v: u64 = c.capacity.into();
                        v.to_string()
                    }
                };
                lines.push(format!(
                    "capacity {} {} {} {} {} {} {} {}",
                    hex(&pre),
                    args_len,
                    q.fscript.as_ref().map(|f| hex(&extract_raw_data(f))).unwrap_or("-".into()),
                    r2(q.script_len),
                    r2(q.data_len),
                    r2(q.capacity),
                    r2(q.block),
                    filter_on_type as u8
                ));
                rep.count_op("capacity");
                // oracle: equals the sum over the semantically matching cells, tip from the store
                let expect: u64 = truth_cells(&st, &q).iter().map(|c| c.capacity).sum();
                if let Ok(Ok(c)) = &r {
                    let v: u64 = c.capacity.into();
                    let tip = st.env.storage.get_tip_header();
                    let tip_number: u64 = tip.raw().number().unpack();
                    let bn: u64 = c.block_number.into();
                    if v != expect {
                        rep.violate(
                            if truth_mismatch_is_ambiguous_key(&st, &q) { "C13|capacity|entries-of-shorter-script" } else { "C13|capacity-sum" },
                            "get_cells_capacity differs from the capacity sum of the matching cells",
                            vec![cx.clone(), format!("# got {} expected {}", v, expect)],
                        );
                    }
                    if bn != tip_number || c.block_hash.pack() != tip.calc_header_hash() {
                        rep.violate("C13|capacity-tip", "get_cells_capacity reports a different tip", vec![cx.clone()]);
                    }
                    if v > 0 {
                        rep.nontrivial.insert(fnv(&cx));
                    }
                }
                if imp.starts_with("panic") {
                    rep.violate(&format!("C13|abort|{}", imp), "query aborts", vec![cx.clone()]);
                }
                impls.push(imp);
                ctx.push(cx);
                continue;
            }
            // paged queries: follow the cursor to the end
            let mut after: Option<Vec<u8>> = None;
            let mut got_suffixes: Vec<Vec<u8>> = Vec::new();
            let mut pages = 0;
            loop {
                pages += 1;
                let sk = search_key(&q);
                let order = if q.desc { Order::Desc } else { Order::Asc };
                let after_json = after.clone().map(JsonBytes::from_vec);
                let (imp, page_suffixes, cursor): (String, Vec<Vec<Vec<u8>>>, Vec<u8>) = if q.kind == 0 {
                    match catch(|| rpc.get_cells(sk, order, q.limit.into(), after_json)) {
                        Err(p) => (format!("panic {}", super::c14::panic_class(&p)), vec![], vec![]),
                        Ok(Err(e)) => (format!("rpc-error {}", e.message), vec![], vec![]),
                        Ok(Ok(p)) => {
                            let v = serde_json::to_value(&p.objects).unwrap();
                            let mut sufs = Vec::new();
                            for c in v.as_array().unwrap() {
                                let bn = u64::from_str_radix(c["block_number"].as_str().unwrap().trim_start_matches("0x"), 16).unwrap();
                                let txi = u32::from_str_radix(c["tx_index"].as_str().unwrap().trim_start_matches("0x"), 16).unwrap();
                                let oi = u32::from_str_radix(c["out_point"]["index"].as_str().unwrap().trim_start_matches("0x"), 16).unwrap();
                                let mut s = bn.to_be_bytes().to_vec();
                                s.extend_from_slice(&txi.to_be_bytes());
                                s.extend_from_slice(&oi.to_be_bytes());
                                sufs.push(vec![s]);
                            }
                            let cur = p.last_cursor.as_bytes().to_vec();
                            (String::new(), sufs, cur)
                        }
                    }
                } else {
                    match catch(|| rpc.get_transactions(sk, order, q.limit.into(), after_json)) {
                        Err(p) => (format!("panic {}", super::c14::panic_class(&p)), vec![], vec![]),
                        Ok(Err(e)) => (format!("rpc-error {}", e.message), vec![], vec![]),
                        Ok(Ok(p)) => {
                            let v = serde_json::to_value(&p.objects).unwrap();
                            let num = |x: &serde_json::Value| u64::from_str_radix(x.as_str().unwrap().trim_start_matches("0x"), 16).unwrap();
                            let mut groups = Vec::new();
                            for t in v.as_array().unwrap() {
                                let bn = num(&t["block_number"]);
                                let txi = num(&t["tx_index"]) as u32;
                                let mut g = Vec::new();
                                let mut push = |ioi: u32, ty: &str| {
                                    let mut s = bn.to_be_bytes().to_vec();
                                    s.extend_from_slice(&txi.to_be_bytes());
                                    s.extend_from_slice(&ioi.to_be_bytes());
                                    s.push(if ty == "input" { 0 } else { 1 });
                                    g.push(s);
                                };
                                if q.kind == 2 {
                                    for c in t["cells"].as_array().unwrap() {
                                        push(num(&c[1]) as u32, c[0].as_str().unwrap());
                                    }
                                } else {
                                    push(num(&t["io_index"]) as u32, t["io_type"].as_str().unwrap());
                                }
                                groups.push(g);
                            }
                            let cur = p.last_cursor.as_bytes().to_vec();
                            (String::new(), groups, cur)
                        }
                    }
                };
                let imp = if imp.is_empty() {
                    let body = page_suffixes
                        .iter()
                        .map(|g| {
                            if q.kind == 2 {
                                format!("[{}]", g.iter().map(|s| hex(s)).collect::<Vec<_>>().join(","))
                            } else {
                                hex(&g[0])
                            }
                        })
                        .collect::<Vec<_>>()
                        .join(" ");
                    format!("{} {} | {}", page_suffixes.len(), hex(&cursor), body)
                } else {
                    imp
                };
                if imp.starts_with("panic") {
                    rep.violate(&format!("C13|abort|{}", imp), "query aborts", vec![cx.clone()]);
                }
                let after_hex = after.as_ref().map(|a| hex(a)).unwrap_or("-".into());
                if q.kind == 0 {
                    lines.push(format!(
                        "get_cells {} {} {} {} {} {} {} {} {} {} {}",
                        hex(&pre),
                        args_len,
                        q.desc as u8,
                        q.limit,
                        after_hex,
                        q.fscript.as_ref().map(|f| hex(&extract_raw_data(f))).unwrap_or("-".into()),
                        r2(q.script_len),
                        r2(q.data_len),
                        r2(q.capacity),
                        r2(q.block),
                        filter_on_type as u8
                    ));
                    rep.count_op("get_cells");
                } else {
                    let other_ks = if q.script_type_is_type { KeyPrefix::TxLockScript as u8 } else { KeyPrefix::TxTypeScript as u8 };
                    let fs = q.fscript.as_ref().map(|f| {
                        let mut k = vec![other_ks];
                        k.extend_from_slice(&extract_raw_data(f));
                        hex(&k)
                    });
                    lines.push(format!(
                        "get_txs {} {} {} {} {} {} {} {}",
                        hex(&pre),
                        args_len,
                        q.desc as u8,
                        q.limit,
                        after_hex,
                        fs.unwrap_or("-".into()),
                        r2(q.block),
                        (q.kind == 2) as u8
                    ));
                    rep.count_op(if q.kind == 2 { "get_txs_grouped" } else { "get_txs" });
                }
                impls.push(imp);
                ctx.push(cx.clone());
                for g in &page_suffixes {
                    for s in g {
                        got_suffixes.push(s.clone());
                    }
                }
                // a page with no objects ends the walk (the documented way to page)
                if page_suffixes.is_empty() || pages > 400 {
                    break;
                }
                after = Some(cursor);
            }
            // ---- oracle: concatenated pages == semantically matching entries in order
            let mut expect: Vec<Vec<u8>> = if q.kind == 0 {
                truth_cells(&st, &q).iter().map(|r| r.key[r.key.len() - 16..].to_vec()).collect()
            } else {
                truth_txs(&st, &q).iter().map(|r| r.key[r.key.len() - 17..].to_vec()).collect()
            };
            if q.desc {
                expect.reverse();
            }
            if !got_suffixes.is_empty() {
                rep.nontrivial.insert(fnv(&cx));
            }
            if got_suffixes != expect {
                let sig = if truth_mismatch_is_ambiguous_key(&st, &q) {
                    "C13|pages|entries-of-shorter-script"
                } else if got_suffixes.len() != expect.len() {
                    "C13|pages|count"
                } else {
                    "C13|pages|order-or-content"
                };
                rep.violate(
                    sig,
                    "following last_cursor does not yield exactly the matching entries in key order",
                    vec![
                        cx.clone(),
                        format!("# got      {}", got_suffixes.iter().map(|s| hex(s)).collect::<Vec<_>>().join(" ")),
                        format!("# expected {}", expect.iter().map(|s| hex(s)).collect::<Vec<_>>().join(" ")),
                    ],
                );
            }
            if si % 29 == 0 && qi == 0 {
                rep.sample(&format!("{} => {} entries in {} pages", cx, got_suffixes.len(), pages));
            }
        }
    }
    let answers = run_model(opts, "kv", &lines);
    let mut shown = 0;
    for (i, a) in answers.iter().enumerate() {
        // the model prints whole keys; compare on the identifying suffix
        let canon = canon_model(a, &lines[i]);
        if canon == impls[i] {
            rep.traces_validated += 1;
        } else if shown < 20 {
            shown += 1;
            rep.disagree(&format!("{}   [{}]", lines[i].chars().take(300).collect::<String>(), ctx[i]), &impls[i], &canon);
        } else {
            rep.disagree("...", "", "");
        }
    }
    rep
}

/// does the mismatch involve an index key of a *shorter* script that merely happens to start
/// with the search prefix because the bytes after its args (the block number) continue it?
fn truth_mismatch_is_ambiguous_key(st: &Store, q: &Query) -> bool {
    let pre = prefix_of(q);
    let raw_len = pre.len() - 1;
    if q.kind == 0 || q.kind == 3 {
        st.cells.values().any(|r| {
            r.key.starts_with(&pre) && {
                let own = if q.script_type_is_type { r.type_.clone().unwrap_or_default() } else { r.lock.clone() };
                own.len() < raw_len
            }
        })
    } else {
        st.txs.values().any(|r| r.key.starts_with(&pre) && r.script.len() < raw_len)
    }
}

fn canon_model(ans: &str, line: &str) -> String {
    let is_cells = line.starts_with("get_cells");
    let is_txs = line.starts_with("get_txs");
    if !(is_cells || is_txs) {
        return ans.to_string();
    }
    let n = if is_cells { 32 } else { 34 }; // hex chars of the suffix
    let (head, body) = match ans.split_once(" | ") {
        Some(x) => x,
        None => match ans.strip_suffix(" |") {
            Some(h) => (h, ""),
            None => return ans.to_string(),
        },
    };
    let cut = |k: &str| -> String {
        if k.len() >= n {
            k[k.len() - n..].to_string()
        } else {
            k.to_string()
        }
    };
    let body = body
        .split(' ')
        .filter(|t| !t.is_empty())
        .map(|t| {
            if t.starts_with('[') {
                let inner = t.trim_start_matches('[').trim_end_matches(']');
                format!("[{}]", inner.split(',').map(cut).collect::<Vec<_>>().join(","))
            } else {
                cut(t)
            }
        })
        .collect::<Vec<_>>()
        .join(" ");
    format!("{} | {}", head, body)
}

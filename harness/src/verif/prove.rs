//! Prove layer harness (serves C01, C11, C12): event histories against the real
//! `LightClientProtocol` (connect / SendLastState / SendLastStateProof / refresh tick /
//! disconnect) on `simchain` chains with the honest `server`, honest and edited responses,
//! compared step by step with the `Prove` Lean layer through an abstraction of headers to
//! tokens, plus the property oracles evaluated on the implementation's own state.

use std::collections::{BTreeMap, BTreeSet};
use std::sync::Arc;

use ckb_constant::sync::MAX_TIP_AGE;
use ckb_network::{bytes::Bytes, CKBProtocolHandler, PeerIndex, SupportProtocols};
use ckb_types::{
    core::HeaderView,
    packed::{self, Byte32},
    prelude::*,
    utilities::{difficulty_to_compact, merkle_mountain_range::VerifiableHeader},
    U256,
};

use super::env::{as_ctx, block_on, Env, MockContext};
use super::server::{self, ServerOpts};
use super::simchain::SimChain;
use super::{catch, fnv, run_model, Options, Report, Rng};
use crate::protocols::light_client::prelude::VerifiableHeaderPatch;
use crate::protocols::light_client::verif_exports::{constant, verify_mmr_proof};
use crate::protocols::light_client::PeerState;
use crate::protocols::{LightClientProtocol, MESSAGE_TIMEOUT};

fn dec(v: &U256) -> String {
    format!("{}", v)
}

trait FaketimeKeep {
    fn set_keep(self, time: u64);
}
impl FaketimeKeep for ckb_systemtime::FaketimeGuard {
    fn set_keep(self, time: u64) {
        self.set_faketime(time);
        std::mem::forget(self);
    }
}
fn set_now(t: u64) {
    ckb_systemtime::faketime().set_keep(t);
}

/// abstraction: real values -> model tokens (the only place where this happens)
pub struct Abs {
    hids: BTreeMap<Byte32, u64>,
    vids: BTreeMap<Vec<u8>, u64>,
    consensus: ckb_chain_spec::consensus::Consensus,
    mmr_activated_epoch: u64,
}

impl Abs {
    pub fn new(consensus: &ckb_chain_spec::consensus::Consensus, mmr_activated_epoch: u64) -> Abs {
        let mut hids = BTreeMap::new();
        hids.insert(consensus.genesis_hash(), 0); // the model's genesis hash is id 0
        Abs {
            hids,
            vids: BTreeMap::new(),
            consensus: consensus.clone(),
            mmr_activated_epoch,
        }
    }
    pub fn hid(&mut self, h: &Byte32) -> u64 {
        let n = self.hids.len() as u64;
        *self.hids.entry(h.clone()).or_insert(n)
    }
    pub fn vid(&mut self, vh: &VerifiableHeader) -> u64 {
        // identity under `if_verifiable_headers_are_same`: header, uncles hash, extension,
        // total difficulty (= parent total difficulty, the header fixing the block difficulty)
        let mut key = vh.header().hash().as_slice().to_vec();
        key.extend_from_slice(vh.uncles_hash().as_slice());
        match vh.extension() {
            None => key.push(0),
            Some(e) => {
                key.push(1);
                key.extend_from_slice(e.as_slice());
            }
        }
        key.extend_from_slice(vh.parent_chain_root().total_difficulty().as_slice());
        let n = self.vids.len() as u64 + 1;
        *self.vids.entry(key).or_insert(n)
    }
    /// `vid hid number parent ptd pend en ei el compact pow root recent`
    pub fn vh(&mut self, vh: &VerifiableHeader, now: u64) -> String {
        let h = vh.header();
        let e = h.epoch();
        let ptd: U256 = vh.parent_chain_root().total_difficulty().unpack();
        let pow = self.consensus.pow_engine().verify(&h.data());
        let root = vh.patched_is_valid(self.mmr_activated_epoch);
        let recent = now.saturating_sub(h.timestamp()) <= MAX_TIP_AGE;
        let pend: u64 = vh.parent_chain_root().end_number().unpack();
        format!(
            "{} {} {} {} {} {} {} {} {} {} {} {} {}",
            self.vid(vh),
            self.hid(&h.hash()),
            h.number(),
            self.hid(&h.parent_hash()),
            dec(&ptd),
            pend,
            e.number(),
            e.index(),
            e.length(),
            h.compact_target(),
            pow as u8,
            root as u8,
            recent as u8
        )
    }
}

pub struct Node {
    pub env: Env,
    pub lc: LightClientProtocol,
    pub nc: Arc<MockContext>,
    pub abs: Abs,
    pub last_n: u64,
}

impl Node {
    pub fn new(chain: &SimChain, last_n: u64) -> Node {
        let env = Env::with_consensus(chain.consensus.clone(), 3, 2000);
        env.storage.update_min_filtered_block_number(RB_SENTINEL);
        let mut lc = env.protocol();
        lc.verif_set_last_n_blocks(last_n);
        let abs = Abs::new(&chain.consensus, lc.mmr_activated_epoch());
        Node {
            env,
            lc,
            nc: MockContext::new(SupportProtocols::LightClient),
            abs,
            last_n,
        }
    }

    /// outcome class + sent requests of one delivery, from the recording context
    fn observe(&mut self) -> (String, Vec<String>, Vec<(u64, packed::GetLastStateProof)>, Vec<u64>) {
        let rec = self.nc.take();
        let outcome = if let Some((_, _, reason)) = rec.banned.first() {
            if std::env::var("VERIF_DEBUG_BANS").is_ok() {
                eprintln!("ban: {}", reason);
            }
            // "InvalidNonce(432): …"
            let code = reason
                .split('(')
                .nth(1)
                .and_then(|s| s.split(')').next())
                .unwrap_or("?");
            format!("ban {}", code)
        } else {
            "pass".to_string()
        };
        let mut sent = Vec::new();
        let mut reqs = Vec::new();
        for (_, peer, data) in rec.sent {
            let msg = packed::LightClientMessage::from_slice(&data).expect("own message");
            match msg.to_enum() {
                packed::LightClientMessageUnion::GetLastState(_) => {
                    sent.push(format!("GLS({})", peer.value()))
                }
                packed::LightClientMessageUnion::GetLastStateProof(r) => {
                    sent.push(format!("GLSP({}:{})", peer.value(), self.content(&r)));
                    reqs.push((peer.value() as u64, r));
                }
                other => sent.push(format!("OTHER({}:{})", peer.value(), other.item_name())),
            }
        }
        let disc: Vec<u64> = rec.disconnected.iter().map(|p| p.value() as u64).collect();
        (outcome, sent, reqs, disc)
    }

    fn content(&mut self, r: &packed::GetLastStateProof) -> String {
        let sn: u64 = r.start_number().unpack();
        let ln: u64 = r.last_n_blocks().unpack();
        let b: U256 = r.difficulty_boundary().unpack();
        format!(
            "{} {} {} {} {} {}",
            self.abs.hid(&r.last_hash()),
            self.abs.hid(&r.start_hash()),
            sn,
            ln,
            dec(&b),
            r.difficulties().len()
        )
    }

    /// canonical dump of the trusted state, same format as `Prove.showSt`
    pub fn dump(&mut self) -> String {
        self.dump_inner(true)
    }

    /// `consume`: forget the observed `rollback_to_block` call (park the sentinel again)
    pub fn dump_inner(&mut self, consume: bool) -> String {
        let (td, tip) = self.env.storage.get_last_state();
        let tip_hid = self.abs.hid(&tip.calc_header_hash());
        let last_n: Vec<String> = self
            .env
            .storage
            .get_last_n_headers()
            .iter()
            .map(|(n, h)| format!("({}, {})", n, self.abs.hid(h)))
            .collect();
        let mut idx: Vec<PeerIndex> = self.env.peers.get_peers_index();
        idx.sort();
        let mut peers = Vec::new();
        for p in idx {
            let st = self.env.peers.get_state(&p).unwrap();
            let name = format!("{}", st);
            let kind = name
                .trim_start_matches("PeerState::")
                .split(' ')
                .next()
                .unwrap_or("")
                .to_string();
            let ls = st
                .get_last_state()
                .map(|l| self.abs.vid(l.as_ref()).to_string())
                .unwrap_or("-".into());
            let rq = match st.get_prove_request() {
                Some(r) => format!(
                    "{}:{}{}:{}",
                    self.abs.vid(r.get_last_header()),
                    r.if_skip_check_tau() as u8,
                    r.if_long_fork_detected() as u8,
                    self.content(r.get_content())
                ),
                None => "-".into(),
            };
            let (ps, lh) = match st.get_prove_state() {
                Some(x) => {
                    let a: Vec<String> = x
                        .get_last_headers()
                        .iter()
                        .map(|h| self.abs.hid(&h.hash()).to_string())
                        .collect();
                    let b: Vec<String> = x
                        .get_reorg_last_headers()
                        .iter()
                        .map(|h| self.abs.hid(&h.hash()).to_string())
                        .collect();
                    (
                        self.abs.vid(x.get_last_header()).to_string(),
                        format!("[{}]/[{}]", a.join(", "), b.join(", ")),
                    )
                }
                None => ("-".into(), "-".into()),
            };
            peers.push(format!(
                "[{} {} ls={} rq={} ps={} lh={}]",
                p.value(),
                kind,
                ls,
                rq,
                ps,
                lh
            ));
        }
        // `rollback_to_block(n)` leaves `n - 1` in the min filtered number (parked at a sentinel)
        let min_f = self.env.storage.get_min_filtered_block_number();
        if std::env::var("VERIF_DEBUG_RB").is_ok() {
            eprintln!("dump: minF {} scripts {}", min_f, self.env.storage.get_filter_scripts().len());
        }
        let rb = if min_f == RB_SENTINEL {
            String::new()
        } else {
            if consume {
                self.env.storage.update_min_filtered_block_number(RB_SENTINEL);
            }
            format!("{}", min_f + 1)
        };
        format!(
            "stored td={} tip={} lastN=[{}] rb=[{}] peers {}",
            dec(&td),
            tip_hid,
            last_n.join(", "),
            rb,
            peers.join(" ")
        )
    }
}

/// where the min filtered block number is parked to observe `rollback_to_block` calls
pub const RB_SENTINEL: u64 = u64::MAX / 4;

/// the trusted state for the property oracles (C01/C12): per-peer prove state + stored values
fn trusted(node: &mut Node) -> String {
    let d = node.dump_inner(false);
    // strip the untrusted parts: last state announcements and outstanding requests
    let mut out = String::new();
    let mut in_request = false;
    for tok in d.split(' ') {
        if tok.starts_with("rq=") {
            // the fields of the request content follow as plain tokens up to the next `key=`
            in_request = tok != "rq=-";
            continue;
        }
        if in_request {
            if tok.contains('=') {
                in_request = false;
            } else {
                continue;
            }
        }
        if tok.starts_with("ls=") || tok.starts_with("rb=") {
            continue;
        }
        // state kinds change with requests; keep only proof-bearing information
        out.push_str(tok);
        out.push(' ');
    }
    // drop kind names and the fields of the request content (they follow `rq=` tokens)
    out
}

/// the verifiable header `vh` with another parent chain root, its extension (and hence its
/// extra hash and block hash) rebuilt so that the header commits to that root
fn with_parent_chain_root(vh: &packed::VerifiableHeader, root2: packed::HeaderDigest) -> packed::VerifiableHeader {
    let hv: HeaderView = vh.header().into_view();
    let ext: packed::Bytes = root2.calc_mmr_hash().as_bytes().pack();
    let extra = ckb_types::core::ExtraHashView::new(vh.uncles_hash(), Some(ext.calc_raw_data_hash()));
    let hv2 = hv.as_advanced_builder().extra_hash(extra.extra_hash()).build();
    packed::VerifiableHeader::new_builder()
        .header(hv2.data())
        .uncles_hash(vh.uncles_hash())
        .extension(packed::BytesOpt::new_builder().set(Some(ext)).build())
        .parent_chain_root(root2)
        .build()
}

#[derive(Clone, Debug, PartialEq)]
enum Edit {
    Honest,
    DropHeader,
    DupHeader,
    SwapHeaders,
    ForeignHeader,
    TamperProof,
    DropProofItem,
    TipStateOther,       // other last header, empty proof (what an honest server sends on a fork switch)
    OtherLastWithProof,  // other last header, non-empty proof
    ShiftLastN,          // genuine, proven headers, last-N window moved away from the tip
    FewerLastN,          // genuine, proven, but the last-N section is shorter
    ExtraSample,         // genuine, proven, one more sampled header than requested
    WrongSample,         // genuine, proven, a neighbour block instead of a sampled one
    GapReorg,            // genuine, proven, right count and end, but the reorg section has a gap
    ForgedTd,            // a header's parent chain root total difficulty altered
    PrivateChainRoot,    // the genuine last header with the chain root (same difficulty, same end) of a private branch, whose headers and MMR proof follow
    Unsolicited,
}

/// C12: the remembered last-N headers are the ancestors of the stored tip (consecutive numbers
/// ending at the tip's parent, each the header of the tip's own chain at its number); judged when
/// the stored tip is a block of one of the world's chains
fn remembered_not_ancestors(storage: &crate::storage::Storage, world: &World) -> Option<String> {
    let (_, tip) = storage.get_last_state();
    let tip_hash = tip.calc_header_hash();
    let tip_number: u64 = tip.raw().number().unpack();
    let chain = world.chains.iter().find(|c| c.number_of_hash(&tip_hash) == Some(tip_number))?;
    let remembered = storage.get_last_n_headers();
    for (i, (n, h)) in remembered.iter().enumerate() {
        if *n > chain.tip_number() || &chain.header(*n).hash() != h {
            return Some(format!("remembered block {} is not an ancestor of the stored tip {}", n, tip_number));
        }
        if i + 1 < remembered.len() && remembered[i + 1].0 != n + 1 {
            return Some(format!("remembered blocks {} and {} are not consecutive", n, remembered[i + 1].0));
        }
    }
    if let Some((n, _)) = remembered.last() {
        if n + 1 != tip_number {
            return Some(format!("the remembered headers end at {} but the stored tip is {}", n, tip_number));
        }
    }
    None
}

struct World {
    chains: Vec<SimChain>, // chain 0 = main, others forks
    peer_chain: BTreeMap<u64, usize>,
}

pub(crate) fn legal_plan(rng: &mut Rng, chain: &SimChain) -> Vec<(u64, u32)> {
    // epoch lengths and compact targets with neighbouring epoch difficulties within factor 2
    let genesis_ct = chain.block(0).compact_target();
    let mut plan = vec![(rng.range(8, 25), genesis_ct)];
    let mut d: u64 = 100;
    let mut len = plan[0].0;
    for _ in 0..12 {
        let nlen = (len as i64 + rng.range(0, 6) as i64 - 3).max(6) as u64;
        // epoch difficulty = d * len; choose nd with nd*nlen in [d*len/2, d*len*2], block
        // difficulty kept below twice the running average (see simtest::epoch_plan)
        let lo = (d * len / 2 / nlen).max(60);
        let hi = (d * len * 2 / nlen).min(170);
        let nd = if lo >= hi { lo.min(170).max(60) } else { rng.range(lo, hi) };
        let ct = difficulty_to_compact(U256::from(nd));
        plan.push((nlen, ct));
        d = nd;
        len = nlen;
    }
    plan
}

fn parse_replay(path: &str) -> Vec<(u64, usize)> {
    std::fs::read_to_string(path)
        .unwrap_or_default()
        .lines()
        .filter_map(|l| {
            let t: Vec<&str> = l.split_whitespace().collect();
            if t.first() == Some(&"history-seed") && t.len() >= 4 {
                Some((t[1].parse().ok()?, t[3].parse().ok()?))
            } else {
                None
            }
        })
        .collect()
}

pub struct HistoryOut {
    pub lines: Vec<String>,
    pub impls: Vec<String>,
}

/// one history; `prop` selects which oracles report
fn run_history(rep: &mut Report, prop: &str, seed: u64, len: usize) -> HistoryOut {
    let mut rng = Rng::new(seed);
    super::seed_client_randomness(seed);
    let replay = vec![format!("history-seed {} len {}", seed, len)];
    let c05 = prop == "C05";
    let last_n = if c05 { *rng.pick(&[1u64, 2, 3, 5, 10, 30, 100]) } else { *rng.pick(&[2u64, 3, 5, 5, 100]) };
    // ---- chains
    // one history in four of C01 runs on a chain with a real proof of work (Eaglesong, easy
    // targets), on which a fork may contain a block whose nonce is NOT valid: what a cheating
    // peer's chain looks like.  Chosen from the seed, not drawn, so that the other histories
    // keep their random streams.
    let real_pow = prop == "C01" && seed % 4 == 0;
    let mut main = if real_pow { SimChain::new_eaglesong() } else { SimChain::new_dummy() };
    let plan = legal_plan(&mut rng, &main);
    let n0 = if c05 && rng.chance(1, 4) { rng.range(300, 1500) } else if c05 && rng.chance(1, 6) { rng.range(1, 4) } else { rng.range(last_n + 3, 160) };
    main.append_epochs(&plan, n0);
    let mut world = World {
        chains: vec![main],
        peer_chain: BTreeMap::new(),
    };
    let mut now = world.chains[0].tip().timestamp() + 5000;
    set_now(now);
    let mut node = Node::new(&world.chains[0], last_n);
    let opts = ServerOpts::default();

    let mut lines = vec![{
        let (td, tip) = node.env.storage.get_last_state();
        let tipv = VerifiableHeader::new(tip.into_view(), Default::default(), None, Default::default());
        format!(
            "init {} {} {} {} {} | {} |",
            last_n,
            MESSAGE_TIMEOUT,
            constant::REFRESH_PEERS_DURATION.as_millis(),
            ckb_constant::consensus::TAU,
            dec(&td),
            node.abs.vh(&tipv, now)
        )
    }];
    let mut impls = vec!["ok".to_string()];
    // outstanding proof requests as sent by the client: peer -> request
    let mut outstanding: BTreeMap<u64, packed::GetLastStateProof> = BTreeMap::new();
    // second message of the two-step announcement attack (forged sibling, then forged child)
    let mut pending_child: Option<(u64, packed::VerifiableHeader)> = None;
    let mut connected: BTreeSet<u64> = BTreeSet::new();
    let mut nontrivial = false;

    let push_dump = |node: &mut Node, lines: &mut Vec<String>, impls: &mut Vec<String>| {
        lines.push("dump".into());
        impls.push(node.dump());
    };

    // peers that should announce their chain's tip next (after the chains were levelled)
    let mut announce_queue: Vec<u64> = Vec::new();
    let mut forced_peer: Option<u64>;
    // a scripted prologue in one history of four: two peers on two branches of equal weight that
    // both find the next block (the race of competing tips); (choice, a, b), newest last
    #[derive(Clone, Copy)]
    enum Forced {
        Fork(u64),
        Connect(u64, usize),
        Announce(u64),
        Level(u64),
        Grow(usize, u64),
        /// a forged child of the peer's tip (self-consistent, inflated chain root) announced while
        /// the peer's proof request for the genuine tip is still outstanding
        ForgedAnnounce(u64),
    }
    let mut script: Vec<Forced> = if seed % 4 == 0 && !c05 {
        // peer 1 is proved on branch a at height L; peer 2 proves branch b at L+1 (a peer can only
        // be proved when its tip is ahead of the stored one); then a finds its block L+1 - as heavy
        // as the stored tip - and peer 1 announces it (the child fast path); and once more
        let mut v = vec![
            Forced::Fork(1),
            Forced::Level(0),
            Forced::Connect(1, 0),
            Forced::Announce(1),
            Forced::Connect(2, 1),
            Forced::Grow(1, 1),
            Forced::Announce(2),
            Forced::Grow(0, 1),
            Forced::Announce(1),
            Forced::Grow(0, 1),
            Forced::Announce(1),
            Forced::Grow(1, 1),
            Forced::Announce(2),
        ];
        v.reverse();
        v
    } else if seed % 16 == 5 && !c05 {
        // announce the tip (the client asks for its proof), announce a forged heavier header
        // BEFORE the proof is answered, then answer the request for the genuine tip honestly: the
        // proof proves the tip it was requested for, nothing else
        let mut v = vec![Forced::Connect(1, 0), Forced::Announce(1), Forced::ForgedAnnounce(1), Forced::Grow(0, 1), Forced::Announce(1), Forced::ForgedAnnounce(1)];
        v.reverse();
        v
    } else {
        Vec::new()
    };
    let mut forced: Option<Forced>;
    let mut force_forged = false;
    // C11, kept by the harness itself: peer -> (hash of the peer's last state, when it CHANGED to it)
    let mut last_change: BTreeMap<u64, (packed::Byte32, u64)> = BTreeMap::new();
    // whether the peer whose proof is being handled held a proved state that was NOT the stored
    // tip (the lagging-peer situation of the known long-fork finding)
    let mut proving_peer_lagged = false;
    // C05, one history in eight: afterwards the chain stands still for more than MESSAGE_TIMEOUT
    // while the peers keep answering (the quiet-chain probe)
    let quiet_probe = c05 && seed % 8 == 1;
    let total_steps = if quiet_probe { len + 60 + 40 } else if c05 { len + 60 } else { len };
    let mut settled = false;
    let mut idle_ticks = 0;
    // C05: the refresh timer fires every 8 s, so it always fires within 8 s after an announcement
    let mut tick_due = false;
    // C05: a peer whose tip stands still for MESSAGE_TIMEOUT is dropped by design; the chain finds
    // a block at least every 30 s of simulated time
    let mut last_growth = now;
    // a history in which a primary C05 defect showed up: its after-effects (the peer is gone, a
    // request is never answered) are not reported on top
    let mut tainted = false;
    for step in 0..total_steps {
        rep.evaluations += 1;
        let mut choice = rng.below(20);
        let quiet_tail = quiet_probe && step >= len + 60;
        let settling = c05 && step >= len && !quiet_tail;
        // state-directed bias: answer outstanding requests, announce to peers without a last state
        if !outstanding.is_empty() && rng.chance(1, 2) {
            choice = 10;
        } else if connected.iter().any(|p| {
            node.env
                .peers
                .get_state(&PeerIndex::new(*p as usize))
                .map(|s| s.get_last_state().is_none())
                .unwrap_or(false)
        }) && rng.chance(2, 3)
        {
            choice = 6;
        } else if connected.is_empty() && rng.chance(2, 3) {
            choice = 0;
        }
        forced_peer = None;
        forced = None;
        // while settling the chain still finds three more blocks (a client whose peer repeats an
        // unproved last state waits for the next block by design), then stands still
        let settle_growth = settling && [0usize, 12, 24].contains(&(step - len));
        let grow_now = c05 && !quiet_tail && ((!settling && now > last_growth + 30_000) || settle_growth);
        let tick_now = c05 && !quiet_tail && !grow_now && tick_due && outstanding.is_empty();
        if tick_now {
            tick_due = false;
        }
        if settling && !tick_now {
            // everybody announces its tip, every request is answered, until nothing is left to do
            if !outstanding.is_empty() {
                idle_ticks = 0;
                choice = 10;
            } else {
                let stale = connected.iter().cloned().find(|p| {
                    let tip = world.chains[*world.peer_chain.get(p).unwrap_or(&0)].tip().hash();
                    node.env
                        .peers
                        .get_state(&PeerIndex::new(*p as usize))
                        .map(|s| s.get_last_state().map(|l| l.as_ref().header().hash() != tip).unwrap_or(true))
                        .unwrap_or(false)
                });
                match stale {
                    Some(p) => {
                        announce_queue.clear();
                        forced_peer = Some(p);
                        choice = 6;
                    }
                    None => {
                        // proofs of new last states are requested by the refresh timer
                        if idle_ticks >= 2 {
                            settled = true;
                            if quiet_probe {
                                // go on with the quiet tail
                                idle_ticks = 0;
                                continue;
                            }
                            break;
                        }
                        idle_ticks += 1;
                        choice = 19;
                    }
                }
            }
        }
        let forced_settle = forced_peer;
        if quiet_tail {
            // the chain stands still: the peers answer every GetLastState, the timer fires every 8 s
            forced_peer = None;
            while let Some(p) = announce_queue.pop() {
                if connected.contains(&p) {
                    forced_peer = Some(p);
                    break;
                }
            }
            choice = if forced_peer.is_some() { 6 } else { 19 };
        } else if tick_now || grow_now {
            // the timer / the new block first
        } else if settling {
            forced_peer = forced_settle;
        } else if !script.is_empty() {
            if !outstanding.is_empty() && !matches!(script.last(), Some(Forced::ForgedAnnounce(_))) {
                choice = 10; // answer the outstanding proof requests first
            } else {
                forced = script.pop();
                match forced {
                    Some(Forced::Fork(_)) => choice = 5,
                    Some(Forced::Connect(..)) => choice = 0,
                    Some(Forced::Announce(p)) => {
                        forced_peer = Some(p);
                        choice = 6;
                    }
                    Some(Forced::Level(_)) | Some(Forced::Grow(..)) => choice = 3,
                    Some(Forced::ForgedAnnounce(p)) => {
                        forced_peer = Some(p);
                        force_forged = true;
                        choice = 6;
                    }
                    None => {}
                }
            }
        } else if outstanding.is_empty() || c05 {
            while let Some(p) = announce_queue.pop() {
                if connected.contains(&p) {
                    forced_peer = Some(p);
                    choice = 6;
                    break;
                }
            }
        }
        // more forks, and peers on them, early in a history
        if forced.is_none() && script.is_empty() && world.chains.len() < 2 && step > 3 && rng.chance(1, 6) {
            choice = 5;
        }
        if tick_now {
            choice = 19;
            forced_peer = None;
        }
        if grow_now {
            choice = 3;
            forced_peer = None;
            forced = None;
            // the new tip is announced to everybody
            announce_queue = connected.iter().cloned().collect();
        }
        match choice {
            // ------------------------------------------------------------ connect
            0 | 1 => {
                let mut p = rng.range(1, 3);
                let mut ci = if world.chains.len() > 1 && rng.chance(1, 2) {
                    rng.below(world.chains.len() as u64) as usize
                } else {
                    0
                };
                if let Some(Forced::Connect(fp, fc)) = forced {
                    p = fp;
                    ci = fc.min(world.chains.len() - 1);
                }
                if c05 {
                    ci = world.chains.len() - 1;
                }
                if connected.contains(&p) {
                    continue;
                }
                world.peer_chain.insert(p, ci);
                connected.insert(p);
                last_change.remove(&p);
                let peer = PeerIndex::new(p as usize);
                node.nc.connect(peer);
                let r = catch(|| block_on(node.lc.connected(as_ctx(&node.nc), peer, "t")));
                let (_, sent, _, _) = node.observe();
                lines.push(format!("connect {} {}", p, now));
                impls.push(match r {
                    Ok(()) => format!("sent [{}]", sent.join(", ")),
                    Err(e) => format!("panic {}", super::c14::panic_class(&e)),
                });
                rep.count_op("connect");
            }
            // ------------------------------------------------------------ disconnect
            2 => {
                let p = rng.range(1, 3);
                last_change.remove(&p);
                if !connected.remove(&p) {
                    continue;
                }
                outstanding.remove(&p);
                block_on(node.lc.disconnected(as_ctx(&node.nc), PeerIndex::new(p as usize)));
                lines.push(format!("disconnect {}", p));
                impls.push("ok".into());
                // C11: no state left behind
                if node.env.peers.get_state(&PeerIndex::new(p as usize)).is_some() && prop == "C11" {
                    rep.violate("C11|disconnect-leaves-state", "a disconnected peer still has state", replay.clone());
                }
                rep.count_op("disconnect");
            }
            // ------------------------------------------------------------ chain growth / fork
            3 | 4 if !c05 && world.chains.len() > 1 && (matches!(forced, Some(Forced::Level(_))) || rng.chance(1, 3)) => {
                // competing tips of equal total difficulty: level all chains, then (mostly) let
                // every chain find one more block at the same time
                let top = world.chains.iter().map(|c| c.tip_number()).max().unwrap_or(0);
                let extra = if let Some(Forced::Level(e)) = forced { e } else if rng.chance(2, 3) { 1 } else { 0 };
                for c in world.chains.iter_mut() {
                    let k = top + extra - c.tip_number();
                    if k > 0 {
                        c.append_simple(k);
                    }
                    now = now.max(c.tip().timestamp() + 5000);
                }
                set_now(now);
                // everybody announces the new tip, the peers of the other chains first
                let mut q: Vec<u64> = connected.iter().cloned().collect();
                q.sort_by_key(|p| std::cmp::Reverse(*world.peer_chain.get(p).unwrap_or(&0)));
                q.reverse();
                announce_queue = q;
                continue;
            }
            3 | 4 => {
                let mut ci = rng.below(world.chains.len() as u64) as usize;
                let mut k = *rng.pick(&[1u64, 1, 1, 2, 7, 30]);
                if let Some(Forced::Grow(fc, fk)) = forced {
                    ci = fc.min(world.chains.len() - 1);
                    k = fk;
                }
                if c05 {
                    ci = world.chains.len() - 1;
                    k = *rng.pick(&[1u64, 1, 1, 2]);
                    last_growth = now;
                    announce_queue = connected.iter().cloned().collect();
                    tick_due = false;
                }
                let _ = legal_plan(&mut rng, &world.chains[ci]);
                // keep the epoch plan of the chain: append_simple continues the current epoch rule
                if c05 {
                    world.chains[ci].append_epochs(&plan, k);
                } else {
                    world.chains[ci].append_simple(k);
                }
                now = now.max(world.chains[ci].tip().timestamp() + 5000);
                set_now(now);
                continue;
            }
            5 if c05 => {
                // the whole honest network reorganises: the new branch shares one of the
                // client's remembered last-N headers and every peer follows it
                if world.chains.len() >= 6 {
                    continue;
                }
                let m = world.chains.len() - 1;
                let (_, tip) = node.env.storage.get_last_state();
                let tip_number: u64 = tip.raw().number().unpack();
                let base = &world.chains[m];
                let on_main = base.number_of_hash(&tip.calc_header_hash()).is_some();
                let anchor = if on_main { tip_number } else { base.tip_number() };
                let depth = rng.below(last_n.max(1));
                let at = anchor.saturating_sub(depth).max(1).min(base.tip_number());
                let mut f = base.fork(at, 77 + world.chains.len() as u64);
                // the epochs of the new branch are those of the old one (same plan)
                f.append_epochs(&plan, base.tip_number() - at + rng.range(1, 3));
                now = now.max(f.tip().timestamp() + 5000);
                set_now(now);
                world.chains.push(f);
                let new_idx = world.chains.len() - 1;
                for (_, c) in world.peer_chain.iter_mut() {
                    *c = new_idx;
                }
                // the clock moved with the new blocks: the peers announce the new tip before the
                // next timer (in reality timers and announcements alternate all along)
                announce_queue = connected.iter().cloned().collect();
                tick_due = false;
                last_growth = now;
                if std::env::var("VERIF_DEBUG_BANS").is_ok() {
                    eprintln!("network reorg: stored tip #{} on_main {} anchor {} depth {} at {} new tip {} last_n {}", tip_number, on_main, anchor, depth, at, world.chains[new_idx].tip_number(), last_n);
                }
                rep.count_op("network-reorg");
                continue;
            }
            5 => {
                if world.chains.len() >= 3 || std::env::var("VERIF_C05_NOFORK").is_ok() {
                    continue;
                }
                let base = &world.chains[0];
                let mut depth = *rng.pick(&[0u64, 1, 2, last_n.saturating_sub(1), last_n, last_n + 1]);
                if let Some(Forced::Fork(d)) = forced {
                    depth = d;
                }
                if c05 {
                    // forks shallower than last-N only
                    depth = rng.below(last_n.max(1));
                }
                let at = base.tip_number().saturating_sub(depth).max(1);
                let mut f = base.fork(at, 77 + world.chains.len() as u64);
                let grow = depth + rng.range(1, 4);
                if real_pow {
                    // a block of the fork without a valid nonce (position from the seed)
                    f.break_pow_at.insert(at + 1 + (seed / 4) % grow);
                    rep.count_class("c01:fork-with-invalid-pow-block");
                }
                f.append_simple(grow);
                now = now.max(f.tip().timestamp() + 5000);
                set_now(now);
                world.chains.push(f);
                continue;
            }
            // ------------------------------------------------------------ SendLastState
            6 | 7 | 8 | 9 => {
                if connected.is_empty() {
                    continue;
                }
                let mut p = forced_peer.unwrap_or_else(|| *rng.pick(&connected.iter().cloned().collect::<Vec<_>>()));
                let second_step = match pending_child.take() {
                    Some((pp, cvh)) if connected.contains(&pp) && forced_peer.is_none() => {
                        p = pp;
                        Some(cvh)
                    }
                    _ => None,
                };
                let ci = *world.peer_chain.get(&p).unwrap_or(&0);
                let chain = &world.chains[ci];
                let forged_now = std::mem::replace(&mut force_forged, false) && second_step.is_none();
                let variant = if second_step.is_some() { 99 } else if forged_now { 2 } else if forced_peer.is_some() || c05 { 11 } else { rng.below(12) };
                let mut packed_vh = match variant {
                    0 => chain.verifiable_header(rng.range(1, chain.tip_number())), // an older block
                    _ => chain.verifiable_header(chain.tip_number()),
                };
                let mut label = "tip";
                if let Some(cvh) = second_step {
                    packed_vh = cvh;
                    label = "forged-child-after-sibling";
                }
                if variant == 1 {
                    // chain root not committed: alter the parent chain root
                    let root = packed_vh.parent_chain_root();
                    let root = root.as_builder().end_number(12345u64.pack()).build();
                    packed_vh = packed_vh.as_builder().parent_chain_root(root).build();
                    label = "bad-root";
                }
                let proved_tip = node
                    .env
                    .peers
                    .get_state(&PeerIndex::new(p as usize))
                    .and_then(|st| st.get_prove_state().map(|ps| ps.get_last_header().header().hash() == chain.tip().hash()))
                    .unwrap_or(false);
                if variant == 2 && proved_tip && chain.tip_number() >= 3 && !forged_now && (if prop == "C01" { fnv(&format!("{}:{}:{}:sibling", seed, now, p)) % 2 == 0 } else { rng.chance(1, 2) }) {
                    // two steps.  First a sibling Q of the peer's proved tip P (same height, own
                    // block) that commits to a parent chain root with an inflated total difficulty:
                    // nothing but an unproven announcement.  Then a child C of P whose parent
                    // chain root claims Q's total difficulty at P's number: it fits the ANNOUNCED
                    // state, not the proved one.
                    let pn = chain.tip_number();
                    let mut side = chain.fork(pn - 1, 998);
                    side.append_simple(1);
                    let q0 = side.verifiable_header(pn);
                    let inflated: U256 = U256::one() << 200u32;
                    let qroot = q0.parent_chain_root().as_builder().total_difficulty(inflated.pack()).build();
                    let q = with_parent_chain_root(&q0, qroot);
                    let qv: VerifiableHeader = q.clone().into();
                    let q_td = qv.total_difficulty();
                    let mut up = chain.fork(pn, 997);
                    up.append_simple(1);
                    let c0 = up.verifiable_header(pn + 1);
                    let croot = c0.parent_chain_root().as_builder().total_difficulty(q_td.pack()).build();
                    let c = with_parent_chain_root(&c0, croot);
                    packed_vh = q;
                    pending_child = Some((p, c));
                    label = "forged-sibling";
                } else if variant == 2 && (prop != "C01" || forged_now) {
                    // the forged child: an own block on top of the peer's tip whose extension
                    // commits to a parent chain root with an inflated total difficulty
                    let mut forged = chain.fork(chain.tip_number(), 999);
                    forged.append_simple(1);
                    let vh = forged.verifiable_header(forged.tip_number());
                    let root = vh.parent_chain_root();
                    let inflated = (U256::one() << 200u32).pack();
                    let root2 = root.as_builder().total_difficulty(inflated).build();
                    // rebuild the header so that its extension commits to root2
                    let hv: HeaderView = vh.header().into_view();
                    let ext: packed::Bytes = root2.calc_mmr_hash().as_bytes().pack();
                    let extra = ckb_types::core::ExtraHashView::new(vh.uncles_hash(), Some(ext.calc_raw_data_hash()));
                    let hv2 = hv.as_advanced_builder().extra_hash(extra.extra_hash()).build();
                    packed_vh = packed::VerifiableHeader::new_builder()
                        .header(hv2.data())
                        .uncles_hash(vh.uncles_hash())
                        .extension(packed::BytesOpt::new_builder().set(Some(ext)).build())
                        .parent_chain_root(root2)
                        .build();
                    label = "forged-child";
                }
                let far = variant == 3;
                let t = if far { now + MAX_TIP_AGE + 10_000 } else { now };
                if far {
                    now = t;
                }
                set_now(t);
                let vh: VerifiableHeader = packed_vh.clone().into();
                let tok = node.abs.vh(&vh, t);
                let before_tip = node.env.storage.get_last_state();
                let before_ps = node
                    .env
                    .peers
                    .get_state(&PeerIndex::new(p as usize))
                    .and_then(|s| s.get_prove_state().cloned());
                let msg = server::light_client_message(
                    packed::SendLastState::new_builder().last_header(packed_vh).build(),
                );
                let r = catch(|| {
                    block_on(node.lc.received(as_ctx(&node.nc), PeerIndex::new(p as usize), msg))
                });
                let (outcome, sent, reqs, _) = node.observe();
                let (b, ds) = reqs
                    .iter()
                    .find(|(q, _)| *q == p)
                    .map(|(_, r)| {
                        let b: U256 = r.difficulty_boundary().unpack();
                        let ds: Vec<String> = r.difficulties().into_iter().map(|d| dec(&d.unpack())).collect();
                        (dec(&b), ds.join(" "))
                    })
                    .unwrap_or(("0".into(), String::new()));
                for (q, r) in reqs {
                    outstanding.insert(q, r);
                }
                if outcome.starts_with("ban") {
                    // the real network disconnects a banned peer
                    connected.remove(&p);
                    last_change.remove(&p);
                    outstanding.remove(&p);
                    block_on(node.lc.disconnected(as_ctx(&node.nc), PeerIndex::new(p as usize)));
                }
                lines.push(format!("laststate {} {} {} | {} | {}", p, t, b, tok, ds));
                impls.push(match &r {
                    Ok(()) => format!("{} sent [{}]", outcome, sent.join(", ")),
                    Err(e) => format!("panic {}", super::c14::panic_class(e)),
                });
                if outcome.starts_with("ban") {
                    lines.push(format!("disconnect {}", p));
                    impls.push("ok".into());
                }
                if c05 {
                    tick_due = true;
                }
                rep.count_op("laststate");
                rep.count_class(&format!("laststate:{}:{}", label, outcome));
                {
                    // the peer's last state as the client holds it now (its content, not its clock)
                    let held = node
                        .env
                        .peers
                        .get_state(&PeerIndex::new(p as usize))
                        .and_then(|s| s.get_last_state().map(|l| l.as_ref().header().hash()));
                    match held {
                        Some(h) if connected.contains(&p) => {
                            if last_change.get(&p).map(|(old, _)| *old != h).unwrap_or(true) {
                                last_change.insert(p, (h, t));
                            }
                        }
                        _ => {
                            last_change.remove(&p);
                        }
                    }
                }
                // ---- oracles
                let after_tip = node.env.storage.get_last_state();
                let after_ps = node
                    .env
                    .peers
                    .get_state(&PeerIndex::new(p as usize))
                    .and_then(|s| s.get_prove_state().cloned());
                if prop == "C11" {
                    if before_ps.is_some() && after_ps.is_none() && !outcome.starts_with("ban") {
                        rep.violate("C11|last-state-discards-proof", "a last-state update discarded the prove state", replay.clone());
                    }
                }
                if prop == "C12" && after_tip.1.as_slice() != before_tip.1.as_slice() {
                    nontrivial = true;
                    if after_tip.0 <= before_tip.0 {
                        rep.violate("C12|tip-moved-without-more-difficulty", "the stored tip changed without a strictly greater total difficulty", replay.clone());
                    }
                    // child path: difficulty must be the proven parent's plus the child's own
                    if let Some(ps) = &before_ps {
                        let expect = ps.get_last_header().total_difficulty()
                            + ckb_types::utilities::compact_to_difficulty(vh.header().compact_target());
                        if after_tip.0 != expect {
                            rep.violate(
                                "C12|stored-difficulty-not-truthful|child-path",
                                "the stored total difficulty is not the proven parent's total difficulty plus the child's block difficulty",
                                replay.clone(),
                            );
                        }
                    }
                }
                if prop == "C12" && label == "forged-child" {
                    rep.count_class("c12:forged-child-delivered");
                }
                if prop == "C12" && after_tip.1.as_slice() != before_tip.1.as_slice() {
                    if let Some(what) = remembered_not_ancestors(&node.env.storage, &world) {
                        let mut r = replay.clone();
                        r.push(format!("# after an announcement ({}): {}", label, what));
                        rep.violate("C12|remembered-headers-not-ancestors|child-path", "the remembered last-N headers are not the ancestors of the stored tip", r);
                    }
                }
                if prop == "C01" && label.starts_with("forged") {
                    // an announcement is no proof: a made-up header (with an inflated parent chain
                    // root) must become neither the peer's proved header nor the stored tip
                    rep.count_class(&format!("c01:{}-delivered", label));
                    let forged_hash = vh.header().hash();
                    let proved_forged = after_ps.as_ref().map(|ps| ps.get_last_header().header().hash() == forged_hash).unwrap_or(false);
                    let tip_forged = after_tip.1.calc_header_hash() == forged_hash;
                    if proved_forged || tip_forged {
                        rep.violate(
                            &format!("C01|accepted|{}", label),
                            "a made-up header announced by a peer became trusted (the peer's proved header / the stored tip) without any proof",
                            replay.clone(),
                        );
                    }
                }
            }
            // ------------------------------------------------------------ SendLastStateProof
            10 | 11 | 12 | 13 | 14 | 15 => {
                if connected.is_empty() {
                    continue;
                }
                let p = *rng.pick(&connected.iter().cloned().collect::<Vec<_>>());
                let ci = *world.peer_chain.get(&p).unwrap_or(&0);
                let chain = &world.chains[ci];
                let other = &world.chains[(ci + 1) % world.chains.len()];
                let req = outstanding.get(&p).cloned();
                if req.is_none() && (c05 || !rng.chance(1, 8)) {
                    continue;
                }
                let edit = if req.is_none() {
                    Edit::Unsolicited
                } else if !script.is_empty() || c05 {
                    Edit::Honest
                } else {
                    rng.pick(&[
                        Edit::Honest,
                        Edit::Honest,
                        Edit::Honest,
                        Edit::Honest,
                        Edit::DropHeader,
                        Edit::DupHeader,
                        Edit::SwapHeaders,
                        Edit::ForeignHeader,
                        Edit::TamperProof,
                        Edit::DropProofItem,
                        Edit::TipStateOther,
                        Edit::OtherLastWithProof,
                        Edit::ShiftLastN,
                        Edit::FewerLastN,
                        Edit::ExtraSample,
                        Edit::WrongSample,
                        Edit::GapReorg,
                        Edit::ForgedTd,
                        Edit::PrivateChainRoot,
                    ])
                    .clone()
                };
                // the honest answer (or, unsolicited: an answer to a made-up request)
                let base_req = req.clone().unwrap_or_else(|| {
                    packed::GetLastStateProof::new_builder()
                        .last_hash(chain.tip().hash())
                        .start_hash(chain.block(0).hash())
                        .start_number(0u64.pack())
                        .last_n_blocks(last_n.pack())
                        .difficulty_boundary(chain.total_difficulty(chain.tip_number() / 2).pack())
                        .build()
                });
                let honest = match server::get_last_state_proof(chain, &base_req, &opts) {
                    Ok(h) => h,
                    Err(e) => {
                        if std::env::var("VERIF_DEBUG_BANS").is_ok() {
                            eprintln!("server refuses: {}", e);
                        }
                        if c05 && req.is_some() {
                            rep.count_class("c05:server-refuses");
                            tainted = true;
                            let mut r = replay.clone();
                            r.push(format!("# the honest server refuses the client's own request: {}", e));
                            rep.violate(
                                &format!("C05|request-refused|{}", e.split(|c: char| c.is_ascii_digit() || c == '(').next().unwrap_or("").trim().replace(' ', "-")),
                                "the client sends a request that a node following the protocol refuses",
                                r,
                            );
                            outstanding.remove(&p);
                        }
                        continue;
                    }
                };
                let numbers = server::last_state_proof_numbers(chain, &base_req, &opts).ok().flatten();
                let mut msg = honest.clone();
                let mut hs: Vec<packed::VerifiableHeader> = honest.headers().into_iter().collect();
                let mut effective = edit != Edit::Honest;
                match edit {
                    Edit::Honest | Edit::Unsolicited => {}
                    Edit::DropHeader if !hs.is_empty() => {
                        let i = rng.below(hs.len() as u64) as usize;
                        hs.remove(i);
                        msg = msg.as_builder().headers(hs.clone().pack()).build();
                    }
                    Edit::DupHeader if !hs.is_empty() => {
                        let i = rng.below(hs.len() as u64) as usize;
                        hs.insert(i, hs[i].clone());
                        msg = msg.as_builder().headers(hs.clone().pack()).build();
                    }
                    Edit::SwapHeaders if hs.len() >= 2 => {
                        let i = rng.below(hs.len() as u64 - 1) as usize;
                        hs.swap(i, i + 1);
                        msg = msg.as_builder().headers(hs.clone().pack()).build();
                    }
                    Edit::ForeignHeader if !hs.is_empty() => {
                        let i = rng.below(hs.len() as u64) as usize;
                        let n: u64 = hs[i].header().raw().number().unpack();
                        if n <= other.tip_number() && other.block(n).hash() != chain.block(n).hash() {
                            hs[i] = other.verifiable_header(n);
                            msg = msg.as_builder().headers(hs.clone().pack()).build();
                        } else {
                            effective = false;
                        }
                    }
                    Edit::TamperProof if !honest.proof().is_empty() => {
                        let mut items: Vec<packed::HeaderDigest> = honest.proof().into_iter().collect();
                        let i = rng.below(items.len() as u64) as usize;
                        items[i] = items[i].clone().as_builder().children_hash([0x5a; 32].pack()).build();
                        msg = msg.as_builder().proof(items.pack()).build();
                    }
                    Edit::DropProofItem if !honest.proof().is_empty() => {
                        let mut items: Vec<packed::HeaderDigest> = honest.proof().into_iter().collect();
                        let i = rng.below(items.len() as u64) as usize;
                        items.remove(i);
                        msg = msg.as_builder().proof(items.pack()).build();
                    }
                    Edit::TipStateOther => {
                        // what an honest server sends when the requested last block is unknown
                        msg = packed::SendLastStateProof::new_builder()
                            .last_header(other.verifiable_header(other.tip_number()))
                            .build();
                        // this is a legitimate message, not an attack
                        effective = false;
                    }
                    Edit::OtherLastWithProof => {
                        msg = msg.as_builder().last_header(other.verifiable_header(other.tip_number())).build();
                        effective = other.tip().hash() != chain.tip().hash();
                    }
                    Edit::ShiftLastN | Edit::FewerLastN | Edit::ExtraSample | Edit::WrongSample | Edit::GapReorg => {
                        // re-select genuine blocks and prove them honestly
                        if let Some((last, reorg, sampled, last_nn)) = numbers.clone() {
                            let mut sampled = sampled;
                            let mut last_nn = last_nn;
                            let mut reorg = reorg;
                            match edit {
                                Edit::GapReorg => {
                                    // the first k headers of the reorg section move one block down:
                                    // same count, same end, sorted, but a block is left out
                                    if reorg.len() >= 2 && reorg[0] > 1 {
                                        let k = rng.range(1, reorg.len() as u64 - 1) as usize;
                                        for x in reorg.iter_mut().take(k) {
                                            *x -= 1;
                                        }
                                        rep.count_class("c01:gap-in-reorg-section");
                                    } else {
                                        effective = false;
                                    }
                                }
                                Edit::ShiftLastN => {
                                    if let Some(first) = last_nn.first().cloned() {
                                        let lowest = sampled.last().cloned().unwrap_or(0).max(reorg.last().cloned().unwrap_or(0));
                                        let room = first.saturating_sub(lowest + 2);
                                        let k = if room == 0 { 1 } else { rng.range(1, room.min(10)) };
                                        if first > lowest + k + 1 {
                                            last_nn = last_nn.iter().map(|n| n - k).collect();
                                        } else {
                                            effective = false;
                                        }
                                    } else {
                                        effective = false;
                                    }
                                }
                                Edit::FewerLastN => {
                                    if last_nn.len() > 1 {
                                        last_nn.remove(0);
                                    } else {
                                        effective = false;
                                    }
                                }
                                Edit::ExtraSample => {
                                    // a block between start and the last-N section that was not sampled
                                    let start: u64 = base_req.start_number().unpack();
                                    let end = last_nn.first().cloned().unwrap_or(last);
                                    let cand: Vec<u64> = (start.max(1)..end).filter(|n| !sampled.contains(n) && !reorg.contains(n)).collect();
                                    if cand.is_empty() {
                                        effective = false;
                                    } else {
                                        sampled.push(*rng.pick(&cand));
                                        sampled.sort();
                                    }
                                }
                                _ => {
                                    if sampled.is_empty() {
                                        effective = false;
                                    } else {
                                        let i = rng.below(sampled.len() as u64) as usize;
                                        let n = sampled[i];
                                        let repl = if n > 1 && !sampled.contains(&(n - 1)) && !reorg.contains(&(n - 1)) { n - 1 } else { n };
                                        if repl == n {
                                            effective = false;
                                        }
                                        sampled[i] = repl;
                                    }
                                }
                            }
                            let all: Vec<u64> = reorg.iter().chain(sampled.iter()).chain(last_nn.iter()).cloned().collect();
                            match chain.try_mmr_proof(last, &all) {
                                Ok(proof) => {
                                    let headers: Vec<packed::VerifiableHeader> = all.iter().map(|n| chain.verifiable_header(*n)).collect();
                                    msg = msg.as_builder().headers(headers.pack()).proof(proof).build();
                                }
                                Err(_) => effective = false,
                            }
                        } else {
                            effective = false;
                        }
                    }
                    Edit::PrivateChainRoot => {
                        // a private branch forking off below the requested last header, block by
                        // block with the epochs / targets / timestamps of the genuine chain: its
                        // chain root has the genuine total difficulty and end number
                        effective = false;
                        if let Some(l) = chain.number_of_hash(&base_req.last_hash()) {
                            let start_n: u64 = base_req.start_number().unpack();
                            if l >= 3 && start_n + 1 < l {
                                let at = (l - 1 - rng.below((l - 1 - start_n).min(3))).max(start_n).max(1);
                                if at < l {
                                    let mut f = chain.fork(at, 555);
                                    for n in at + 1..=l {
                                        let g = chain.header(n);
                                        f.append(super::simchain::BlockPlan {
                                            epoch: g.epoch(),
                                            compact_target: g.compact_target(),
                                            timestamp: g.timestamp(),
                                            txs: Vec::new(),
                                            nonce: 7,
                                        });
                                    }
                                    let req2 = base_req.clone().as_builder().last_hash(f.block(l).hash()).build();
                                    if let Ok(m) = server::get_last_state_proof(&f, &req2, &opts) {
                                        let lh = chain.verifiable_header(l).as_builder().parent_chain_root(m.last_header().parent_chain_root()).build();
                                        msg = m.as_builder().last_header(lh).build();
                                        hs = msg.headers().into_iter().collect();
                                        effective = true;
                                    }
                                }
                            }
                        }
                    }
                    Edit::ForgedTd if !hs.is_empty() => {
                        let i = rng.below(hs.len() as u64) as usize;
                        let root = hs[i].parent_chain_root();
                        let td: U256 = root.total_difficulty().unpack();
                        let root = root.as_builder().total_difficulty((td + U256::from(7u32)).pack()).build();
                        hs[i] = hs[i].clone().as_builder().parent_chain_root(root).build();
                        msg = msg.as_builder().headers(hs.clone().pack()).build();
                    }
                    _ => effective = false,
                }
                if msg.as_slice() == honest.as_slice() && edit != Edit::Unsolicited {
                    effective = false;
                }
                // abstraction of the message for the model
                let last_vh: VerifiableHeader = msg.last_header().into();
                let headers: Vec<VerifiableHeader> = msg.headers().into_iter().map(Into::into).collect();
                let hviews: Vec<HeaderView> = headers.iter().map(|h| h.header().to_owned()).collect();
                let mmr_ok = catch(|| {
                    verify_mmr_proof(
                        node.lc.mmr_activated_epoch(),
                        &last_vh,
                        msg.proof().as_reader(),
                        hviews.iter(),
                    )
                    .is_ok()
                })
                .unwrap_or(false);
                let tok_last = node.abs.vh(&last_vh, now);
                let tok_hs: Vec<String> = headers.iter().map(|h| node.abs.vh(h, now)).collect();
                let before = trusted(&mut node);
                let before_tip = node.env.storage.get_last_state();
                let before_state = node.env.peers.get_state(&PeerIndex::new(p as usize));
                proving_peer_lagged = before_state
                    .as_ref()
                    .and_then(|s| s.get_prove_state().map(|ps| ps.get_last_header().header().hash() != before_tip.1.calc_header_hash()))
                    .unwrap_or(false);
                let bytes: Bytes = server::light_client_message(msg.clone());
                let r = catch(|| {
                    block_on(node.lc.received(as_ctx(&node.nc), PeerIndex::new(p as usize), bytes))
                });
                let (outcome, sent, reqs, _) = node.observe();
                let (b, ds) = reqs
                    .iter()
                    .find(|(q, _)| *q == p)
                    .map(|(_, r)| {
                        let b: U256 = r.difficulty_boundary().unpack();
                        let ds: Vec<String> = r.difficulties().into_iter().map(|d| dec(&d.unpack())).collect();
                        (dec(&b), ds.join(" "))
                    })
                    .unwrap_or(("0".into(), String::new()));
                let got_request = reqs.iter().any(|(q, _)| *q == p);
                for (q, r) in reqs {
                    outstanding.insert(q, r);
                }
                let after = trusted(&mut node);
                let after_tip = node.env.storage.get_last_state();
                let after_state = node.env.peers.get_state(&PeerIndex::new(p as usize));
                if !got_request {
                    // a request is answered (or rejected) by now unless the state still holds it
                    let still = after_state.as_ref().and_then(|s| s.get_prove_request().cloned());
                    if still.is_none() {
                        outstanding.remove(&p);
                    } else if c05 && !outcome.starts_with("ban") && r.is_ok() {
                        // a node answers a request once: the client keeps waiting for an answer it
                        // has already received, until the refresh timer drops the peer
                        outstanding.remove(&p);
                        if !tainted {
                            let stored_number: u64 = after_tip.1.raw().number().unpack();
                            let first_sampled_is_genesis = hviews.first().map(|h| h.number() == 0).unwrap_or(false);
                            let class = if first_sampled_is_genesis && stored_number >= last_vh.header().number() {
                                "genesis-sampled-after-another-peer-proved-the-tip"
                            } else if msg.proof().is_empty() && msg.headers().is_empty() {
                                "tip-changed-answer"
                            } else {
                                "other"
                            };
                            let mut rr = replay.clone();
                            rr.push(format!(
                                "# peer {}: the honest answer to its request (last #{}, {} headers, first #{}) leaves the request outstanding; stored tip #{}",
                                p,
                                last_vh.header().number(),
                                hviews.len(),
                                hviews.first().map(|h| h.number().to_string()).unwrap_or("-".into()),
                                stored_number
                            ));
                            rep.violate(
                                &format!("C05|answer-dropped|{}", class),
                                "the client ignores a correct answer and keeps its request outstanding: the peer is dropped by the timeout although it answered",
                                rr,
                            );
                            tainted = true;
                        }
                    }
                }
                if outcome.starts_with("ban") {
                    connected.remove(&p);
                    last_change.remove(&p);
                    outstanding.remove(&p);
                    block_on(node.lc.disconnected(as_ctx(&node.nc), PeerIndex::new(p as usize)));
                }
                lines.push(format!(
                    "proof {} {} {} {} {} {} | {} | {} | {} | {}",
                    p,
                    now,
                    b,
                    b,
                    msg.proof().is_empty() as u8,
                    mmr_ok as u8,
                    tok_last,
                    tok_hs.join(" "),
                    ds,
                    ds
                ));
                impls.push(match &r {
                    Ok(()) => format!("{} sent [{}]", outcome, sent.join(", ")),
                    Err(e) => format!("panic {}", super::c14::panic_class(e)),
                });
                if outcome.starts_with("ban") {
                    lines.push(format!("disconnect {}", p));
                    impls.push("ok".into());
                }
                rep.count_op("proof");
                {
                    // a proof message may carry another last state (the tip-state answers)
                    let held = node
                        .env
                        .peers
                        .get_state(&PeerIndex::new(p as usize))
                        .and_then(|s| s.get_last_state().map(|l| l.as_ref().header().hash()));
                    match held {
                        Some(h) if connected.contains(&p) => {
                            if last_change.get(&p).map(|(old, _)| *old != h).unwrap_or(true) {
                                last_change.insert(p, (h, now));
                            }
                        }
                        _ => {
                            last_change.remove(&p);
                        }
                    }
                }
                rep.count_class(&format!("proof:{:?}:{}", edit, outcome));
                if let Err(e) = &r {
                    if !e.contains("long fork detected") {
                        rep.count_class("proof:panic");
                        if prop == "C01" {
                            // aborts are C10's business; recorded here for the sample only
                        }
                    }
                }
                // ---- oracles
                let changed = before != after;
                if changed {
                    nontrivial = true;
                }
                if prop == "C01" && changed && real_pow {
                    let engine = node.env.consensus.pow_engine();
                    let bad: Vec<u64> = headers
                        .iter()
                        .chain(Some(&last_vh))
                        .filter(|h| !engine.verify(&h.header().data()))
                        .map(|h| h.header().number())
                        .collect();
                    if !bad.is_empty() {
                        let mut rp = replay.clone();
                        rp.push(format!("# at op line {} (step {}), edit {:?}: headers {:?} have no valid nonce", lines.len(), step, edit, bad));
                        rep.violate(
                            "C01|accepted|invalid-pow",
                            "trusted state changed on a response that contains a header without a valid proof of work",
                            rp,
                        );
                    }
                }
                if prop == "C01" && changed && (effective || edit == Edit::Unsolicited) {
                    let mut rp = replay.clone();
                    rp.push(format!("# at op line {} of the history (step {}), edit {:?}", lines.len(), step, edit));
                    rp.push(format!("# honest header numbers: {:?}", numbers));
                    rp.push(format!(
                        "# delivered header numbers: {:?}",
                        headers.iter().map(|h| h.header().number()).collect::<Vec<_>>()
                    ));
                    rp.push(format!("# request: start {} last_n {} boundary {} difficulties {}",
                        Unpack::<u64>::unpack(&base_req.start_number()), last_n,
                        dec(&base_req.difficulty_boundary().unpack()), base_req.difficulties().len()));
                    rep.violate(
                        &format!("C01|accepted|{:?}", edit),
                        &format!("trusted state changed on a response that is not an honest answer to the outstanding request ({:?})", edit),
                        rp,
                    );
                }
                if prop == "C11" {
                    let had_matching_request = before_state
                        .as_ref()
                        .and_then(|s| s.get_prove_request().cloned())
                        .map(|rq| rq.is_same_as(&last_vh))
                        .unwrap_or(false);
                    let ps_before = before_state.as_ref().and_then(|s| s.get_prove_state().map(|x| node.abs.vid(x.get_last_header())));
                    let ps_after = after_state.as_ref().and_then(|s| s.get_prove_state().map(|x| node.abs.vid(x.get_last_header())));
                    if ps_before != ps_after && !had_matching_request {
                        // legitimate only as a copy of another peer's prove state for the announced header
                        let copied = node
                            .env
                            .peers
                            .get_all_prove_states()
                            .iter()
                            .filter(|(q, _)| q.value() as u64 != p)
                            .any(|(_, x)| Some(node.abs.vid(x.get_last_header())) == ps_after);
                        if !copied {
                            rep.violate("C11|proof-accepted-without-request", "a proof changed the prove state although no proof request for that last state was outstanding", replay.clone());
                        }
                    }
                }
                if prop == "C12" && after_tip.1.as_slice() != before_tip.1.as_slice() {
                    if after_tip.0 <= before_tip.0 {
                        rep.violate("C12|tip-moved-without-more-difficulty", "the stored tip changed without a strictly greater total difficulty", replay.clone());
                    }
                    if let Some(what) = remembered_not_ancestors(&node.env.storage, &world) {
                        let mut r = replay.clone();
                        r.push(format!("# after a proof: {}", what));
                        rep.violate("C12|remembered-headers-not-ancestors|proof-path", "the remembered last-N headers are not the ancestors of the stored tip", r);
                    }
                    let tip_hash = after_tip.1.calc_header_hash();
                    // a proof proves the last header it carries (the one it was requested for)
                    if tip_hash != last_vh.header().hash() {
                        rep.violate("C12|tip-is-not-the-proved-header", "a proof moved the stored tip to another header than the one it proves", replay.clone());
                    }
                    let proven_by_someone = node.env.peers.get_all_prove_states().iter().any(|(_, x)| x.get_last_header().header().hash() == tip_hash);
                    if !proven_by_someone {
                        rep.violate("C12|tip-not-proven", "the stored tip is not the proven header of any peer", replay.clone());
                    }
                    // truthful: equals the honest chain's total difficulty of that block
                    if let Some(n) = chain.number_of_hash(&tip_hash) {
                        if &after_tip.0 != chain.total_difficulty(n) {
                            rep.violate("C12|stored-difficulty-not-truthful|proof-path", "stored total difficulty differs from the chain's", replay.clone());
                        }
                    }
                }
            }
            // ------------------------------------------------------------ refresh tick
            _ => {
                let dt = *rng.pick(&[
                    1000u64,
                    8000,
                    8001,
                    MESSAGE_TIMEOUT - 1,
                    MESSAGE_TIMEOUT,
                    MESSAGE_TIMEOUT + 1,
                    2 * MESSAGE_TIMEOUT,
                ]);
                let dt = if quiet_tail { 8000 } else if tick_now || settling { 1000 } else if c05 { *rng.pick(&[1000u64, 4000, 8000, 8001]) } else { dt };
                now += dt;
                set_now(now);
                let before_states: Vec<(u64, Option<PeerState>)> = connected
                    .iter()
                    .map(|p| (*p, node.env.peers.get_state(&PeerIndex::new(*p as usize))))
                    .collect();
                let r = catch(|| block_on(node.lc.notify(as_ctx(&node.nc), constant::REFRESH_PEERS_TOKEN)));
                let (_, mut sent, reqs, mut disc) = node.observe();
                sent.sort();
                disc.sort();
                let si: Vec<String> = reqs
                    .iter()
                    .map(|(q, r)| {
                        let b: U256 = r.difficulty_boundary().unpack();
                        let ds: Vec<String> = r.difficulties().into_iter().map(|d| dec(&d.unpack())).collect();
                        format!("{} {} {}", q, dec(&b), ds.join(" "))
                    })
                    .collect();
                for (q, r) in reqs {
                    outstanding.insert(q, r);
                }
                if c05 {
                    // honest peers answer a GetLastState at once
                    for s in &sent {
                        if let Some(p) = s.strip_prefix("GLS(").and_then(|t| t.strip_suffix(')')).and_then(|t| t.parse::<u64>().ok()) {
                            if !announce_queue.contains(&p) {
                                announce_queue.push(p);
                            }
                        }
                    }
                    if !disc.is_empty() && !tainted && quiet_tail {
                        let mut r = replay.clone();
                        r.push("# the chain stood still for MESSAGE_TIMEOUT, the peer answered every GetLastState with its unchanged tip".into());
                        rep.violate(
                            "C05|honest-peer-disconnected|quiet-chain",
                            "a peer whose tip does not change for MESSAGE_TIMEOUT is dropped although it answers every request",
                            r,
                        );
                        tainted = true;
                    } else if !disc.is_empty() && !tainted {
                        rep.violate("C05|honest-peer-disconnected", "the refresh timer disconnects a peer that answered everything in time", replay.clone());
                    }
                }
                lines.push(format!("tick {} | {}", now, si.join(" ; ")));
                impls.push(match &r {
                    Ok(()) => format!(
                        "disconnect [{}] sent [{}]",
                        disc.iter().map(|d| d.to_string()).collect::<Vec<_>>().join(", "),
                        sent.join(", ")
                    ),
                    Err(e) => format!("panic {}", super::c14::panic_class(e)),
                });
                // C11, independent of the client's own clock fields: a peer whose last state has not
                // changed for longer than MESSAGE_TIMEOUT is dropped by the tick
                if prop == "C11" {
                    for (p, st) in &before_states {
                        let held = st.as_ref().and_then(|s| s.get_last_state().map(|l| l.as_ref().header().hash()));
                        if let (Some(h), Some((th, t0))) = (held, last_change.get(p)) {
                            if h == *th && now > *t0 + MESSAGE_TIMEOUT && !disc.contains(p) {
                                let mut r2 = replay.clone();
                                r2.push(format!("# peer {}: last state unchanged since {}, tick at {}", p, t0, now));
                                rep.violate("C11|unchanged-last-state-not-disconnected", "a peer whose last state did not change for more than the message timeout was not disconnected", r2);
                            }
                        }
                    }
                }
                for p in &disc {
                    last_change.remove(p);
                }
                // C11 timeout oracle: exactly the peers with an over-age request or last state
                if prop == "C11" {
                    for (p, st) in &before_states {
                        if let Some(st) = st {
                            let over = {
                                let name = format!("{:#}", st);
                                // when_sent / update_ts are printed by the alternate Display
                                let grab = |key: &str| -> Option<u64> {
                                    name.split(key).nth(1).and_then(|s| {
                                        s.trim_start()
                                            .split(|c: char| !c.is_ascii_digit())
                                            .next()
                                            .and_then(|x| x.parse().ok())
                                    })
                                };
                                let req_over = grab("when_sent: ").map(|w| now > w + MESSAGE_TIMEOUT).unwrap_or(false);
                                let ls_over = st
                                    .get_last_state()
                                    .map(|l| now > l.update_ts() + MESSAGE_TIMEOUT)
                                    .unwrap_or(false);
                                req_over || ls_over
                            };
                            let was = disc.contains(p);
                            if over && !was {
                                rep.violate("C11|timeout-not-disconnected", "a peer with an over-age request or last state was not disconnected", replay.clone());
                            }
                            if !over && was {
                                rep.violate("C11|disconnected-without-timeout", "a peer was disconnected by the tick without a timeout reason", replay.clone());
                            }
                        }
                    }
                }
                // the network layer reports the disconnections
                for p in disc {
                    connected.remove(&p);
                    last_change.remove(&p);
                    outstanding.remove(&p);
                    block_on(node.lc.disconnected(as_ctx(&node.nc), PeerIndex::new(p as usize)));
                    lines.push(format!("disconnect {}", p));
                    impls.push("ok".into());
                }
                rep.count_op("tick");
            }
        }
        if impls.last().map(|x| x.starts_with("panic")).unwrap_or(false) {
            if c05 {
                let what = impls.last().cloned().unwrap_or_default();
                let mut r = replay.clone();
                r.push(format!("# {} while handling `{}`", what, lines.last().map(|l| l.chars().take(80).collect::<String>()).unwrap_or_default()));
                if what.contains("long-fork") || what.contains("long fork") || what.contains("deliberate") {
                    // the known finding is the LAGGING peer (its proved state is on an abandoned
                    // branch while the store moved on through another peer); an abort with a peer
                    // that was in step with the store is something else
                    rep.violate(
                        if proving_peer_lagged {
                            "C05|long-fork-abort-among-honest-peers"
                        } else {
                            "C05|long-fork-abort-among-honest-peers|peer-in-step-with-the-store"
                        },
                        "the client stops with the long-fork abort although every peer follows one chain that was reorganised by less than last-N blocks",
                        r,
                    );
                } else {
                    rep.violate("C05|abort", "the client aborts while talking to honest peers", r);
                }
                tainted = true;
            }
            break;
        }
        if c05 {
            let k = impls.len();
            for j in k.saturating_sub(2)..k {
                let out = &impls[j];
                if out.starts_with("ban ") {
                    let code = out.split(' ').nth(1).unwrap_or("?").to_string();
                    let op = lines[j].split(' ').next().unwrap_or("").to_string();
                    let mut r = replay.clone();
                    r.push(format!("# `{}` of an honest peer answered with {}", op, out.chars().take(60).collect::<String>()));
                    rep.violate(&format!("C05|honest-peer-banned|{}|{}", op, code), "a peer that follows the protocol is banned", r);
                    tainted = true;
                }
            }
        }
        push_dump(&mut node, &mut lines, &mut impls);
        let _ = step;
    }
    if std::env::var("VERIF_TRACE").is_ok() {
        for (l, i) in lines.iter().zip(impls.iter()) {
            let w = if std::env::var("VERIF_TRACE").map(|v| v == "full").unwrap_or(false) { usize::MAX } else { 200 };
            eprintln!("{}   #{}", l.chars().take(w).collect::<String>(), i.chars().take(w.saturating_mul(2)).collect::<String>());
        }
    }
    if c05 {
        // the stored tip is as heavy as the heaviest tip the connected peers announce
        let best = connected
            .iter()
            .map(|p| {
                let c = &world.chains[*world.peer_chain.get(p).unwrap_or(&0)];
                c.total_difficulty(c.tip_number()).clone()
            })
            .max();
        let (stored, _) = node.env.storage.get_last_state();
        if tainted {
            rep.count_class("c05:tainted-history");
        } else if let Some(best) = best {
            if !settled {
                rep.violate("C05|not-settled", "the exchange with honest peers does not come to an end", replay.clone());
            } else if stored < best {
                let mut r = replay.clone();
                r.push(format!("# stored total difficulty {} < heaviest announced {}", dec(&stored), dec(&best)));
                rep.violate("C05|not-converged", "after the exchange with honest peers the stored tip is lighter than the heaviest announced tip", r);
            } else {
                rep.count_class("c05:converged");
            }
        }
    }
    if nontrivial {
        rep.nontrivial.insert(fnv(&format!("{}:{}", seed, len)));
    }
    ckb_systemtime::faketime().disable_faketime();
    HistoryOut { lines, impls }
}

fn canon(s: &str) -> String {
    // the reorg headers of a COPIED prove state depend on which of several equally proved peers
    // the implementation meets first (DashMap order); the model takes the lowest id: the reorg
    // lists of a dump are not compared
    let s = {
        let mut out = String::with_capacity(s.len());
        let mut rest = s;
        while let Some(i) = rest.find("]/[") {
            out.push_str(&rest[..i + 1]);
            let tail = &rest[i + 3..];
            match tail.find(']') {
                Some(j) => rest = &tail[j + 1..],
                None => {
                    rest = "";
                }
            }
        }
        out.push_str(rest);
        out
    };
    let s = s.as_str();
    // outcome classes: the model distinguishes ok / recheck, the network context cannot
    let s = s.replacen("recheck sent", "pass sent", 1);
    let s = if s.starts_with("ok sent") { s.replacen("ok sent", "pass sent", 1) } else { s };
    // sets of sent messages / disconnections are order-free
    if let Some(i) = s.find("sent [") {
        let head = &s[..i];
        let body = &s[i + 6..s.len() - 1];
        let mut items: Vec<&str> = body.split(", GL").collect();
        let mut fixed: Vec<String> = Vec::new();
        for (k, it) in items.drain(..).enumerate() {
            if it.is_empty() {
                continue;
            }
            fixed.push(if k == 0 { it.to_string() } else { format!("GL{}", it) });
        }
        fixed.sort();
        return format!("{}sent [{}]", head, fixed.join(", "));
    }
    s
}

/// C11: between two dumps (= while one event is handled) every peer that exists before and
/// after moves along a path of documented diagram edges (`Prove.Edge`)
fn diagram_oracle(rep: &mut Report, h: &HistoryOut, seed: u64, len: usize) {
    const KINDS: [&str; 7] = [
        "Initialized",
        "RequestFirstLastState",
        "OnlyHasLastState",
        "RequestFirstLastStateProof",
        "Ready",
        "RequestNewLastState",
        "RequestNewLastStateProof",
    ];
    // edges 1->2 2->3 3->4 4->5 5->6 6->5 5->7 7->5 and the copy shortcut 3->5 (0-based)
    const EDGES: [(usize, usize); 9] = [(0, 1), (1, 2), (2, 3), (3, 4), (4, 5), (5, 4), (4, 6), (6, 4), (2, 4)];
    let mut reach = [[false; 7]; 7];
    for k in 0..7 {
        reach[k][k] = true;
    }
    for _ in 0..7 {
        for (a, b) in EDGES {
            for s in 0..7 {
                if reach[s][a] {
                    reach[s][b] = true;
                }
            }
        }
    }
    let kinds_of = |dump: &str| -> BTreeMap<u64, usize> {
        let mut m = BTreeMap::new();
        for part in dump.split('[').skip(1) {
            let mut t = part.split(' ');
            if let (Some(id), Some(kind)) = (t.next(), t.next()) {
                if let (Ok(id), Some(k)) = (id.parse::<u64>(), KINDS.iter().position(|x| *x == kind)) {
                    m.insert(id, k);
                }
            }
        }
        m
    };
    let mut prev: Option<(BTreeMap<u64, usize>, usize)> = None;
    for (i, imp) in h.impls.iter().enumerate() {
        if !imp.starts_with("stored ") {
            continue;
        }
        // the peers part follows " peers "
        let peers_part = imp.split(" peers ").nth(1).unwrap_or("");
        let cur = kinds_of(peers_part);
        if let Some((before, at)) = &prev {
            for (id, kb) in before {
                if let Some(ka) = cur.get(id) {
                    if !reach[*kb][*ka] {
                        let event = h.lines[*at + 1..i].iter().find(|l| !l.starts_with("dump")).cloned().unwrap_or_default();
                        rep.violate(
                            &format!("C11|off-diagram|{}->{}", KINDS[*kb], KINDS[*ka]),
                            "a peer moves between two states that no path of documented diagram edges connects",
                            vec![
                                format!("history-seed {} len {}", seed, len),
                                format!("# peer {}: {} -> {} while handling `{}`", id, KINDS[*kb], KINDS[*ka], event.chars().take(160).collect::<String>()),
                            ],
                        );
                    }
                }
            }
        }
        prev = Some((cur, i));
    }
}

pub fn run(opts: &Options, prop: &str) -> Report {
    let mut rep = Report::default();
    rep.rule = "event histories (connect, disconnect, chain growth, forks at depth 0..last_n+1, \
        SendLastState: tip / older block / uncommitted chain root / forged child / far-future clock, \
        SendLastStateProof: honest answers of the RFC-44 server to the client's own randomly sampled \
        requests and 14 single-fault edits incl. re-selected genuine headers with honest MMR proofs, \
        unsolicited and stale deliveries, refresh ticks at the timeout boundaries) over 1..3 peers on \
        dummy-PoW chains with per-epoch difficulty changes, last_n in {2,3,5,100}; the full trusted \
        state is dumped and compared after every event; non-trivial = trusted state changed at least \
        once; distinct = distinct history seed"
        .into();
    let mut rng = Rng::new(opts.seed ^ fnv(prop));
    let mut seeds: Vec<(u64, usize)> = Vec::new();
    if let Some(p) = &opts.replay {
        seeds = parse_replay(p);
    } else {
        if let Ok(rd) = std::fs::read_dir(format!("/verif/corpus/{}", prop)) {
            for e in rd.flatten() {
                seeds.extend(parse_replay(e.path().to_str().unwrap()));
            }
        }
        let n = if opts.thorough() { 2500 } else { 300 };
        for _ in 0..n {
            seeds.push((rng.next(), rng.range(10, 60) as usize));
        }
    }
    let mut all_lines = Vec::new();
    let mut all_impls = Vec::new();
    let mut owner = Vec::new();
    for (i, (seed, len)) in seeds.iter().enumerate() {
        let h = run_history(&mut rep, prop, *seed, *len);
        if i % 31 == 0 {
            let ops: Vec<String> = h
                .lines
                .iter()
                .filter(|l| !l.starts_with("dump"))
                .map(|l| l.split(' ').take(3).collect::<Vec<_>>().join(" "))
                .take(14)
                .collect();
            rep.sample(&format!("history-seed {} len {}: {}", seed, len, ops.join("; ")));
        }
        if prop == "C11" {
            diagram_oracle(&mut rep, &h, *seed, *len);
        }
        for _ in 0..h.lines.len() {
            owner.push(i);
        }
        all_lines.extend(h.lines);
        all_impls.extend(h.impls);
    }
    let answers = run_model(opts, "prove", &all_lines);
    let mut bad = BTreeSet::new();
    for (i, a) in answers.iter().enumerate() {
        let a = canon(&super::c14::model_class(a));
        let imp = canon(&all_impls[i]);
        if a == imp {
            rep.traces_validated += 1;
        } else if bad.insert(owner[i]) {
            let (seed, len) = seeds[owner[i]];
            rep.disagree(
                &format!(
                    "{}   [history-seed {} len {}]",
                    all_lines[i].chars().take(400).collect::<String>(),
                    seed,
                    len
                ),
                &imp.chars().take(700).collect::<String>(),
                &a.chars().take(700).collect::<String>(),
            );
        }
    }
    rep
}

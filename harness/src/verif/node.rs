//! A full client: store + peer table + the three protocol handlers + RPC implementations over
//! recording network contexts, with `restart()` (drop everything volatile, reopen the store the
//! way `subcmds.rs` does) and a pump that lets honest `server`s answer the client's requests.

use std::collections::BTreeMap;
use std::sync::{Arc, RwLock};

use ckb_chain_spec::consensus::Consensus;
use ckb_network::{bytes::Bytes, CKBProtocolHandler, PeerIndex, ProtocolId, SupportProtocols};
use ckb_types::{core::BlockNumber, packed, prelude::*};

use super::env::{as_ctx, block_on, MockContext};
use super::server::{self, ServerOpts};
use super::simchain::SimChain;
use crate::protocols::{
    FilterProtocol, LightClientProtocol, Peers, PendingTxs, SyncProtocol,
};
use crate::service::{BlockFilterRpcImpl, ChainRpcImpl, TransactionRpcImpl};
use crate::storage::{Storage, StorageWithChainData};

pub(crate) struct Inner {
    pub storage: Storage,
    pub peers: Arc<Peers>,
    pub pending: Arc<RwLock<PendingTxs>>,
    pub lc: LightClientProtocol,
    pub filter: FilterProtocol,
    pub sync: SyncProtocol,
    pub nc_lc: Arc<MockContext>,
    pub nc_filter: Arc<MockContext>,
    pub nc_sync: Arc<MockContext>,
}

pub(crate) struct Node {
    pub tmp: tempfile::TempDir,
    pub consensus: Consensus,
    pub last_n: BlockNumber,
    pub interval: BlockNumber,
    pub max_outbound: u32,
    pub(crate) inner: Option<Inner>,
    pub bans: Vec<(u64, String)>,
    /// a peer that has left delivers nothing (opt-in: other harnesses deliver from unknown peers on purpose)
    pub drop_unconnected: bool,
    pub server_errors: Vec<String>,
    pub exchanges: u64,
    pub requests: BTreeMap<String, u64>,
}

pub trait FaketimeKeep {
    fn set_keep(self, time: u64);
}
impl FaketimeKeep for ckb_systemtime::FaketimeGuard {
    fn set_keep(self, time: u64) {
        self.set_faketime(time);
        std::mem::forget(self);
    }
}
pub fn set_now(t: u64) {
    ckb_systemtime::faketime().set_keep(t);
}

pub fn request_name(protocol: ProtocolId, data: &[u8]) -> String {
    if protocol == SupportProtocols::LightClient.protocol_id() {
        packed::LightClientMessageReader::from_compatible_slice(data)
            .map(|m| m.to_enum().item_name().to_string())
            .unwrap_or_else(|_| "malformed".into())
    } else if protocol == SupportProtocols::Filter.protocol_id() {
        packed::BlockFilterMessageReader::from_compatible_slice(data)
            .map(|m| m.to_enum().item_name().to_string())
            .unwrap_or_else(|_| "malformed".into())
    } else if protocol == SupportProtocols::Sync.protocol_id() {
        packed::SyncMessageReader::from_compatible_slice(data)
            .map(|m| m.to_enum().item_name().to_string())
            .unwrap_or_else(|_| "malformed".into())
    } else {
        format!("protocol-{}", protocol)
    }
}

impl Node {
    pub fn new(consensus: &Consensus, last_n: BlockNumber, interval: BlockNumber, max_outbound: u32) -> Node {
        let tmp = tempfile::Builder::new().prefix("lcnode").tempdir().expect("tempdir");
        let mut n = Node {
            tmp,
            consensus: consensus.clone(),
            last_n,
            interval,
            max_outbound,
            inner: None,
            bans: Vec::new(),
            drop_unconnected: false,
            server_errors: Vec::new(),
            exchanges: 0,
            requests: BTreeMap::new(),
        };
        n.open();
        n
    }

    /// a node whose store directory exists but which has not been started yet
    pub fn new_unopened(consensus: &Consensus, last_n: BlockNumber, interval: BlockNumber, max_outbound: u32) -> Node {
        let tmp = tempfile::Builder::new().prefix("lcnode").tempdir().expect("tempdir");
        Node {
            tmp,
            consensus: consensus.clone(),
            last_n,
            interval,
            max_outbound,
            inner: None,
            bans: Vec::new(),
            drop_unconnected: false,
            server_errors: Vec::new(),
            exchanges: 0,
            requests: BTreeMap::new(),
        }
    }

    /// what `subcmds.rs` does at start-up
    pub fn open(&mut self) {
        assert!(self.inner.is_none());
        let storage = Storage::new(self.tmp.path().to_str().unwrap());
        storage.init_genesis_block(self.consensus.genesis_block().data());
        let peers = Arc::new(Peers::new(
            self.max_outbound,
            self.interval,
            storage.get_last_check_point(),
        ));
        let pending = Arc::new(RwLock::new(PendingTxs::default()));
        let mut lc = LightClientProtocol::new(storage.clone(), Arc::clone(&peers), self.consensus.clone());
        lc.verif_set_last_n_blocks(self.last_n);
        let filter = FilterProtocol::new(storage.clone(), Arc::clone(&peers));
        let sync = SyncProtocol::new(storage.clone(), Arc::clone(&peers));
        self.inner = Some(Inner {
            storage,
            peers,
            pending,
            lc,
            filter,
            sync,
            nc_lc: MockContext::new(SupportProtocols::LightClient),
            nc_filter: MockContext::new(SupportProtocols::Filter),
            nc_sync: MockContext::new(SupportProtocols::Sync),
        });
    }

    /// the process dies: everything volatile is gone; the store is reopened
    pub fn restart(&mut self) {
        self.inner = None; // drops every Arc<DB>
        self.open();
    }

    pub(crate) fn i(&self) -> &Inner {
        self.inner.as_ref().expect("node is open")
    }
    pub(crate) fn im(&mut self) -> &mut Inner {
        self.inner.as_mut().expect("node is open")
    }

    pub fn swc(&self) -> StorageWithChainData {
        let i = self.i();
        StorageWithChainData::new(i.storage.clone(), Arc::clone(&i.peers), Arc::clone(&i.pending))
    }
    pub fn filter_rpc(&self) -> BlockFilterRpcImpl {
        BlockFilterRpcImpl { swc: self.swc() }
    }
    pub fn chain_rpc(&self) -> ChainRpcImpl {
        ChainRpcImpl { swc: self.swc(), consensus: Arc::new(self.consensus.clone()) }
    }
    pub fn tx_rpc(&self) -> TransactionRpcImpl {
        TransactionRpcImpl { swc: self.swc(), consensus: Arc::new(self.consensus.clone()) }
    }

    pub fn connect(&mut self, peer: PeerIndex) {
        let i = self.im();
        i.nc_lc.connect(peer);
        block_on(i.lc.connected(as_ctx(&i.nc_lc), peer, "t"));
        block_on(i.filter.connected(as_ctx(&i.nc_filter), peer, "t"));
        block_on(i.sync.connected(as_ctx(&i.nc_sync), peer, "t"));
    }

    pub fn disconnect(&mut self, peer: PeerIndex) {
        let i = self.im();
        block_on(i.lc.disconnected(as_ctx(&i.nc_lc), peer));
        block_on(i.filter.disconnected(as_ctx(&i.nc_filter), peer));
        block_on(i.sync.disconnected(as_ctx(&i.nc_sync), peer));
    }

    pub fn deliver(&mut self, peer: PeerIndex, protocol: ProtocolId, data: Bytes) {
        if self.drop_unconnected && self.i().peers.get_peer(&peer).is_none() {
            return;
        }
        self.exchanges += 1;
        if std::env::var("VERIF_DEBUG_NODE").is_ok() {
            eprintln!("    deliver: {}", request_name(protocol, &data));
        }
        let i = self.im();
        if protocol == SupportProtocols::LightClient.protocol_id() {
            block_on(i.lc.received(as_ctx(&i.nc_lc), peer, data));
        } else if protocol == SupportProtocols::Filter.protocol_id() {
            block_on(i.filter.received(as_ctx(&i.nc_filter), peer, data));
        } else if protocol == SupportProtocols::Sync.protocol_id() {
            block_on(i.sync.received(as_ctx(&i.nc_sync), peer, data));
        }
    }

    /// everything the client sent since the last call; bans and disconnect requests are
    /// accumulated and turned into `disconnected()` calls like the real network layer does
    pub fn collect(&mut self) -> Vec<(ProtocolId, PeerIndex, Bytes)> {
        let mut sent = Vec::new();
        let mut gone: Vec<PeerIndex> = Vec::new();
        let mut new_bans = Vec::new();
        {
            let i = self.i();
            for nc in [&i.nc_lc, &i.nc_filter, &i.nc_sync] {
                let rec = nc.take();
                for (peer, _, reason) in rec.banned {
                    new_bans.push((peer.value() as u64, reason));
                    gone.push(peer);
                }
                gone.extend(rec.disconnected);
                sent.extend(rec.sent);
            }
        }
        if std::env::var("VERIF_DEBUG_NODE").is_ok() {
            eprintln!(
                "    collect: bans {:?} gone {:?} sent {:?}",
                new_bans,
                gone,
                sent.iter().map(|(p, _, d)| request_name(*p, d)).collect::<Vec<_>>()
            );
        }
        self.bans.extend(new_bans);
        for p in gone {
            self.disconnect(p);
        }
        for (protocol, _, data) in &sent {
            *self.requests.entry(request_name(*protocol, data)).or_default() += 1;
        }
        sent
    }

    /// answers the client's requests with the honest server of each peer's chain until the
    /// client is quiet (or `max_rounds` is reached); returns the number of requests served
    pub fn pump_with<'c>(
        &mut self,
        chain_of: &dyn Fn(PeerIndex) -> Option<&'c SimChain>,
        opts: &ServerOpts,
        max_rounds: usize,
    ) -> u64 {
        let mut served = 0;
        for _ in 0..max_rounds {
            let sent = self.collect();
            if sent.is_empty() {
                break;
            }
            for (protocol, peer, data) in sent {
                let chain = match chain_of(peer) {
                    Some(c) => c,
                    None => continue, // the peer does not answer
                };
                served += 1;
                match server::handle(chain, opts, protocol, &data) {
                    Ok(replies) => {
                        for (protocol, bytes) in replies {
                            self.deliver(peer, protocol, bytes);
                        }
                    }
                    Err(e) => self
                        .server_errors
                        .push(format!("{}: {}", request_name(protocol, &data), e)),
                }
            }
        }
        served
    }

    pub fn announce(&mut self, peer: PeerIndex, chain: &SimChain) {
        let msg = server::light_client_message(server::send_last_state(chain));
        self.deliver(peer, SupportProtocols::LightClient.protocol_id(), msg);
    }

    pub fn notify_lc(&mut self, token: u64) {
        let i = self.im();
        block_on(i.lc.notify(as_ctx(&i.nc_lc), token));
    }
    pub fn notify_filter(&mut self, token: u64) {
        let i = self.im();
        block_on(i.filter.notify(as_ctx(&i.nc_filter), token));
    }

    /// all timers once (light client: refresh, fetch, idle blocks; filter: filters, hashes,
    /// check points)
    pub fn tick_all(&mut self) {
        use crate::protocols::filter_verif_exports as f;
        use crate::protocols::light_client::verif_exports::constant as c;
        self.notify_lc(c::REFRESH_PEERS_TOKEN);
        self.notify_lc(c::FETCH_HEADER_TX_TOKEN);
        self.notify_lc(c::GET_IDLE_BLOCKS_TOKEN);
        self.notify_filter(f::GET_BLOCK_FILTER_CHECK_POINTS_TOKEN);
        self.notify_filter(f::GET_BLOCK_FILTER_HASHES_TOKEN);
        self.notify_filter(f::GET_BLOCK_FILTERS_TOKEN);
    }

    /// run timers + pump until nothing more is sent (bounded); time advances by `dt` per round
    pub fn run_to_quiescence<'c>(
        &mut self,
        chain_of: &dyn Fn(PeerIndex) -> Option<&'c SimChain>,
        opts: &ServerOpts,
        now: &mut u64,
        dt: u64,
        rounds: usize,
    ) -> u64 {
        let mut total = 0;
        let mut idle = 0;
        for _ in 0..rounds {
            *now += dt;
            set_now(*now);
            // the filter protocol re-asks only after 15 s of *wall clock* time (`Instant`):
            // emulate that the timeout has passed
            self.im().filter.last_ask_time.write().unwrap().take();
            self.tick_all();
            let n = self.pump_with(chain_of, opts, 200);
            total += n;
            if n == 0 {
                idle += 1;
                if idle >= 3 {
                    break;
                }
            } else {
                idle = 0;
            }
        }
        total
    }
}

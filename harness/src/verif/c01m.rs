//! C01, function level: `check_if_response_is_matched` (the function that decides the section
//! layout reorg / sampled / last-N of a `SendLastStateProof`) against `Prove.checkMatched` of the
//! Lean model (`matched` op of `lcmodel prove`) and against an independent oracle that knows the
//! chain.
//!
//! The handler histories of `prove.rs` only produce the requests the client samples itself: a
//! requested difficulty is practically never the total difficulty of a block.  Here the requested
//! difficulties and the difficulty boundary are placed on, just below and just above the block
//! boundaries, and the answers are the honest one and re-selections of genuine headers around it.
//!
//! One case = one `matched-seed <seed>` line: the seed fixes a chain, a handful of requests and
//! for every request the honest answer and one instance of every applicable mutation.

use std::collections::BTreeSet;

use ckb_types::{
    packed::{self, Byte32},
    prelude::*,
    utilities::merkle_mountain_range::VerifiableHeader,
    U256,
};

use super::prove::{legal_plan, Abs};
use super::server::{self, ServerOpts};
use super::simchain::SimChain;
use super::{catch, fnv, run_model, Options, Report, Rng};
use crate::protocols::light_client::verif_exports::check_if_response_is_matched;

const LAST_NS: [u64; 7] = [1, 2, 3, 5, 8, 20, 100];
const PINNED: &str = "/verif/corpus/C01/matched.case";

/// a chain with everything the cases need precomputed (ground truth for the oracle: `td`)
struct World {
    chain: SimChain,
    /// total difficulty up to and including block i (all values are small: < 2^32)
    td: Vec<u64>,
    vhs: Vec<VerifiableHeader>,
    /// model tokens of the verifiable headers
    toks: Vec<String>,
    abs: Abs,
}

impl World {
    fn new(rng: &mut Rng) -> World {
        let mut chain = SimChain::new_dummy();
        let plan = legal_plan(rng, &chain);
        let blocks = match rng.below(4) {
            0 => rng.range(30, 80),
            1 => rng.range(80, 200),
            _ => rng.range(30, 400),
        };
        chain.append_epochs(&plan, blocks);
        let td: Vec<u64> = chain
            .total_difficulties
            .iter()
            .map(|v| format!("{}", v).parse::<u64>().expect("small total difficulty"))
            .collect();
        let now = chain.tip().timestamp() + 5000;
        let mut abs = Abs::new(&chain.consensus, 0);
        let vhs: Vec<VerifiableHeader> =
            (0..=chain.tip_number()).map(|n| chain.verifiable_header(n).into()).collect();
        let toks: Vec<String> = vhs.iter().map(|v| abs.vh(v, now)).collect();
        World { chain, td, vhs, toks, abs }
    }
    fn tip(&self) -> u64 {
        self.td.len() as u64 - 1
    }
    fn td(&self, n: u64) -> u64 {
        self.td[n as usize]
    }
    /// total difficulty of the parent (0 for genesis: the default chain root)
    fn ptd(&self, n: u64) -> u64 {
        if n == 0 {
            0
        } else {
            self.td[n as usize - 1]
        }
    }
    /// the block whose interval `(ptd, td]` contains `d`
    fn block_of(&self, d: u64) -> Option<u64> {
        if d == 0 {
            return None;
        }
        let i = self.td.partition_point(|t| *t < d);
        if i < self.td.len() {
            Some(i as u64)
        } else {
            None
        }
    }
    fn hits_td(&self, d: u64) -> bool {
        self.td.binary_search(&d).is_ok()
    }
}

struct Req {
    last_n: u64,
    last: u64,
    start: u64,
    foreign: bool,
    boundary: u64,
    diffs: Vec<u64>,
    /// difficulties strictly increasing
    strict: bool,
    content: packed::GetLastStateProof,
    /// `matched … | difficulties |` (the request part of the model line)
    head: String,
    desc: String,
}

fn u256(v: u64) -> U256 {
    U256::from(v)
}

fn gen_request(rng: &mut Rng, w: &mut World, rep: &mut Report) -> Req {
    let tip = w.tip();
    let last_n = *rng.pick(&LAST_NS);
    let last = if rng.chance(3, 5) { tip } else { rng.range(1, tip) };
    rep.count_class(if last == tip { "matched-req:last:tip" } else { "matched-req:last:earlier" });
    // ---- start
    let start = match rng.below(10) {
        0 | 1 | 2 => last - rng.range(1, last_n.min(last)), // at most last_n blocks: no sampling
        3 => 0,
        4 => rng.range(0, (last_n + 2).min(last - 1)), // near genesis: a reorg section that begins at block 1
        5 => (last - 1).saturating_sub(last_n + rng.below(3)), // sampling barely required
        _ => rng.range(0, last - 1),
    };
    let sampling = last - start > last_n;
    let foreign = rng.chance(2, 5);
    rep.count_class(if foreign { "matched-req:start-hash:foreign" } else { "matched-req:start-hash:own" });
    rep.count_class(&format!("matched-req:last_n:{}", last_n));
    // ---- boundary: the block K meant to reach it first
    let (shape, k) = if !sampling {
        ("no-sampling", rng.range(start, last - 1))
    } else {
        match rng.below(10) {
            0 | 1 | 2 => ("last-n-exact", last - last_n),
            3 | 4 | 5 if last - last_n > start + 1 => ("last-n-longer", rng.range(start + 1, last - last_n - 1)),
            6 | 7 | 8 if last_n >= 2 => ("last-n-fewer", rng.range(last - last_n + 1, last - 1)),
            3..=8 => ("last-n-exact", last - last_n),
            _ => ("at-start", start),
        }
    };
    let (bkind, boundary) = if !sampling && rng.chance(1, 2) {
        // what the client sends when no sampling is needed: the total difficulty it starts from
        ("start-td", w.td(start))
    } else {
        match rng.below(16) {
            0 | 1 | 2 | 3 => ("td", w.td(k)),
            4 | 5 => ("td-1", w.td(k) - 1),
            6 | 7 => ("td+1", w.td(k) + 1),
            8 | 9 => ("ptd+1", w.ptd(k) + 1),
            10 | 11 | 12 => ("inside", rng.range(w.ptd(k) + 1, w.td(k))),
            13 => ("below-start", w.ptd(start).saturating_sub(rng.below(40))),
            14 => ("above-last", w.td(last - 1) + 1 + rng.below(300)),
            _ => ("zero", 0),
        }
    };
    rep.count_class(&format!("matched-req:shape:{}", shape));
    rep.count_class(&format!("matched-req:boundary:{}", bkind));
    // ---- difficulties, placed on the block boundaries
    let count = if !sampling && rng.chance(3, 5) { 0 } else { *rng.pick(&[0u64, 1, 1, 2, 3, 4, 6, 9, 14, 24]) };
    let hi_block = (k + 1).min(last - 1).max(start);
    let mut diffs: Vec<u64> = Vec::new();
    for _ in 0..count {
        let b = match rng.below(8) {
            0 => start,
            1 => k.saturating_sub(1).max(start),
            2 => k.min(last - 1),
            3 => k.saturating_sub(2).max(start),
            _ => rng.range(start, hi_block),
        };
        let (kind, d) = match rng.below(20) {
            0 | 1 | 2 | 3 | 4 => ("td", w.td(b)),
            5 | 6 | 7 => ("td+1", w.td(b) + 1),
            8 | 9 => ("td-1", w.td(b) - 1),
            10 | 11 | 12 => ("ptd+1", w.ptd(b) + 1),
            13 | 14 | 15 | 16 => ("inside", rng.range(w.ptd(b) + 1, w.td(b))),
            17 => ("below-start", w.ptd(start).saturating_sub(rng.below(60))),
            18 => ("above-boundary", boundary + rng.below(200)),
            _ => ("pair", w.td(b)),
        };
        rep.count_class(&format!("matched-diff:{}", kind));
        diffs.push(d);
        if kind == "pair" {
            // the last value of a block and the first value of its child
            diffs.push(w.td(b) + 1);
        }
    }
    let mode = if diffs.is_empty() {
        "none"
    } else {
        match rng.below(16) {
            0 => "unsorted",
            1 => "duplicate",
            2 | 3 => "sorted-any-range",
            _ => "strict-in-range",
        }
    };
    match mode {
        "unsorted" => {
            // a random order (may happen to be sorted when there is one value)
            for i in (1..diffs.len()).rev() {
                let j = rng.below(i as u64 + 1) as usize;
                diffs.swap(i, j);
            }
        }
        "duplicate" => {
            let x = *rng.pick(&diffs);
            diffs.push(x);
            diffs.sort();
        }
        "sorted-any-range" => {
            diffs.sort();
            diffs.dedup();
        }
        "strict-in-range" => {
            // what an honest server accepts: above the start's parent, below the boundary
            diffs.sort();
            diffs.dedup();
            let lo = w.ptd(start);
            diffs.retain(|d| *d > lo && *d < boundary);
        }
        _ => {}
    }
    rep.count_class(&format!("matched-req:difficulties:{}", mode));
    for d in &diffs {
        if w.hits_td(*d) {
            rep.count_class("matched-diff:final:equals-a-block-total-difficulty");
        } else {
            rep.count_class("matched-diff:final:inside-a-block");
        }
    }
    let strict = diffs.windows(2).all(|p| p[0] < p[1]);
    // ---- the packed request
    let last_hash = w.chain.header(last).hash();
    let start_hash: Byte32 = if foreign {
        let mut raw = [0u8; 32];
        for chunk in raw.chunks_mut(8) {
            chunk.copy_from_slice(&rng.next().to_le_bytes());
        }
        raw.pack()
    } else {
        w.chain.header(start).hash()
    };
    let content = packed::GetLastStateProof::new_builder()
        .last_hash(last_hash.clone())
        .start_hash(start_hash.clone())
        .start_number(start.pack())
        .last_n_blocks(last_n.pack())
        .difficulty_boundary(u256(boundary).pack())
        .difficulties(diffs.iter().map(|d| u256(*d).pack()).pack())
        .build();
    let head = format!(
        "matched {} {} {} {} {} | {} |",
        last_n,
        w.abs.hid(&last_hash),
        w.abs.hid(&start_hash),
        start,
        boundary,
        diffs.iter().map(|d| d.to_string()).collect::<Vec<_>>().join(" ")
    );
    let desc = format!(
        "last_n {} last #{} start #{} ({} start hash; parent td {}) boundary {} ({} of #{}, {}) difficulties {:?} ({})",
        last_n,
        last,
        start,
        if foreign { "foreign" } else { "own" },
        w.ptd(start),
        boundary,
        bkind,
        k,
        shape,
        diffs,
        mode
    );
    Req { last_n, last, start, foreign, boundary, diffs, strict, content, head, desc }
}

type Sections = (Vec<u64>, Vec<u64>, Vec<u64>);

/// what the honest server would roughly send where it refuses the request: the base of the
/// hand-made responses for such requests
fn pseudo_honest(w: &World, q: &Req) -> Sections {
    let reorg: Vec<u64> = if q.foreign && q.start >= 1 {
        (q.start - (q.start - 1).min(q.last_n)..q.start).collect()
    } else {
        Vec::new()
    };
    if q.last - q.start <= q.last_n {
        return (reorg, Vec::new(), (q.start..q.last).collect());
    }
    let bb = w.block_of(q.boundary).unwrap_or(q.last - 1).clamp(q.start, q.last - 1);
    let first = bb.min(q.last - q.last_n);
    let mut sampled: BTreeSet<u64> = BTreeSet::new();
    for d in &q.diffs {
        if let Some(b) = w.block_of(*d) {
            if b >= q.start && b < first {
                sampled.insert(b);
            }
        }
    }
    (reorg, sampled.into_iter().collect(), (first..q.last).collect())
}

fn flat(r: &[u64], s: &[u64], l: &[u64]) -> Vec<u64> {
    r.iter().chain(s.iter()).chain(l.iter()).cloned().collect()
}

fn norm(mut v: Vec<u64>) -> Vec<u64> {
    v.sort();
    v.dedup();
    v
}

/// one instance of every applicable mutation of the number lists `base`
fn mutations(rng: &mut Rng, w: &World, q: &Req, base: &Sections) -> Vec<(&'static str, Vec<u64>)> {
    let (reorg, sampled, lastn) = base;
    let tip = w.tip();
    let mut out: Vec<(&'static str, Vec<u64>)> = Vec::new();
    let mut push = |label: &'static str, v: Vec<u64>| {
        if v.iter().all(|n| *n <= tip) {
            out.push((label, v));
        }
    };
    // ---- sampled section: genuine neighbours instead of the sampled block
    if !sampled.is_empty() {
        // prefer a sample that answers a difficulty equal to its total difficulty
        let exact: Vec<usize> = (0..sampled.len())
            .filter(|i| q.diffs.contains(&w.td(sampled[*i])))
            .collect();
        let i = if !exact.is_empty() && rng.chance(1, 2) {
            *rng.pick(&exact)
        } else {
            rng.below(sampled.len() as u64) as usize
        };
        for (label, delta) in [
            ("sample-child", 1i64),
            ("sample-parent", -1),
            ("sample-two-up", 2),
            ("sample-two-down", -2),
        ] {
            let n = sampled[i] as i64 + delta;
            if n < 0 {
                continue;
            }
            let mut s = sampled.clone();
            s[i] = n as u64;
            push(label, norm(flat(reorg, &s, lastn)));
        }
        // every sample replaced by its child
        let s: Vec<u64> = sampled.iter().map(|n| n + 1).collect();
        push("samples-all-children", norm(flat(reorg, &s, lastn)));
        let mut s = sampled.clone();
        s.remove(i);
        push("sample-dropped", flat(reorg, &s, lastn));
        push("samples-missing", flat(reorg, &[], lastn));
    }
    let first_ln = lastn.first().cloned().unwrap_or(q.last);
    if first_ln > q.start {
        let free: Vec<u64> = (q.start..first_ln).filter(|n| !sampled.contains(n)).collect();
        if !free.is_empty() {
            let x = *rng.pick(&free);
            let mut s = sampled.clone();
            s.push(x);
            push("sample-extra", norm(flat(reorg, &s, lastn)));
            if free.last() == Some(&(first_ln - 1)) {
                let mut s = sampled.clone();
                s.push(first_ln - 1);
                push("sample-extra-before-last-n", norm(flat(reorg, &s, lastn)));
            }
        }
    }
    let honest = flat(reorg, sampled, lastn);
    if !honest.is_empty() {
        let pos = rng.below(honest.len() as u64) as usize;
        let mut v = honest.clone();
        v.insert(pos, honest[pos]);
        push("header-duplicated", v);
        if honest.len() >= 2 {
            let pos = rng.below(honest.len() as u64 - 1) as usize;
            let mut v = honest.clone();
            v.swap(pos, pos + 1);
            push("headers-swapped", v);
        }
    }
    // ---- last-N section
    if !lastn.is_empty() {
        let k = rng.range(1, q.last_n);
        if lastn[0] >= k {
            let l: Vec<u64> = lastn.iter().map(|n| n - k).collect();
            push("last-n-shifted-down", norm(flat(reorg, sampled, &l)));
        }
        let l: Vec<u64> = lastn.iter().map(|n| n + k).collect();
        push("last-n-shifted-up", norm(flat(reorg, sampled, &l)));
        let l: Vec<u64> = lastn.iter().map(|n| n + 1).collect();
        push("last-n-shifted-up-one", norm(flat(reorg, sampled, &l)));
        let j = rng.range(1, lastn.len() as u64) as usize;
        push("last-n-shortened-front", flat(reorg, sampled, &lastn[j..]));
        push("last-n-shortened-front-one", flat(reorg, sampled, &lastn[1..]));
        push("last-n-shortened-back", flat(reorg, sampled, &lastn[..lastn.len() - 1]));
        push("last-n-missing", flat(reorg, sampled, &[]));
        if lastn[0] >= 1 {
            let mut l = vec![lastn[0] - 1];
            l.extend_from_slice(lastn);
            push("last-n-lengthened-front", norm(flat(reorg, sampled, &l)));
        }
        if lastn.len() >= 3 {
            let j = rng.range(1, lastn.len() as u64 - 2) as usize;
            let mut l = lastn.clone();
            l.remove(j);
            push("last-n-gap", flat(reorg, sampled, &l));
        }
    }
    // ---- reorg section
    if !reorg.is_empty() {
        if reorg[0] >= 1 {
            let r: Vec<u64> = reorg.iter().map(|n| n - 1).collect();
            push("reorg-shifted-down", flat(&r, sampled, lastn));
            let mut r = vec![reorg[0] - 1];
            r.extend_from_slice(reorg);
            push("reorg-one-long", flat(&r, sampled, lastn));
        }
        let r: Vec<u64> = reorg.iter().map(|n| n + 1).collect();
        push("reorg-shifted-up", norm(flat(&r, sampled, lastn)));
        push("reorg-one-short", flat(&reorg[1..], sampled, lastn));
        push("reorg-one-short-at-end", flat(&reorg[..reorg.len() - 1], sampled, lastn));
        push("reorg-missing", flat(&[], sampled, lastn));
        if reorg.len() >= 3 {
            let j = rng.range(1, reorg.len() as u64 - 2) as usize;
            let mut r = reorg.clone();
            r.remove(j);
            push("reorg-gap-one-short", flat(&r, sampled, lastn));
            if reorg[0] >= 1 {
                // right count and right end, but a hole
                let mut r2 = vec![reorg[0] - 1];
                r2.extend_from_slice(&r);
                push("reorg-gap-right-count", flat(&r2, sampled, lastn));
            }
        }
    } else if q.start >= 2 {
        let r: Vec<u64> = (q.start - (q.start - 1).min(q.last_n)..q.start).collect();
        push("reorg-not-needed", flat(&r, sampled, lastn));
        push("reorg-not-needed-one", flat(&[q.start - 1], sampled, lastn));
    }
    // ---- whole list
    push("empty", Vec::new());
    if q.start >= 1 {
        let k = rng.range(1, q.last_n);
        let lo = q.start.saturating_sub(k).max(if q.start >= 2 { 1 } else { 0 });
        push("all-below-start", (lo..q.start).collect());
    }
    push("all-blocks-since-start", flat(reorg, &[], &(q.start..q.last).collect::<Vec<_>>()));
    {
        let lo = q.start.saturating_sub(2);
        let hi = (q.last + 1).min(tip);
        let p = *rng.pick(&[1u64, 3, 5, 8, 9]);
        let v: Vec<u64> = (lo..=hi).filter(|_| rng.below(10) < p).collect();
        push("random-subset", v);
        // the honest answer with a few headers knocked out / added
        let mut v: BTreeSet<u64> = honest.iter().cloned().collect();
        for _ in 0..rng.range(1, 3) {
            let x = rng.range(lo, hi);
            if !v.remove(&x) {
                v.insert(x);
            }
        }
        push("honest-toggled", v.into_iter().collect());
    }
    out
}

/// error path of a rejection, from the status text
fn site_of(text: &str) -> &'static str {
    let t = text;
    if t.contains("should NOT be empty") {
        "400:headers-empty"
    } else if t.contains("should be sorted") {
        "400:headers-unsorted"
    } else if t.contains("since the count") {
        "452:reorg-count"
    } else if t.contains("since they end at") {
        "452:reorg-end"
    } else if t.contains("but is before the start") {
        "452:reorg-reaches-boundary"
    } else if t.contains("but an earlier block reaches") {
        "400:last-n-after-boundary"
    } else if t.contains("are missing") {
        "400:last-n-missing"
    } else if t.contains("should end at the parent") {
        "400:last-n-end"
    } else if t.contains("there should be all blocks") {
        "400:no-sample-not-all-blocks"
    } else if t.contains("there should be the last") {
        "400:no-sample-last-n-incomplete"
    } else if t.contains("but no block is sampled") {
        "451:no-sample-difficulty-before-last-n"
    } else if t.starts_with("InvalidSamples(451)") {
        "451:samples"
    } else {
        "other"
    }
}

/// The oracle: what is certainly wrong about an accepted response.  Uses the request, the block
/// numbers of the response and the chain's own total difficulties only.
fn oracle(
    w: &World,
    q: &Req,
    numbers: &[u64],
    counts: (usize, usize, usize),
    honest: Option<&Sections>,
) -> Vec<(String, String)> {
    let (r, s, l) = counts;
    let mut bad: Vec<(String, String)> = Vec::new();
    let increasing = numbers.windows(2).all(|p| p[0] < p[1]);
    let below_start = numbers.iter().filter(|n| **n < q.start).count();
    if r + s + l != numbers.len() || !increasing || below_start != r {
        bad.push((
            "C01|matched|counts".into(),
            format!(
                "accepted as {}+{}+{} headers: {} headers, {} below the start block, numbers {}increasing",
                r,
                s,
                l,
                numbers.len(),
                below_start,
                if increasing { "" } else { "not " }
            ),
        ));
        return bad;
    }
    let (reorg, rest) = numbers.split_at(r);
    let (sampled, lastn) = rest.split_at(s);
    if r > 0 && !((r as u64 == q.last_n || reorg[0] == 1) && reorg[r - 1] + 1 == q.start) {
        bad.push((
            "C01|matched|reorg-shape".into(),
            format!("a reorg section of {} headers #{}..#{} is accepted (last_n {}, start #{})", r, reorg[0], reorg[r - 1], q.last_n, q.start),
        ));
    }
    if q.start < q.last && l == 0 {
        bad.push((
            "C01|matched|empty-last-n".into(),
            format!("no last-N header is accepted although blocks #{}..#{} are new", q.start, q.last - 1),
        ));
    }
    if l > 0 && lastn[l - 1] + 1 != q.last {
        bad.push((
            "C01|matched|last-n-not-at-tip".into(),
            format!("the last-N section ends at #{}, the last header is #{}", lastn[l - 1], q.last),
        ));
    }
    for n in sampled {
        if !q.diffs.iter().any(|d| w.ptd(*n) < *d && *d <= w.td(*n)) {
            bad.push((
                "C01|matched|sample-without-requested-difficulty".into(),
                format!(
                    "sampled header #{} (total difficulty interval ({}, {}]) is accepted, no requested difficulty lies in it",
                    n,
                    w.ptd(*n),
                    w.td(*n)
                ),
            ));
            break;
        }
    }
    if l > 0 && q.strict {
        let first = lastn[0];
        for d in &q.diffs {
            if *d > w.ptd(q.start) && *d <= w.ptd(first) && *d < q.boundary {
                let answered = sampled.iter().any(|n| w.ptd(*n) < *d && *d <= w.td(*n));
                if !answered {
                    bad.push((
                        "C01|matched|requested-difficulty-unanswered".into(),
                        format!(
                            "requested difficulty {} (in block #{}) lies before the last-N section (#{}, parent total difficulty {}) and is not answered by a sampled header",
                            d,
                            w.block_of(*d).map(|b| b.to_string()).unwrap_or("-".into()),
                            first,
                            w.ptd(first)
                        ),
                    ));
                    break;
                }
            }
        }
    }
    // the rest holds for a last-N section without holes (holes are found by
    // `check_continuous_headers` afterwards)
    let contiguous = lastn.windows(2).all(|p| p[0] + 1 == p[1]);
    if l > 0 && contiguous && lastn[l - 1] + 1 == q.last {
        let first = lastn[0];
        if q.last - q.start <= q.last_n {
            if first != q.start || s != 0 {
                bad.push((
                    "C01|matched|last-n-incomplete".into(),
                    format!("at most last_n blocks are new (#{}..#{}), accepted: {} sampled, last-N from #{}", q.start, q.last - 1, s, first),
                ));
            }
        } else {
            if (l as u64) < q.last_n {
                bad.push((
                    "C01|matched|last-n-too-short".into(),
                    format!("{} last-N headers are accepted, {} are there", l, q.last_n),
                ));
            }
            if first > q.start && w.ptd(first) >= q.boundary {
                bad.push((
                    "C01|matched|last-n-after-boundary".into(),
                    format!(
                        "the last-N section begins at #{} although #{} reaches the boundary {} already",
                        first,
                        first - 1,
                        q.boundary
                    ),
                ));
            }
        }
        // with the honest server's answer at hand: an accepted hole-free answer to a well-formed
        // request is the honest one (the reorg section aside: the function does not know whether
        // the start hash is on the peer's chain)
        if let (Some((_, hs, hl)), true) = (honest, q.strict) {
            if sampled != hs.as_slice() || lastn != hl.as_slice() {
                bad.push((
                    "C01|matched|accepted-differs-from-honest".into(),
                    format!(
                        "accepted: sampled {:?} last-N #{}..#{}; the honest server sends sampled {:?} last-N {}",
                        sampled,
                        first,
                        lastn[l - 1],
                        hs,
                        compact(hl)
                    ),
                ));
            }
        }
    }
    bad
}

struct Batch {
    lines: Vec<String>,
    impls: Vec<String>,
    /// `[matched-seed … request … response …]`
    tags: Vec<String>,
}

fn compact(numbers: &[u64]) -> String {
    // runs as a..b
    let mut out: Vec<String> = Vec::new();
    let mut i = 0;
    while i < numbers.len() {
        let mut j = i;
        while j + 1 < numbers.len() && numbers[j + 1] == numbers[j] + 1 {
            j += 1;
        }
        if j > i + 1 {
            out.push(format!("{}..{}", numbers[i], numbers[j]));
        } else {
            for n in &numbers[i..=j] {
                out.push(n.to_string());
            }
        }
        i = j + 1;
    }
    format!("[{}]", out.join(" "))
}

fn run_seed(rep: &mut Report, seed: u64, batch: &mut Batch) {
    let mut rng = Rng::new(seed);
    let mut w = World::new(&mut rng);
    rep.count_class(&format!("matched-chain:blocks:{}", match w.tip() {
        0..=79 => "30..79",
        80..=199 => "80..199",
        _ => "200..400",
    }));
    let requests = 6;
    let sopts = ServerOpts::default();
    for qi in 0..requests {
        let q = gen_request(&mut rng, &mut w, rep);
        let honest: Option<Sections> = match server::last_state_proof_numbers(&w.chain, &q.content, &sopts) {
            // a boundary at or below the total difficulty the client starts from is refused by a
            // real server (the simulated one answers with all blocks since the start)
            Ok(Some(_)) if q.start >= 1 && q.boundary <= w.ptd(q.start) => None,
            // so is a difficulty at or below it (the simulated server only looks when start > 0)
            Ok(Some(_)) if q.diffs.iter().any(|d| *d <= w.ptd(q.start)) => None,
            Ok(Some((_, r, s, l))) => Some((r, s, l)),
            Ok(None) => None,
            Err(e) => {
                if std::env::var("VERIF_TRACE").is_ok() {
                    eprintln!("matched-seed {} request {}: the honest server refuses: {}", seed, qi, e);
                }
                None
            }
        };
        rep.count_class(if honest.is_some() {
            "matched-req:honest-server:answers"
        } else {
            "matched-req:honest-server:refuses"
        });
        let prefix = if honest.is_some() { "matched" } else { "matched-refused" };
        let base: Sections = honest.clone().unwrap_or_else(|| pseudo_honest(&w, &q));
        let base_flat = flat(&base.0, &base.1, &base.2);
        let mut responses: Vec<(&'static str, Vec<u64>)> = vec![(if honest.is_some() { "honest" } else { "as-if-honest" }, base_flat.clone())];
        let mut seen: BTreeSet<Vec<u64>> = BTreeSet::new();
        seen.insert(base_flat.clone());
        for (label, v) in mutations(&mut rng, &w, &q, &base) {
            if seen.insert(v.clone()) {
                responses.push((label, v));
            } else {
                rep.count_class("matched-mutation-without-effect-or-repeated");
            }
        }
        let last_vh = w.vhs[q.last as usize].clone();
        for (label, numbers) in responses {
            rep.evaluations += 1;
            rep.count_op("matched");
            let headers: Vec<VerifiableHeader> = numbers.iter().map(|n| w.vhs[*n as usize].clone()).collect();
            let res = catch(|| check_if_response_is_matched(q.last_n as usize, &q.content, &headers, &last_vh));
            let (outcome, site): (String, String) = match &res {
                Ok(Ok((r, s, l))) => (format!("ok {} {} {}", r, s, l), "ok".into()),
                Ok(Err(st)) => (format!("err {}", st.code() as u16), site_of(&format!("{}", st)).to_string()),
                Err(p) => {
                    let c = format!("panic {}", super::c14::panic_class(p));
                    (c.clone(), c)
                }
            };
            let short = match &res {
                Ok(Ok(_)) => "ok".to_string(),
                _ => outcome.clone(),
            };
            rep.count_class(&format!("{}:{}:{}", prefix, label, short));
            rep.count_class(&format!("matched-site:{}", site));
            if site != "400:headers-empty" && !outcome.starts_with("panic") {
                rep.nontrivial.insert(fnv(&format!("{}:{}:{}", seed, qi, label)));
            }
            let tag = format!("[matched-seed {} request {} response {}]", seed, qi, label);
            let replay = |extra: String| -> Vec<String> {
                vec![
                    format!("matched-seed {}", seed),
                    format!("# chain of {} blocks; request {}: {}", w.tip() + 1, qi, q.desc),
                    format!("# response {}: headers {}", label, compact(&numbers)),
                    format!("# {}", extra),
                ]
            };
            match &res {
                Ok(Ok(c)) => {
                    if let (Some((_, hs, hl)), false) = (honest.as_ref(), label == "honest") {
                        // what the acceptance of a re-selection amounts to: only the reorg section
                        // differs (the function cannot know whether one is needed), or the caller's
                        // continuity check of the last-N section is left to find it
                        let rest = &numbers[c.0.min(numbers.len())..];
                        let lastn = &rest[c.1.min(rest.len())..];
                        let kind = if rest.len() == hs.len() + hl.len() && rest[..hs.len()] == hs[..] && rest[hs.len()..] == hl[..] {
                            "only-the-reorg-section-differs"
                        } else if !lastn.windows(2).all(|p| p[0] + 1 == p[1]) {
                            "last-n-section-with-a-hole"
                        } else {
                            "other"
                        };
                        rep.count_class(&format!("matched-accepted-mutation:{}:{}", label, kind));
                    }
                    for (sig, what) in oracle(&w, &q, &numbers, *c, honest.as_ref()) {
                        rep.violate(&sig, &what, replay(format!("accepted: {} reorg + {} sampled + {} last-N headers", c.0, c.1, c.2)));
                    }
                }
                Ok(Err(st)) => {
                    if label == "honest" {
                        // the shape of the client's own requests: when sampling is required, at
                        // least one difficulty, all of them between the start and the boundary
                        let client_shaped = q.last - q.start <= q.last_n || !q.diffs.is_empty();
                        let shape = if client_shaped { "client-shaped-request" } else { "no-difficulty-request" };
                        rep.count_class(&format!("matched-honest-rejected:{}:{}", site, shape));
                        let note = format!(
                            "honest answer rejected ({}), {}: matched-seed {} request {}: {}; headers {}",
                            site, shape, seed, qi, q.desc, compact(&numbers)
                        );
                        if client_shaped && !rep.notes.iter().any(|n| n.contains("client-shaped-request")) {
                            rep.notes.push(note);
                        }
                        rep.violate(
                            &format!("C01|matched|honest-rejected|{}", st.code() as u16),
                            &format!("the honest server's answer to a request it accepts is rejected ({})", site),
                            replay(format!("rejected: {}", st)),
                        );
                    }
                }
                Err(p) => {
                    rep.violate(
                        &format!("C01|matched|panic|{}", super::c14::panic_class(p)),
                        "check_if_response_is_matched aborts",
                        replay(format!("panic: {}", p)),
                    );
                }
            }
            if std::env::var("VERIF_TRACE").is_ok() {
                eprintln!("{} {} -> {}   # {}", tag, compact(&numbers), outcome, q.desc);
            }
            if batch.tags.len() % 997 == 0 {
                rep.sample(&format!("{} {} | {} -> {}", tag, q.desc, compact(&numbers), outcome));
            }
            let toks: Vec<&str> = numbers.iter().map(|n| w.toks[*n as usize].as_str()).collect();
            batch.lines.push(format!("{} {} | {}", q.head, w.toks[q.last as usize], toks.join(" ")));
            batch.impls.push(outcome);
            batch.tags.push(format!("{} headers {}; {}", tag, compact(&numbers), q.desc));
        }
    }
}

pub fn parse_replay(text: &str) -> Vec<u64> {
    text.lines()
        .filter_map(|l| {
            let t: Vec<&str> = l.split_whitespace().collect();
            if t.first() == Some(&"matched-seed") && t.len() >= 2 {
                t[1].parse().ok()
            } else {
                None
            }
        })
        .collect()
}

pub fn run(opts: &Options) -> Report {
    let mut rep = Report::default();
    rep.rule = "check_if_response_is_matched at function level: dummy-PoW chains of 30..400 blocks with \
        per-epoch difficulty changes, last_n in {1,2,3,5,8,20,100}; per chain 6 requests (last = tip or \
        earlier, start anywhere below it incl. at most last_n blocks back, own or foreign start hash; \
        the boundary on / one below / one above / inside the total difficulty of the block that makes \
        the last-N section exactly last_n, longer or shorter, below the start, above the last block; \
        0..25 difficulties on td(B), td(B)+1, td(B)-1, parent td(B)+1, inside, below the start, above \
        the boundary; strictly increasing and between start and boundary in 3 of 4 requests, else \
        sorted with values out of range / duplicated / unsorted); per \
        request the honest server's answer and one instance of ~35 re-selections of genuine headers \
        (sample replaced by child / parent / two away, dropped, added, last-N shifted / shortened / \
        lengthened / with a hole, reorg shifted / short / long / with a hole / missing / not needed, \
        duplicate, swap, empty, all below start, random subsets); every (request, response) goes \
        through the real function, Prove.checkMatched and a chain-aware oracle; non-trivial = \
        outcome other than the empty-list rejection; distinct = (seed, request, response kind)"
        .into();
    let mut rng = Rng::new(opts.seed ^ fnv("C01-matched"));
    let mut seeds: Vec<u64> = Vec::new();
    if let Some(p) = &opts.replay {
        seeds = parse_replay(&std::fs::read_to_string(p).unwrap_or_default());
    } else {
        seeds.extend(parse_replay(&std::fs::read_to_string(PINNED).unwrap_or_default()));
        let n = if opts.thorough() { 940 } else { 28 };
        for _ in 0..n {
            seeds.push(rng.next() >> 16);
        }
    }
    let mut batch = Batch { lines: Vec::new(), impls: Vec::new(), tags: Vec::new() };
    for seed in &seeds {
        run_seed(&mut rep, *seed, &mut batch);
    }
    if batch.lines.is_empty() {
        return rep;
    }
    let answers = run_model(opts, "prove", &batch.lines);
    for (i, a) in answers.iter().enumerate() {
        let a = super::c14::model_class(a);
        if a == batch.impls[i] {
            rep.traces_validated += 1;
        } else {
            rep.count_class("matched-disagreement");
            rep.disagree(&batch.tags[i], &batch.impls[i], &a);
        }
    }
    rep
}

//! Correspondence harness: drives the real code (compiled from /repo's working tree) and the
//! Lean model driver (`lcmodel`) over the same inputs and reports disagreements and
//! property-oracle violations.  See /verif/DESIGN.md section 2.

use std::collections::{BTreeMap, BTreeSet};
use std::io::Write;
use std::process::{Command, Stdio};

pub mod c01m;
pub mod c02;
pub mod c03;
pub mod c04;
pub mod c06;
pub mod c06q;
pub mod c07;
pub mod c10;
pub mod c13;
pub mod c14;
pub mod c15;
pub mod c17;
pub mod c18;
pub mod cbmt;
pub mod env;
pub mod mmr;
pub mod node;
pub mod sync;
pub mod prove;
pub mod server;
pub mod simchain;
pub mod simtest;

/// splitmix64: every random choice of a run derives from `VERIF_SEED`.
#[derive(Clone)]
pub struct Rng(pub u64);

impl Rng {
    pub fn new(seed: u64) -> Self {
        Rng(seed ^ 0x9E37_79B9_7F4A_7C15)
    }
    pub fn next(&mut self) -> u64 {
        self.0 = self.0.wrapping_add(0x9E37_79B9_7F4A_7C15);
        let mut z = self.0;
        z = (z ^ (z >> 30)).wrapping_mul(0xBF58_476D_1CE4_E5B9);
        z = (z ^ (z >> 27)).wrapping_mul(0x94D0_49BB_1331_11EB);
        z ^ (z >> 31)
    }
    pub fn below(&mut self, n: u64) -> u64 {
        if n == 0 {
            0
        } else {
            self.next() % n
        }
    }
    pub fn range(&mut self, lo: u64, hi_incl: u64) -> u64 {
        lo + self.below(hi_incl - lo + 1)
    }
    pub fn chance(&mut self, num: u64, den: u64) -> bool {
        self.below(den) < num
    }
    pub fn pick<'a, T>(&mut self, xs: &'a [T]) -> &'a T {
        &xs[self.below(xs.len() as u64) as usize]
    }
    pub fn fork(&mut self) -> Rng {
        Rng(self.next())
    }
}

#[derive(Clone, Debug)]
pub struct Options {
    pub property: String,
    pub tier: String,
    pub seed: u64,
    pub model: String,
    pub out: String,
    pub replay: Option<String>,
}

impl Options {
    pub fn thorough(&self) -> bool {
        self.tier == "thorough"
    }
}

/// Run the Lean driver for `layer` on `lines`; one answer per line.
pub fn run_model(opts: &Options, layer: &str, lines: &[String]) -> Vec<String> {
    if let Ok(p) = std::env::var("VERIF_DUMP_OPS") {
        std::fs::write(&p, lines.join("\n") + "\n").expect("dump ops");
    }
    let mut child = Command::new(&opts.model)
        .arg(layer)
        .stdin(Stdio::piped())
        .stdout(Stdio::piped())
        .spawn()
        .unwrap_or_else(|e| panic!("cannot start model driver {}: {}", opts.model, e));
    let mut stdin = child.stdin.take().unwrap();
    let input = {
        let mut s = String::with_capacity(lines.iter().map(|l| l.len() + 1).sum());
        for l in lines {
            s.push_str(l);
            s.push('\n');
        }
        s
    };
    let writer = std::thread::spawn(move || {
        let _ = stdin.write_all(input.as_bytes());
    });
    let out = child.wait_with_output().expect("model driver failed");
    writer.join().unwrap();
    let text = String::from_utf8_lossy(&out.stdout);
    let answers: Vec<String> = text.lines().map(|s| s.to_string()).collect();
    assert_eq!(
        answers.len(),
        lines.len(),
        "model driver answered {} lines for {} ops (layer {})",
        answers.len(),
        lines.len(),
        layer
    );
    answers
}

#[derive(Clone, Debug)]
pub struct Disagreement {
    pub op: String,
    pub implementation: String,
    pub model: String,
}

#[derive(Clone, Debug)]
pub struct Violation {
    /// canonical signature used by the known-findings filter
    pub signature: String,
    pub what: String,
    /// self-contained replay: op lines + observed/expected
    pub replay: Vec<String>,
}

/// What one run covered; serialised for the `check` script.
#[derive(Default)]
pub struct Report {
    pub evaluations: u64,
    pub nontrivial: BTreeSet<u64>,
    pub rule: String,
    pub samples: Vec<String>,
    pub traces_validated: u64,
    pub ops: BTreeMap<String, u64>,
    pub classes: BTreeMap<String, u64>,
    pub disagreements: Vec<Disagreement>,
    pub violations: Vec<Violation>,
    pub notes: Vec<String>,
    pub exhaustive: bool,
}

/// panic class of a model `site` number (site numbers are unique across the Lean layers; the
/// implementation's panic messages are mapped to the same classes by `c14::panic_class`)
pub fn site_class(site: u64) -> &'static str {
    match site {
        // Difficulty
        1 | 5 | 6 | 20 | 30 | 31 | 32 => "sub-overflow",
        2 | 3 | 4 | 7 | 8 | 21 | 22 => "mul-overflow",
        9 | 12 => "add-overflow",
        10 | 11 => "limit-total-overflow",
        // Sampling
        40 | 43 | 44 => "add-overflow",
        41 | 42 => "sub-overflow",
        // Prove
        60 | 61 | 65 => "add-overflow",
        64 | 71 => "sub-overflow",
        // Filter, the cache update of BlockFilterHashesProcess (305..=309 are index / slice sites)
        310..=318 => "sub-overflow",
        _ => "unknown-site",
    }
}

pub fn fnv(s: &str) -> u64 {
    let mut h: u64 = 0xcbf29ce484222325;
    for b in s.as_bytes() {
        h ^= *b as u64;
        h = h.wrapping_mul(0x100000001b3);
    }
    h
}

impl Report {
    pub fn count_op(&mut self, k: &str) {
        *self.ops.entry(k.to_string()).or_default() += 1;
    }
    pub fn count_class(&mut self, k: &str) {
        *self.classes.entry(k.to_string()).or_default() += 1;
    }
    pub fn sample(&mut self, s: &str) {
        if self.samples.len() < 8 {
            self.samples.push(s.to_string());
        }
    }
    pub fn disagree(&mut self, op: &str, implementation: &str, model: &str) {
        if self.disagreements.len() < 50 {
            self.disagreements.push(Disagreement {
                op: op.to_string(),
                implementation: implementation.to_string(),
                model: model.to_string(),
            });
        }
    }
    pub fn violate(&mut self, signature: &str, what: &str, replay: Vec<String>) {
        // keep the first (smallest found so far) replay per signature
        if let Some(v) = self.violations.iter_mut().find(|v| v.signature == signature) {
            if replay.iter().map(|l| l.len()).sum::<usize>()
                < v.replay.iter().map(|l| l.len()).sum::<usize>()
            {
                v.replay = replay;
                v.what = what.to_string();
            }
            return;
        }
        self.violations.push(Violation {
            signature: signature.to_string(),
            what: what.to_string(),
            replay,
        });
    }

    /// the union of two runs that serve the same property
    pub fn merge(&mut self, other: Report) {
        self.evaluations += other.evaluations;
        self.nontrivial.extend(other.nontrivial);
        self.rule = format!("{} || {}", self.rule, other.rule);
        for s in other.samples {
            self.samples.push(s);
        }
        self.traces_validated += other.traces_validated;
        for (k, v) in other.ops {
            *self.ops.entry(k).or_default() += v;
        }
        for (k, v) in other.classes {
            *self.classes.entry(k).or_default() += v;
        }
        self.disagreements.extend(other.disagreements);
        self.violations.extend(other.violations);
        self.notes.extend(other.notes);
        self.exhaustive = self.exhaustive && other.exhaustive;
    }

    pub fn to_json(&self, opts: &Options) -> serde_json::Value {
        serde_json::json!({
            "property": opts.property,
            "tier": opts.tier,
            "seed": opts.seed,
            "evaluations": self.evaluations,
            "distinct_nontrivial": self.nontrivial.len(),
            "rule": self.rule,
            "samples": self.samples,
            "traces_validated_against_impl": self.traces_validated,
            "exhaustive": self.exhaustive,
            "correspondence": { "ops": self.ops, "classes": self.classes, "notes": self.notes },
            "disagreements": self.disagreements.iter().map(|d| serde_json::json!({
                "op": d.op, "impl": d.implementation, "model": d.model })).collect::<Vec<_>>(),
            "violations": self.violations.iter().map(|v| serde_json::json!({
                "signature": v.signature, "what": v.what, "replay": v.replay })).collect::<Vec<_>>(),
        })
    }
}

thread_local! {
    static IN_CATCH: std::cell::Cell<u32> = std::cell::Cell::new(0);
}

/// Run `f`, turning a panic into `Err(message)`.
pub fn catch<T>(f: impl FnOnce() -> T) -> Result<T, String> {
    IN_CATCH.with(|c| c.set(c.get() + 1));
    let r = std::panic::catch_unwind(std::panic::AssertUnwindSafe(f));
    IN_CATCH.with(|c| c.set(c.get() - 1));
    match r {
        Ok(v) => Ok(v),
        Err(e) => {
            let msg = if let Some(s) = e.downcast_ref::<&str>() {
                s.to_string()
            } else if let Some(s) = e.downcast_ref::<String>() {
                s.clone()
            } else {
                "<non-string panic>".to_string()
            };
            Err(msg)
        }
    }
}

/// panics of the code under test (inside `catch`) are expected and silent; a panic of the
/// harness itself is printed
/// make the client's own random choices (FlyClient sampling) a function of `seed`
pub fn seed_client_randomness(seed: u64) {
    let mut r = Rng::new(seed ^ 0x5eed);
    crate::verif_hooks::set_random_unit(Some(Box::new(move || {
        (r.next() >> 11) as f64 / (1u64 << 53) as f64
    })));
}

pub fn silence_panics() {
    std::panic::set_hook(Box::new(|info| {
        if IN_CATCH.with(|c| c.get()) == 0 {
            eprintln!("harness panic: {}", info);
        } else if std::env::var("VERIF_DEBUG_PANICS").is_ok() {
            eprintln!("caught panic: {}", info);
        }
    }));
}

pub fn parse_args() -> Options {
    let args: Vec<String> = std::env::args().collect();
    let mut o = Options {
        property: String::new(),
        tier: "quick".into(),
        seed: 1,
        model: "/verif/lean/.lake/build/bin/lcmodel".into(),
        out: String::new(),
        replay: None,
    };
    let mut i = 1;
    while i < args.len() {
        match args[i].as_str() {
            "--tier" => {
                o.tier = args[i + 1].clone();
                i += 1;
            }
            "--seed" => {
                o.seed = args[i + 1].parse().expect("seed");
                i += 1;
            }
            "--model" => {
                o.model = args[i + 1].clone();
                i += 1;
            }
            "--out" => {
                o.out = args[i + 1].clone();
                i += 1;
            }
            "--replay" => {
                o.replay = Some(args[i + 1].clone());
                i += 1;
            }
            p => o.property = p.to_string(),
        }
        i += 1;
    }
    o
}

/// the function-level differential of `verify_mmr_proof` as a part of the check of `prop`
fn mmr_part(opts: &Options, prop: &str) -> Report {
    let mut m = mmr::run(opts);
    for v in m.violations.iter_mut() {
        v.signature = format!("{}|mmr|{}", prop, v.signature);
    }
    m
}

/// the function-level differential of the transactions Merkle proof as a part of the check of `prop`
fn cbmt_part(opts: &Options, prop: &str) -> Report {
    let mut m = cbmt::run(opts);
    for v in m.violations.iter_mut() {
        v.signature = format!("{}|cbmt|{}", prop, v.signature);
    }
    m
}

pub fn main() {
    let opts = parse_args();
    silence_panics();
    let report = match opts.property.as_str() {
        "C01" => {
            // handler histories + the section layout decision alone (`check_if_response_is_matched`
            // with requested difficulties and boundaries placed on the block boundaries); a replay
            // file goes to the run(s) whose case lines it contains
            let text = opts
                .replay
                .as_ref()
                .map(|p| std::fs::read_to_string(p).unwrap_or_default());
            let has = |key: &str| {
                text.as_ref()
                    .map(|t| t.lines().any(|l| l.split_whitespace().next() == Some(key)))
                    .unwrap_or(true)
            };
            let with_matched = has("matched-seed");
            let with_mmr = has("mmr-case");
            let only_mmr = opts.replay.is_some() && with_mmr && !has("matched-seed") && !has("history-seed");
            let with_histories = (has("history-seed") || !with_matched) && !only_mmr;
            let mut r = if only_mmr {
                mmr_part(&opts, "C01")
            } else if with_histories {
                prove::run(&opts, "C01")
            } else {
                c01m::run(&opts)
            };
            if with_histories && with_matched {
                r.merge(c01m::run(&opts));
            }
            if with_mmr && !only_mmr {
                r.merge(mmr_part(&opts, "C01"));
            }
            r
        }
        "C11" | "C12" => prove::run(&opts, &opts.property.clone()),
        "C05" => {
            // honest-only handler histories + the completeness of the difficulty checks every
            // honest proof depends on (the function-level differential run of C14, whose
            // "legal history rejected" oracle is a C05 violation: an honest peer would be banned)
            let mut r = prove::run(&opts, "C05");
            if opts.replay.is_none() {
                let mut d = c14::run(&opts);
                for v in d.violations.iter_mut() {
                    v.signature = format!("C05|difficulty-check|{}", v.signature);
                }
                r.merge(d);
            }
            r
        }
        "C03" => {
            // storage level (keyspace dumps against the Index model) + the delivery path: a full
            // client on a growing chain against the ground truth
            let mut r = c03::run(&opts);
            if opts.replay.is_none() {
                r.merge(c04::run_mode(&opts, "C03"));
                // "whatever else the user did meanwhile": set_scripts commands at every point of
                // a sync (pending records, partly downloaded batches), activity oracle afterwards
                let mut s = sync::run(&opts, "C03");
                for v in s.violations.iter_mut() {
                    if v.signature.starts_with("C09|") {
                        v.signature = format!("C03|set-scripts-history|{}", &v.signature[4..]);
                    }
                }
                r.merge(s);
            }
            r
        }
        "C02" => {
            // attack histories + what the MMR verdict they take as an input means
            // (`verify_mmr_proof` against the Mmr model and the soundness oracle)
            let text = opts.replay.as_ref().map(|p| std::fs::read_to_string(p).unwrap_or_default());
            let has = |key: &str| text.as_ref().map(|t| t.lines().any(|l| l.split_whitespace().next() == Some(key))).unwrap_or(true);
            let only_fn = opts.replay.is_some() && (has("mmr-case") || has("cbmt-case")) && !has("history-seed");
            let mut r = if only_fn { Report::default() } else { c02::run(&opts, "C02") };
            if has("mmr-case") {
                let m = mmr_part(&opts, "C02");
                if only_fn && r.rule.is_empty() { r = m } else { r.merge(m) }
            }
            if has("cbmt-case") {
                let m = cbmt_part(&opts, "C02");
                if only_fn && r.rule.is_empty() { r = m } else { r.merge(m) }
            }
            r
        }
        "C16" => c02::run(&opts, "C16"),
        "C04" => c04::run(&opts),
        "C06" => {
            // full-stack attack histories + the agreement on the latest filter hashes alone
            // (`Peers::get_latest_block_filter_hashes` against `Quorum.latestAgreed?` on random peer
            // tables); a replay file goes to the run(s) whose case lines it contains
            let text = opts
                .replay
                .as_ref()
                .map(|p| std::fs::read_to_string(p).unwrap_or_default());
            let has = |key: &str| {
                text.as_ref()
                    .map(|t| t.lines().any(|l| l.split_whitespace().next() == Some(key)))
                    .unwrap_or(true)
            };
            // C06_PART=latestq | histories runs one part alone (development aid)
            let part = std::env::var("C06_PART").unwrap_or_default();
            let with_latest = has("latestq-seed") && part != "histories";
            let with_histories = (has("history-seed") || !with_latest) && part != "latestq";
            let mut r = if with_histories { c06::run(&opts) } else { c06q::run(&opts) };
            if with_histories && with_latest {
                r.merge(c06q::run(&opts));
            }
            r
        }
        "C09" => {
            // set_scripts at every point of a sync + set_scripts commands that keep the scripts in
            // the middle of fork histories (rollback, then the commands' rewind rule)
            let fork_replay = opts
                .replay
                .as_ref()
                .map(|p| std::fs::read_to_string(p).unwrap_or_default().contains("fork-history"))
                .unwrap_or(false);
            if fork_replay {
                c04::run_mode(&opts, "C09")
            } else {
                let mut r = sync::run(&opts, "C09");
                if opts.replay.is_none() {
                    r.merge(c04::run_mode(&opts, "C09"));
                }
                r
            }
        }
        "C08" => {
            // crash injection on set_scripts / filter / download histories and on the first start,
            // then on fork histories (rollback and tip update writes)
            let c07_replay = opts
                .replay
                .as_ref()
                .map(|p| std::fs::read_to_string(p).unwrap_or_default().lines().any(|l| l.starts_with("history ")))
                .unwrap_or(false);
            let mut r = if c07_replay {
                let mut f = c07::run(&opts);
                f.violations.retain(|v| v.signature.starts_with("C08|"));
                f
            } else {
                sync::run(&opts, "C08")
            };
            if opts.replay.is_none() {
                r.merge(c04::run_mode(&opts, "C08"));
                // check point finalization interrupted between its store writes (the operation
                // sequences of C07 with `fincrash`): the start-up reads afterwards
                let mut f = c07::run(&opts);
                f.violations.retain(|v| v.signature.starts_with("C08|"));
                // of the correspondence only the Meta stream (store writes of the finalization)
                f.disagreements.retain(|d| d.op.starts_with("meta:"));
                r.merge(f);
            }
            r
        }
        "C07" => c07::run(&opts),
        "C10" => {
            // byte-level fuzz of all four protocol handlers in every peer state + the handler
            // histories of the Prove layer (whose totality theorems C10 claims), compared with
            // the model including the panic classes
            let mut r = c10::run(&opts);
            if opts.replay.is_none() && std::env::var("C10_JOBS").is_err() {
                // the two library-level differentials whose abort classes C10 claims
                r.merge(mmr_part(&opts, "C10"));
                r.merge(cbmt_part(&opts, "C10"));
                let mut o2 = opts.clone();
                o2.property = "C10".into();
                let mut p = prove::run(&o2, "C10");
                for v in p.violations.iter_mut() {
                    if !v.signature.starts_with("C10|") {
                        v.signature = format!("C10|prove-layer|{}", v.signature);
                    }
                }
                r.merge(p);
            }
            r
        }
        "C13" => c13::run(&opts),
        "C14" => c14::run(&opts),
        "C15" => c15::run(&opts),
        "C17" => c17::run(&opts),
        "C18" => c18::run(&opts),
        "MMR" => mmr::run(&opts),
        "CBMT" => cbmt::run(&opts),
        "SIMTEST" => simtest::run(&opts),
        other => {
            eprintln!("unknown property {}", other);
            std::process::exit(2);
        }
    };
    let json = report.to_json(&opts);
    if opts.out.is_empty() {
        println!("{}", serde_json::to_string_pretty(&json).unwrap());
    } else {
        std::fs::write(&opts.out, serde_json::to_string_pretty(&json).unwrap()).expect("write report");
    }
}

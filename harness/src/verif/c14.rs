//! C14 — difficulty checks: function-level correspondence with the `Difficulty` Lean layer
//! and the property oracle (never abort / accept legal histories / reject outside the cone).

use ckb_types::{
    core::EpochNumberWithFraction,
    utilities::{compact_to_difficulty, difficulty_to_compact},
    U256,
};
use numext_fixed_uint::{prelude::UintConvert as _, U512};

use super::{catch, fnv, run_model, Options, Report, Rng};
use crate::protocols::light_client::verif_exports::{
    verify_tau, verify_total_difficulty, EpochDifficultyTrend, EstimatedLimit,
};
use crate::protocols::StatusCode;

pub const TAU: u64 = ckb_constant::consensus::TAU;

fn dec(v: &U256) -> String {
    format!("{}", v)
}

#[derive(Clone, Debug)]
pub struct TdCase {
    pub start_epoch: u64, // full value
    pub start_compact: u32,
    pub start_total: U256,
    pub end_epoch: u64,
    pub end_compact: u32,
    pub end_total: U256,
    pub tau: u64,
    /// Some(true): a legal history by construction (must be accepted);
    /// Some(false): outside the tau cone by construction (must be rejected); None: unknown.
    pub expect: Option<bool>,
    pub origin: &'static str,
}

fn epoch_fields(full: u64) -> (u64, u64, u64) {
    let e = EpochNumberWithFraction::from_full_value_unchecked(full);
    (e.number(), e.index(), e.length())
}

impl TdCase {
    pub fn line(&self) -> String {
        let (sn, si, sl) = epoch_fields(self.start_epoch);
        let (en, ei, el) = epoch_fields(self.end_epoch);
        format!(
            "td {} {} {} {} {} {} {} {} {} {} {}",
            sn,
            si,
            sl,
            self.start_compact,
            dec(&self.start_total),
            en,
            ei,
            el,
            self.end_compact,
            dec(&self.end_total),
            self.tau
        )
    }
    pub fn tau_line(&self) -> String {
        let (sn, si, sl) = epoch_fields(self.start_epoch);
        let (en, ei, el) = epoch_fields(self.end_epoch);
        format!(
            "tau {} {} {} {} {} {} {} {} {}",
            sn, si, sl, self.start_compact, en, ei, el, self.end_compact, self.tau
        )
    }
}

pub fn classify_td(res: &Result<Result<(), String>, String>) -> String {
    match res {
        Ok(Ok(())) => "ok".into(),
        Ok(Err(msg)) => {
            if msg.contains("is decreased from") {
                "decreased".into()
            } else if msg.contains("but the calculated is") {
                if msg.contains(" + ") {
                    "one-switch-mismatch".into()
                } else {
                    "same-epoch-mismatch".into()
                }
            } else if msg.contains("are overflow") {
                "overflow".into()
            } else if msg.contains("changed too fast") {
                "too-fast".into()
            } else if msg.contains("less than") && msg.contains("lower limit") {
                "below-lower".into()
            } else if msg.contains("greater than the upper limit") {
                "above-upper".into()
            } else {
                format!("err-unclassified:{}", msg)
            }
        }
        Err(p) => format!("panic {}", panic_class(p)),
    }
}

/// canonical class of a panic message (call-site family)
pub fn panic_class(msg: &str) -> String {
    if msg.contains("attempt to multiply with overflow") {
        "mul-overflow".into()
    } else if msg.contains("attempt to add with overflow") {
        "add-overflow".into()
    } else if msg.contains("attempt to subtract with overflow") {
        "sub-overflow".into()
    } else if msg.contains("overflow when calculate the limit") {
        "limit-total-overflow".into()
    } else if msg.contains("divide by zero") {
        "div-zero".into()
    } else if msg.contains("out of range") || msg.contains("out of bounds") {
        "index".into()
    } else if msg.contains("long fork detected") {
        "long-fork".into()
    } else {
        let short: String = msg.chars().take(60).collect();
        format!("other:{}", short)
    }
}

/// model answers `panic overflow <site>`; map the site to the same class the implementation's
/// message is mapped to
pub fn model_class(ans: &str) -> String {
    if let Some(rest) = ans.strip_prefix("panic overflow ") {
        let site: u64 = rest.trim().parse().unwrap_or(0);
        let c = super::site_class(site);
        format!("panic {}", c)
    } else if ans.starts_with("panic index ") {
        "panic index".to_string()
    } else if ans.starts_with("panic deliberate ") {
        "panic long-fork".to_string()
    } else if let Some(rest) = ans.strip_prefix("panic expect ") {
        format!("panic expect {}", rest)
    } else {
        ans.to_string()
    }
}

pub fn call_td(c: &TdCase) -> Result<Result<(), String>, String> {
    let se = EpochNumberWithFraction::from_full_value_unchecked(c.start_epoch);
    let ee = EpochNumberWithFraction::from_full_value_unchecked(c.end_epoch);
    catch(|| {
        verify_total_difficulty(
            se,
            c.start_compact,
            &c.start_total,
            ee,
            c.end_compact,
            &c.end_total,
            c.tau,
        )
    })
}

pub fn call_tau(c: &TdCase) -> String {
    let se = EpochNumberWithFraction::from_full_value_unchecked(c.start_epoch);
    let ee = EpochNumberWithFraction::from_full_value_unchecked(c.end_epoch);
    match catch(|| verify_tau(se, c.start_compact, ee, c.end_compact, c.tau)) {
        Ok(Ok(true)) => "pass".into(),
        Ok(Ok(false)) => "fail".into(),
        Ok(Err(st)) => {
            if st.code() == StatusCode::InvalidCompactTarget {
                "err-compact".into()
            } else {
                format!("err-{:?}", st.code())
            }
        }
        Err(p) => format!("panic {}", panic_class(&p)),
    }
}

// ---------------------------------------------------------------------------------------------
// history generator

#[derive(Clone, Debug)]
pub struct Ep {
    pub length: u64,
    pub compact: u32,
    pub block_diff: U256,
}

impl Ep {
    pub fn epoch_diff(&self) -> U512 {
        to512(&self.block_diff) * U512::from(self.length)
    }
}

pub fn to512(v: &U256) -> U512 {
    let (r, _): (U512, bool) = v.convert_into();
    r
}

pub fn legal_pair(a: &Ep, b: &Ep, tau: u64) -> bool {
    let da = a.epoch_diff();
    let db = b.epoch_diff();
    let t = U512::from(tau);
    !da.is_zero() && !db.is_zero() && db <= &da * &t && da <= &db * &t
}

pub fn mk_epoch(length: u64, want_block_diff: &U256) -> Ep {
    let compact = difficulty_to_compact(want_block_diff.clone());
    let block_diff = compact_to_difficulty(compact);
    Ep {
        length,
        compact,
        block_diff,
    }
}

pub fn full_epoch(number: u64, index: u64, length: u64) -> u64 {
    (length << 40) | (index << 24) | number
}

/// the accumulated difficulty of a history from block (epoch 0, index si) (exclusive) to
/// block (last epoch, index ei) (inclusive); None if it does not fit 256 bits
pub fn history_total(eps: &[Ep], si: u64, ei: u64) -> Option<U256> {
    let mut total = U512::zero();
    let n = eps.len() - 1;
    if n == 0 {
        total = to512(&eps[0].block_diff) * U512::from(ei - si);
    } else {
        total = total + to512(&eps[0].block_diff) * U512::from(eps[0].length - si - 1);
        for e in &eps[1..n] {
            total = total + e.epoch_diff();
        }
        total = total + to512(&eps[n].block_diff) * U512::from(ei + 1);
    }
    to256(&total)
}

/// narrowing conversion; `None` if the value needs more than 256 bits (numext's own flag only
/// says that the conversion is a narrowing one)
pub fn to256(v: &U512) -> Option<U256> {
    if *v > to512(&U256::max_value()) {
        None
    } else {
        let (r, _): (U256, bool) = v.convert_into();
        Some(r)
    }
}

pub fn case_of_history(
    eps: &[Ep],
    first_number: u64,
    si: u64,
    ei: u64,
    base: &U256,
    origin: &'static str,
) -> Option<TdCase> {
    let total = history_total(eps, si, ei)?;
    let end_total = base.checked_add(&total)?;
    let n = (eps.len() - 1) as u64;
    Some(TdCase {
        start_epoch: full_epoch(first_number, si, eps[0].length),
        start_compact: eps[0].compact,
        start_total: base.clone(),
        end_epoch: full_epoch(first_number + n, ei, eps[eps.len() - 1].length),
        end_compact: eps[eps.len() - 1].compact,
        end_total,
        tau: TAU,
        expect: Some(true),
        origin,
    })
}

fn rand_u256(rng: &mut Rng, max_bits: u32) -> U256 {
    let bits = rng.range(0, max_bits as u64) as u32;
    if bits == 0 {
        return U256::zero();
    }
    let mut v = U256::zero();
    for i in 0..4 {
        v.0[i] = rng.next();
    }
    // keep only `bits` low bits, force top bit
    let shift = 256 - bits;
    let v = (v << shift) >> shift;
    v | (U256::one() << (bits - 1))
}

/// a random legal history with `n` epoch switches
pub fn random_history(rng: &mut Rng, n: usize, max_len: u64, diff_bits: u32) -> Vec<Ep> {
    let mut eps: Vec<Ep> = Vec::with_capacity(n + 1);
    let mut want = rand_u256(rng, diff_bits);
    if want < U256::from(2u32) {
        want = U256::from(2u32);
    }
    let len0 = rng.range(1, max_len);
    eps.push(mk_epoch(len0, &want));
    let mode = rng.below(4); // 0 random walk, 1 push up, 2 push down, 3 up then down
    while eps.len() <= n {
        let prev = eps.last().unwrap().clone();
        let mut placed = false;
        for _attempt in 0..20 {
            let up = match mode {
                1 => true,
                2 => false,
                3 => eps.len() * 2 <= n,
                _ => rng.chance(1, 2),
            };
            // extreme moves with high probability (they are the interesting ones)
            let extreme = rng.chance(2, 3);
            let length = if rng.chance(1, 2) {
                prev.length
            } else {
                rng.range(1, max_len)
            };
            // desired epoch difficulty
            let pd = prev.epoch_diff();
            let target_epoch_diff: U512 = if extreme {
                if up {
                    &pd * &U512::from(TAU)
                } else {
                    (&pd + &U512::from(TAU - 1)) / U512::from(TAU)
                }
            } else {
                // factor in [1/tau, tau] as a rational num/den
                let den = 1000u64;
                let num = rng.range(den / TAU + 1, den * TAU);
                (&pd * &U512::from(num)) / U512::from(den)
            };
            let bd512 = &target_epoch_diff / &U512::from(length);
            let bd = match to256(&bd512) {
                Some(bd) if bd >= U256::from(1u32) => bd,
                _ => continue,
            };
            // try the wanted block difficulty and its neighbours (compact rounding)
            for adj in 0..3u32 {
                let w = match adj {
                    0 => bd.clone(),
                    1 => bd.checked_sub(&U256::one()).unwrap_or_else(U256::one),
                    _ => bd.checked_add(&U256::one()).unwrap_or_else(|| bd.clone()),
                };
                if w.is_zero() {
                    continue;
                }
                let cand = mk_epoch(length, &w);
                if legal_pair(&prev, &cand, TAU) {
                    eps.push(cand);
                    placed = true;
                    break;
                }
            }
            if placed {
                break;
            }
        }
        if !placed {
            // fall back: same epoch again (always legal)
            eps.push(prev);
        }
    }
    eps
}

// ---------------------------------------------------------------------------------------------
// independent cone oracle (soundness side), 512-bit saturating arithmetic

fn sat_mul(a: &U512, b: u64) -> U512 {
    a.checked_mul(&U512::from(b)).unwrap_or_else(U512::max_value)
}
fn sat_add(a: &U512, b: &U512) -> U512 {
    a.checked_add(b).unwrap_or_else(U512::max_value)
}

/// The conclusion of theorem `C14.tau_sound`, evaluated with saturating 512-bit arithmetic: if
/// `verify_tau` passes across `n >= 1` epoch switches, the end epoch difficulty lies in
/// `[floor(D_s / tau^n), D_s * tau^n]` (the floor taken one division at a time); within one epoch
/// the compact targets are equal.
pub fn tau_band_check(c: &TdCase) -> Result<(), String> {
    let (sn, _, sl) = epoch_fields(c.start_epoch);
    let (en, _, el) = epoch_fields(c.end_epoch);
    if sn == en {
        return if c.start_compact == c.end_compact {
            Ok(())
        } else {
            Err("passes two different compact targets within one epoch".into())
        };
    }
    if en < sn {
        return Err("passes an end epoch in front of the start epoch".into());
    }
    if c.tau < 1 {
        return Ok(()); // the theorem's premise
    }
    let n = en - sn;
    let ds = sat_mul(&to512(&compact_to_difficulty(c.start_compact)), sl);
    let de = sat_mul(&to512(&compact_to_difficulty(c.end_compact)), el);
    let mut lo = ds.clone();
    let mut hi = ds;
    let t = U512::from(c.tau);
    for _ in 0..n.min(600) {
        lo = &lo / &t;
        hi = sat_mul(&hi, c.tau);
    }
    if c.tau >= 2 && n > 600 {
        lo = U512::zero();
        hi = U512::max_value();
    }
    if de < lo {
        return Err(format!("passes an epoch difficulty below the tau band after {} switches", if n >= 64 { ">=64".to_string() } else { n.to_string() }));
    }
    if de > hi {
        return Err(format!("passes an epoch difficulty above the tau band after {} switches", if n >= 64 { ">=64".to_string() } else { n.to_string() }));
    }
    Ok(())
}

/// Is an accepted case consistent with the tau cone?  Returns Err(reason) if the acceptance
/// contradicts the envelope stated in DESIGN.md (C14_sound).
pub fn cone_check(c: &TdCase) -> Result<(), String> {
    let (sn, si, sl) = epoch_fields(c.start_epoch);
    let (en, ei, el) = epoch_fields(c.end_epoch);
    if c.end_total < c.start_total {
        return Err("accepted a decreasing total difficulty".into());
    }
    let total = to512(&(&c.end_total - &c.start_total));
    let sb = to512(&compact_to_difficulty(c.start_compact));
    let eb = to512(&compact_to_difficulty(c.end_compact));
    if sn == en {
        if ei < si {
            return Err("accepted end index before start index in one epoch".into());
        }
        if total != &sb * &U512::from(ei - si) {
            return Err("accepted a mismatching total inside one epoch".into());
        }
        return Ok(());
    }
    if en < sn {
        return Err("accepted an end epoch before the start epoch".into());
    }
    if sl < si + 1 {
        return Err("accepted a start index beyond the epoch length".into());
    }
    let n = en - sn;
    let unaligned = &sb * &U512::from(sl - si - 1) + &eb * &U512::from(ei + 1);
    if n == 1 {
        if total != unaligned {
            return Err("accepted a mismatching total across one epoch switch".into());
        }
        return Ok(());
    }
    let ds = &sb * &U512::from(sl);
    let de = &eb * &U512::from(el);
    // end epoch difficulty within the cone
    let mut up = ds.clone();
    let mut down = ds.clone();
    let mut upper = U512::zero();
    let mut lower = U512::zero();
    for i in 1..=n {
        up = sat_mul(&up, c.tau);
        down = &down / &U512::from(c.tau);
        if i < n {
            upper = sat_add(&upper, &up);
            lower = sat_add(&lower, &down);
        }
        if up == U512::max_value() && down.is_zero() && i + 1 < n {
            // both saturated: the remaining terms change nothing
            upper = U512::max_value();
            break;
        }
    }
    // recompute up/down at exactly n when the loop broke early is unnecessary: saturated
    if de > up && up != U512::max_value() {
        return Err("accepted an end epoch difficulty above start*tau^n".into());
    }
    if de < down {
        return Err("accepted an end epoch difficulty below start/tau^n".into());
    }
    if total < unaligned {
        return Err("accepted a total below the unaligned part".into());
    }
    let aligned = &total - &unaligned;
    if aligned > upper {
        return Err("accepted a total above the tau cone".into());
    }
    if aligned < lower {
        return Err("accepted a total below the tau cone".into());
    }
    Ok(())
}

// ---------------------------------------------------------------------------------------------

fn boundary_compacts() -> Vec<u32> {
    vec![
        0,
        1,
        0x00ff_ffff,
        0x0100_0000,
        0x0100_0001,
        0x0300_0001,
        0x0300_ffff,
        0x0400_0001,
        0x1d00_ffff,
        0x1a08_0000,
        0x2000_0001,
        0x2001_0000,
        0x2080_0000,
        0x20ff_ffff,
        0x2100_0001,
        0x2100_0100,
        0x2101_0000,
        0x2200_0001,
        0xff00_0001,
        0xffff_ffff,
        0x207f_ffff,
        0x1e00_ffff,
    ]
}

/// an epoch from the boundary list, or random fields with the number kept within a small window
/// (a few `wild` ones use the whole 24-bit range)
fn rand_epoch(rng: &mut Rng, epochs: &[u64], wild_budget: &mut u32) -> u64 {
    if rng.chance(3, 4) {
        *rng.pick(epochs)
    } else if *wild_budget > 0 && rng.chance(1, 500) {
        *wild_budget -= 1;
        if rng.chance(1, 2) {
            u64::MAX
        } else {
            rng.next()
        }
    } else {
        let number = rng.range(0, 140);
        let length = *rng.pick(&[0u64, 1, 2, 3, 1000, 65535]);
        let index = match rng.below(4) {
            0 => 0,
            1 => length.saturating_sub(1),
            2 => length,
            _ => rng.below(65536),
        };
        // the unused top byte is peer-controlled too
        (rng.below(256) << 56) | full_epoch(number, index, length)
    }
}

fn boundary_totals() -> Vec<U256> {
    let one = U256::one();
    vec![
        U256::zero(),
        one.clone(),
        U256::from(2u32),
        U256::from(u64::MAX),
        &one << 64u32,
        &one << 128u32,
        &one << 255u32,
        U256::max_value() - &one,
        U256::max_value(),
    ]
}

pub fn gen_cases(opts: &Options, rng: &mut Rng) -> Vec<TdCase> {
    let thorough = opts.thorough();
    let mut cases: Vec<TdCase> = Vec::new();

    // (A) random legal histories + mutated totals
    let n_hist = if thorough { 24_000 } else { 6_000 };
    for i in 0..n_hist {
        let n = match rng.below(10) {
            0 => 0,
            1 => 1,
            2 | 3 => 2,
            4 | 5 => rng.range(3, 6) as usize,
            6 | 7 => rng.range(7, 40) as usize,
            8 => rng.range(41, if thorough { 400 } else { 120 }) as usize,
            _ => {
                if thorough && i % 200 == 0 {
                    rng.range(401, 4000) as usize
                } else {
                    rng.range(2, 12) as usize
                }
            }
        };
        let max_len = *rng.pick(&[1u64, 2, 3, 10, 1800, 65535]);
        let bits = *rng.pick(&[3u32, 8, 20, 64, 100, 200, 230]);
        let eps = random_history(rng, n, max_len, bits);
        let si = rng.below(eps[0].length);
        let ei = if n == 0 {
            rng.range(si, eps[0].length - 1)
        } else {
            rng.below(eps[n].length)
        };
        let si = if rng.chance(1, 3) { eps[0].length - 1 } else { si };
        let ei = if n > 0 && rng.chance(1, 3) { 0 } else { ei };
        let ei = if n == 0 && ei < si { si } else { ei };
        let base = rand_u256(rng, 200);
        let first_number = rng.below(1 << 20);
        if let Some(c) = case_of_history(&eps, first_number, si, ei, &base, "legal-history") {
            // mutations of the total
            for delta in [1u64, 2, 1 << 20] {
                let d = U256::from(delta);
                if let Some(t) = c.end_total.checked_add(&d) {
                    let mut m = c.clone();
                    m.end_total = t;
                    m.expect = None;
                    m.origin = "legal-history total+";
                    cases.push(m);
                }
                if c.end_total >= &c.start_total + &d {
                    let mut m = c.clone();
                    m.end_total = &c.end_total - &d;
                    m.expect = None;
                    m.origin = "legal-history total-";
                    cases.push(m);
                }
            }
            // far outside the cone: must be rejected when n >= 2 (doubling and halving the aligned part many times)
            cases.push(c);
        }
    }

    // (B) exhaustive small grid of legal histories
    {
        let diffs: Vec<u64> = if thorough {
            vec![2, 3, 4, 5, 6, 8, 9, 12, 16]
        } else {
            vec![2, 3, 4, 6, 8, 16]
        };
        let lens: Vec<u64> = if thorough { vec![1, 2, 3] } else { vec![1, 2] };
        let max_n = if thorough { 5 } else { 4 };
        let options: Vec<Ep> = lens
            .iter()
            .flat_map(|l| diffs.iter().map(move |d| mk_epoch(*l, &U256::from(*d))))
            .collect();
        let mut stack: Vec<Ep> = Vec::new();
        fn rec(
            options: &[Ep],
            stack: &mut Vec<Ep>,
            max_n: usize,
            cases: &mut Vec<TdCase>,
        ) {
            if !stack.is_empty() {
                let n = stack.len() - 1;
                let l0 = stack[0].length;
                let ln = stack[n].length;
                let sis: Vec<u64> = if l0 == 1 { vec![0] } else { vec![0, l0 - 1] };
                let eis: Vec<u64> = if ln == 1 { vec![0] } else { vec![0, ln - 1] };
                for si in &sis {
                    for ei in &eis {
                        if n == 0 && ei < si {
                            continue;
                        }
                        if let Some(c) =
                            case_of_history(stack, 7, *si, *ei, &U256::from(1000u32), "grid")
                        {
                            cases.push(c);
                        }
                    }
                }
            }
            if stack.len() == max_n + 1 {
                return;
            }
            for o in options {
                if let Some(prev) = stack.last() {
                    if !legal_pair(prev, o, TAU) {
                        continue;
                    }
                }
                stack.push(o.clone());
                rec(options, stack, max_n, cases);
                stack.pop();
            }
        }
        rec(&options, &mut stack, max_n, &mut cases);
    }

    // (C) boundary / malformed inputs: every numeric field at its extremes
    {
        let compacts = boundary_compacts();
        let totals = boundary_totals();
        let epochs: Vec<u64> = vec![
            0,
            full_epoch(0, 0, 1),
            full_epoch(1, 0, 1),
            full_epoch(1, 5, 3),  // index >= length
            full_epoch(2, 0, 0),  // length 0 -> normalised
            full_epoch(2, 65535, 65535),
            full_epoch(3, 0, 65535),
            full_epoch(100, 10, 1000),
            full_epoch(101, 999, 1000),
            full_epoch(104, 0, 1000),
            (0xffu64 << 56) | full_epoch(140, 65535, 65535),
        ];
        let n = if thorough { 400_000 } else { 40_000 };
        // epoch numbers far apart make both sides loop for millions of iterations: only a few
        let mut wild_budget: u32 = if thorough { 40 } else { 6 };
        for _ in 0..n {
            let c = TdCase {
                start_epoch: rand_epoch(rng, &epochs, &mut wild_budget),
                start_compact: if rng.chance(3, 4) {
                    *rng.pick(&compacts)
                } else {
                    rng.next() as u32
                },
                start_total: if rng.chance(3, 4) {
                    rng.pick(&totals).clone()
                } else {
                    rand_u256(rng, 256)
                },
                end_epoch: rand_epoch(rng, &epochs, &mut wild_budget),
                end_compact: if rng.chance(3, 4) {
                    *rng.pick(&compacts)
                } else {
                    rng.next() as u32
                },
                end_total: if rng.chance(3, 4) {
                    rng.pick(&totals).clone()
                } else {
                    rand_u256(rng, 256)
                },
                tau: TAU,
                expect: None,
                origin: "boundary",
            };
            cases.push(c);
        }
    }
    cases
}

pub fn replay_lines(c: &TdCase, observed: &str, model: &str) -> Vec<String> {
    vec![
        "# C14 replay: verify_total_difficulty / verify_tau at function level".into(),
        format!("# origin: {}", c.origin),
        c.line(),
        c.tau_line(),
        format!("# implementation: {}", observed),
        format!("# model: {}", model),
        format!(
            "# rust: verify_total_difficulty(EpochNumberWithFraction::from_full_value_unchecked({:#x}), {:#x}, &U256({}), from_full_value({:#x}), {:#x}, &U256({}), {})",
            c.start_epoch, c.start_compact, dec(&c.start_total), c.end_epoch, c.end_compact, dec(&c.end_total), c.tau
        ),
    ]
}

fn parse_replay(path: &str) -> Vec<TdCase> {
    let text = std::fs::read_to_string(path).expect("replay file");
    let mut out = Vec::new();
    for l in text.lines() {
        let t: Vec<&str> = l.split_whitespace().collect();
        if t.first() == Some(&"td") && t.len() == 12 {
            let p = |s: &str| s.parse::<u64>().unwrap();
            let u = |s: &str| U256::from_dec_str(s).unwrap();
            out.push(TdCase {
                start_epoch: full_epoch(p(t[1]), p(t[2]), p(t[3])),
                start_compact: p(t[4]) as u32,
                start_total: u(t[5]),
                end_epoch: full_epoch(p(t[6]), p(t[7]), p(t[8])),
                end_compact: p(t[9]) as u32,
                end_total: u(t[10]),
                tau: p(t[11]),
                expect: None,
                origin: "replay",
            });
        }
    }
    out
}

pub fn run(opts: &Options) -> Report {
    // the premise `1 <= tau` of the C14 theorems is a fact about the constant the code uses
    assert!(TAU >= 1, "ckb_constant::consensus::TAU is {}", TAU);
    let mut rep = Report::default();
    rep.rule = "function-level cases for verify_total_difficulty/verify_tau/compact_to_difficulty/\
        calculate_tau_exponent/check_total_difficulty_limit: (A) random legal epoch histories (0..4000 \
        switches, 3..230-bit difficulties) with totals mutated by +-1,+-2,+-2^20, (B) exhaustive grid of \
        legal histories over a small difficulty/length alphabet, (C) boundary/malformed epochs, compact \
        targets and 256-bit totals, (D) direct calls of the trend helpers; a case is non-trivial when \
        start and end epochs differ and the total does not decrease (it reaches the trend logic); \
        distinct = distinct op line"
        .into();
    let mut rng = Rng::new(opts.seed);
    let mut cases = if let Some(p) = &opts.replay {
        parse_replay(p)
    } else {
        gen_cases(opts, &mut rng)
    };
    // corpus first
    if opts.replay.is_none() {
        if let Ok(rd) = std::fs::read_dir("/verif/corpus/C14") {
            let mut corpus = Vec::new();
            for e in rd.flatten() {
                corpus.extend(parse_replay(e.path().to_str().unwrap()));
            }
            corpus.append(&mut cases);
            cases = corpus;
        }
    }

    // --- td + tau ops
    let mut lines: Vec<String> = Vec::with_capacity(cases.len() * 2);
    for c in &cases {
        lines.push(c.line());
        lines.push(c.tau_line());
    }
    // --- (D) helper ops
    let mut helper_impl: Vec<String> = Vec::new();
    let n_helper = if opts.replay.is_some() {
        0
    } else if opts.thorough() {
        200_000
    } else {
        20_000
    };
    for _ in 0..n_helper {
        let bits = *rng.pick(&[4u32, 16, 64, 128, 250, 256]);
        let s = rand_u256(&mut rng, bits);
        let e = if rng.chance(1, 5) {
            s.clone()
        } else {
            rand_u256(&mut rng, bits)
        };
        let tau = *rng.pick(&[1u64, 2, 2, 2, 3, 10]);
        match rng.below(3) {
            0 => {
                let limit = rng.below(300);
                let r = EpochDifficultyTrend::new(&s, &e).calculate_tau_exponent(tau, limit);
                lines.push(format!("exp {} {} {} {}", dec(&s), dec(&e), tau, limit));
                helper_impl.push(match r {
                    Some(k) => format!("some {}", k),
                    None => "none".into(),
                });
                rep.count_op("exp");
            }
            1 => {
                let c = if rng.chance(1, 2) {
                    *rng.pick(&boundary_compacts())
                } else {
                    rng.next() as u32
                };
                lines.push(format!("c2d {}", c));
                helper_impl.push(dec(&compact_to_difficulty(c)));
                rep.count_op("c2d");
            }
            _ => {
                let n = rng.range(2, 40);
                let k = rng.below(n);
                let is_max = rng.chance(1, 2);
                let actual = rand_u256(&mut rng, bits);
                let start = s.clone();
                let ubits = *rng.pick(&[0u32, 8, 64, 255]);
                let unaligned = rand_u256(&mut rng, ubits);
                let trend = EpochDifficultyTrend::new(&s, &e);
                let r = catch(|| {
                    trend.check_total_difficulty_limit(
                        if is_max {
                            EstimatedLimit::Max
                        } else {
                            EstimatedLimit::Min
                        },
                        n,
                        k,
                        &actual,
                        &start,
                        tau,
                        &unaligned,
                    )
                });
                lines.push(format!(
                    "lim {} {} {} {} {} {} {} {} {}",
                    dec(&s),
                    dec(&e),
                    if is_max { 1 } else { 0 },
                    n,
                    k,
                    dec(&actual),
                    dec(&start),
                    tau,
                    dec(&unaligned)
                ));
                helper_impl.push(match r {
                    Ok(Ok(())) => "1".into(),
                    Ok(Err(_)) => "0".into(),
                    Err(p) => format!("panic {}", panic_class(&p)),
                });
                rep.count_op("lim");
            }
        }
    }

    let answers = run_model(opts, "difficulty", &lines);

    for (i, c) in cases.iter().enumerate() {
        let line = &lines[2 * i];
        rep.evaluations += 1;
        rep.count_op("td");
        rep.count_op("tau");
        let res = call_td(c);
        let cls = classify_td(&res);
        let tau_cls = call_tau(c);
        rep.count_class(&format!("td:{}", cls));
        rep.count_class(&format!("tau:{}", tau_cls));
        let m_td = model_class(&answers[2 * i]);
        let m_tau = model_class(&answers[2 * i + 1]);
        if i % 997 == 0 {
            rep.sample(&format!("{} => {} | {} => {}", line, cls, lines[2 * i + 1], tau_cls));
        }
        {
            let (sn, _, _) = epoch_fields(c.start_epoch);
            let (en, _, _) = epoch_fields(c.end_epoch);
            if sn != en && c.end_total >= c.start_total {
                rep.nontrivial.insert(fnv(line));
            }
        }
        if cls != m_td {
            rep.disagree(line, &cls, &m_td);
        } else {
            rep.traces_validated += 1;
        }
        if tau_cls != m_tau {
            rep.disagree(&lines[2 * i + 1], &tau_cls, &m_tau);
        } else {
            rep.traces_validated += 1;
        }
        // ---- property oracle on the implementation's own behaviour
        if let Some(p) = cls.strip_prefix("panic ") {
            rep.violate(
                &format!("C14|abort|verify_total_difficulty|{}", p),
                &format!("verify_total_difficulty aborts ({}) on peer-suppliable numbers", p),
                replay_lines(c, &cls, &m_td),
            );
        }
        if let Some(p) = tau_cls.strip_prefix("panic ") {
            rep.violate(
                &format!("C14|abort|verify_tau|{}", p),
                &format!("verify_tau aborts ({}) on peer-suppliable numbers", p),
                replay_lines(c, &tau_cls, &m_tau),
            );
        }
        if c.expect == Some(true) {
            if cls != "ok" && !cls.starts_with("panic") {
                rep.violate(
                    &format!("C14|complete|verify_total_difficulty|{}", cls),
                    &format!("a legal difficulty history is rejected ({})", cls),
                    replay_lines(c, &cls, &m_td),
                );
            }
            if tau_cls != "pass" && !tau_cls.starts_with("panic") {
                rep.violate(
                    &format!("C14|complete|verify_tau|{}", tau_cls),
                    &format!("a legal difficulty history fails the tau check ({})", tau_cls),
                    replay_lines(c, &tau_cls, &m_tau),
                );
            }
        }
        if tau_cls == "pass" {
            if let Err(reason) = tau_band_check(c) {
                let kind = reason.split(" after ").next().unwrap_or("").replace(' ', "-");
                rep.violate(
                    &format!("C14|tau-sound|{}", kind),
                    &format!("verify_tau {}", reason),
                    replay_lines(c, &tau_cls, &m_tau),
                );
            }
        }
        if cls == "ok" {
            if let Err(reason) = cone_check(c) {
                rep.violate(
                    &format!("C14|sound|{}", reason),
                    &format!("verify_total_difficulty {}", reason),
                    replay_lines(c, &cls, &m_td),
                );
            }
        }
    }
    let base = 2 * cases.len();
    for (j, imp) in helper_impl.iter().enumerate() {
        rep.evaluations += 1;
        let m = model_class(&answers[base + j]);
        if *imp != m {
            rep.disagree(&lines[base + j], imp, &m);
        } else {
            rep.traces_validated += 1;
        }
        if let Some(p) = imp.strip_prefix("panic ") {
            // helper called with arguments verify_total_difficulty never passes (k >= n etc.) is
            // not a property violation by itself; only recorded
            rep.count_class(&format!("helper-panic:{}", p));
        }
        if j % 4999 == 0 {
            rep.sample(&format!("{} => {}", lines[base + j], imp));
        }
    }
    rep
}

//! C02 / C16 — block proofs, transaction proofs, block bodies and the fetch bookkeeping.
//! A full client (store, peer table, the three protocol handlers, RPCs) with three proven peers
//! on a chain with script activity.  Histories: `fetch_header` / `fetch_transaction` for hashes
//! on the chain, unknown, only on the other branch, forged; the FETCH / REFRESH timers; honest
//! answers (v0 or v1) and single-fault mutations of `SendBlocksProof`, `SendTransactionsProof`
//! and `SendBlock`; answers nobody asked for / from another peer; peer time-outs, disconnects,
//! reconnects; a fork switch; one multi-step attack over the filter pipeline (a forged block under
//! a matched hash the peers honestly report missing).  Every RPC call, timer tick, disconnect and every delivery of the
//! three messages is also run through the `Proofs` Lean layer: the abstraction of the client's
//! state goes in, the observable result (status / ban code / sent requests / indexed blocks) and
//! the abstraction of the state afterwards are compared.

use std::collections::{BTreeMap, BTreeSet, HashMap, HashSet};

use ckb_network::{bytes::Bytes, PeerIndex, ProtocolId, SupportProtocols};
use ckb_types::{
    core::{BlockView, HeaderView, TransactionView},
    packed::{self, Byte32},
    prelude::*,
    utilities::{merkle_mountain_range::VerifiableHeader, merkle_root, MerkleProof},
    H256,
};

use super::c04::{index_dump, parse_seeds, short, Branch, Fact};
use super::node::{set_now, Node};
use super::server::{self, ServerOpts};
use super::simchain::{self, SimChain};
use super::sync::{script_of, N_SCRIPTS};
use super::{catch, fnv, run_model, Options, Report, Rng};
use crate::protocols::light_client::verif_exports::{constant as lcc, verify_extra_hash, verify_mmr_proof};
use crate::protocols::light_client::PeerState;
use crate::protocols::MESSAGE_TIMEOUT;
use crate::service::{
    BlockFilterRpc, ChainRpc, FetchStatus, ScriptStatus, ScriptType, SetScriptsCommand, Status as TxState,
    TransactionRpc,
};
use crate::storage::{HeaderWithExtension, Key, KeyPrefix};

const LAST_N: u64 = 5;

pub(crate) fn lc_msg<T: Into<packed::LightClientMessageUnion>>(content: T) -> Bytes {
    packed::LightClientMessage::new_builder().set(content).build().as_bytes()
}
pub(crate) fn sync_msg<T: Into<packed::SyncMessageUnion>>(content: T) -> Bytes {
    packed::SyncMessage::new_builder().set(content).build().as_bytes()
}

/// ids for byte strings (hashes, extensions)
#[derive(Default)]
struct Abs {
    ids: HashMap<Vec<u8>, u64>,
}
impl Abs {
    fn id(&mut self, b: &[u8]) -> u64 {
        let n = self.ids.len() as u64 + 1;
        *self.ids.entry(b.to_vec()).or_insert(n)
    }
}

fn list(v: &[u64]) -> String {
    format!("[{}]", v.iter().map(|x| x.to_string()).collect::<Vec<_>>().join(", "))
}
fn nums(v: &[u64]) -> String {
    v.iter().map(|x| x.to_string()).collect::<Vec<_>>().join(" ")
}
fn opt(o: &Option<u64>) -> String {
    o.map(|x| x.to_string()).unwrap_or_else(|| "-".into())
}

#[derive(Clone, Debug, PartialEq)]
struct BodyAbs {
    number: u64,
    ext: Option<u64>,
    body_ok: bool,
    txs: Vec<(u64, bool)>,
}

/// the abstraction of the client's state the `Proofs` model works on
#[derive(Clone, Debug, Default, PartialEq)]
struct Snap {
    /// (peer, blocks-proof slot (last, get_blocks, hashes, when), txs-proof slot (last, hashes, when))
    peers: Vec<(u64, Option<(u64, bool, Vec<u64>, u64)>, Option<(u64, Vec<u64>, u64)>)>,
    fh: Vec<(u64, u64, u64, bool, bool)>,
    ft: Vec<(u64, u64, u64, bool, bool)>,
    mb: Vec<(u64, bool, Option<BodyAbs>)>,
    hdr: Vec<(u64, u64, Option<u64>)>,
    num: Vec<(u64, u64)>,
    txr: Vec<(u64, u64, u64)>,
}

impl Snap {
    fn lines(&self) -> Vec<String> {
        let mut out = vec!["reset".to_string()];
        for (p, b, t) in &self.peers {
            out.push(format!("peer {}", p));
            if let Some((last, gb, hs, when)) = b {
                out.push(format!("breq {} {} {} {} | {}", p, last, *gb as u8, when, nums(hs)));
            }
            if let Some((last, hs, when)) = t {
                out.push(format!("treq {} {} {} | {}", p, last, when, nums(hs)));
            }
        }
        for (h, a, f, t, m) in &self.fh {
            out.push(format!("fh {} {} {} {} {}", h, a, f, *t as u8, *m as u8));
        }
        for (h, a, f, t, m) in &self.ft {
            out.push(format!("ft {} {} {} {} {}", h, a, f, *t as u8, *m as u8));
        }
        for (h, pr, body) in &self.mb {
            match body {
                None => out.push(format!("mb {} {}", h, *pr as u8)),
                Some(b) => out.push(format!(
                    "mb {} {} {} {} {} | {}",
                    h,
                    *pr as u8,
                    b.number,
                    opt(&b.ext),
                    b.body_ok as u8,
                    b.txs.iter().map(|(t, x)| format!("{} {}", t, *x as u8)).collect::<Vec<_>>().join(" ")
                )),
            }
        }
        for (h, n, e) in &self.hdr {
            out.push(format!("hdr {} {} {}", h, n, opt(e)));
        }
        for (n, h) in &self.num {
            out.push(format!("num {} {}", n, h));
        }
        for (t, n, i) in &self.txr {
            out.push(format!("txr {} {} {}", t, n, i));
        }
        out
    }

    /// the same text as `Proofs.dump`
    fn dump(&self) -> String {
        let fi = |v: &Vec<(u64, u64, u64, bool, bool)>| {
            v.iter()
                .map(|(h, a, f, t, m)| format!("{}:{}:{}:{}:{}", h, a, f, (*t && *f != 0) as u8, *m as u8))
                .collect::<Vec<_>>()
                .join(" ")
        };
        let ps = self
            .peers
            .iter()
            .map(|(p, b, t)| {
                format!(
                    "{}:{}{}",
                    p,
                    match b {
                        Some((last, gb, hs, _)) => format!("B({},{},{})", last, *gb as u8, list(hs)),
                        None => "B-".into(),
                    },
                    match t {
                        Some((last, hs, _)) => format!("T({},{})", last, list(hs)),
                        None => "T-".into(),
                    }
                )
            })
            .collect::<Vec<_>>()
            .join(" ");
        let mb = self
            .mb
            .iter()
            .map(|(h, pr, b)| {
                format!(
                    "{}:{}:{}",
                    h,
                    *pr as u8,
                    match b {
                        Some(b) => format!("{}/{}", b.number, b.txs.len()),
                        None => "-".into(),
                    }
                )
            })
            .collect::<Vec<_>>()
            .join(" ");
        format!(
            "P {} FH {} FT {} MB {} HDR {} NUM {} TXR {}",
            ps,
            fi(&self.fh),
            fi(&self.ft),
            mb,
            self.hdr.iter().map(|(h, n, e)| format!("{}:{}:{}", h, n, opt(e))).collect::<Vec<_>>().join(" "),
            self.num.iter().map(|(n, h)| format!("{}:{}", n, h)).collect::<Vec<_>>().join(" "),
            self.txr.iter().map(|(t, n, i)| format!("{}:{}:{}", t, n, i)).collect::<Vec<_>>().join(" ")
        )
    }
}

/// model ops and the implementation's observed answers
#[derive(Default)]
struct Sink {
    lines: Vec<String>,
    impls: Vec<String>,
    owner: Vec<(u64, usize)>,
    cur: (u64, usize),
}

impl Sink {
    fn op(&mut self, pre: &Snap, op: String, expected: String) {
        for l in pre.lines() {
            self.lines.push(l);
            self.impls.push(String::new());
            self.owner.push(self.cur);
        }
        self.lines.push(op);
        self.impls.push(expected);
        self.owner.push(self.cur);
    }
}

#[derive(Clone, Copy, Debug, PartialEq, Eq, PartialOrd, Ord)]
pub(crate) enum Attack {
    // SendBlocksProof
    BpSwapHeader,
    BpSwapHeaderReproved,
    BpForgedHeader,
    BpOutside,
    BpMissingExtended,
    BpMissingEmptied,
    BpDropProofItem,
    BpOtherLastStateContent,
    BpOtherLastStateEmpty,
    BpForgedLastHeader,
    BpV1WrongExtension,
    BpV1WrongUncles,
    BpUnsolicited,
    BpFromOtherPeer,
    BpForgedRequested,
    // SendTransactionsProof
    TpForgedRequested,
    TpWitnessesRoot,
    TpWrongBlock,
    TpReplaceTx,
    TpDropProofItem,
    TpDropLemma,
    TpOtherLastStateContent,
    TpOtherLastStateEmpty,
    TpMissingExtended,
    TpMissingEmptied,
    TpV1WrongExtension,
    TpUnsolicited,
    TpFromOtherPeer,
    // SendBlock
    BlkTxAdded,
    BlkTxRemoved,
    BlkTxReplaced,
    BlkExtensionAltered,
    BlkUnasked,
    BlkUnaskedForged,
    /// multi-step: a `BlockFilters` answer with the hash of one matching block replaced by the
    /// hash of a forged, self-consistent block (the filters stay honest), the honest
    /// `SendBlocksProof` answer (the forged hash is missing), then `SendBlock` with the forged block
    BlkForgedMatchedMissing,
    /// a made-up header with the NUMBER of a requested block of the chain, served right after
    /// the genuine header (the MMR library keeps one leaf per position and drops the others
    /// unverified)
    BpForgedTwin,
    /// a complete, self-consistent answer built on the OTHER branch (the peer's private chain):
    /// last header, MMR proof, headers / Merkle proofs all fit each other, only the last header is
    /// not the requested (proved) one
    BpPrivateChain,
    TpPrivateChain,
    /// all requested transactions in ONE filtered block (genuine header and MMR proof) whose
    /// Merkle proof names the index 2^32 - 1 first: merkle-cbt computes `index + 1` on `u32`
    TpIndexMax,
    /// every transaction of a block (a Merkle proof without lemmas) plus a made-up transaction
    /// the user asks for, under an index that is nobody's sibling: the library skips it
    TpFakeAmongAll,
    /// one requested transaction answered twice (proved in its block AND listed as missing),
    /// another requested one not answered at all: as many answers as requests
    TpAnswerTwice,
    BpAnswerTwice,
}

/// the kinds `gen_step` drew from before kinds were appended (the draw of an old seed keeps its meaning)
const OLD_ATTACKS: u64 = 34;

pub(crate) const ATTACKS: [Attack; 42] = [
    Attack::BpSwapHeader,
    Attack::BpSwapHeaderReproved,
    Attack::BpForgedHeader,
    Attack::BpOutside,
    Attack::BpMissingExtended,
    Attack::BpMissingEmptied,
    Attack::BpDropProofItem,
    Attack::BpOtherLastStateContent,
    Attack::BpOtherLastStateEmpty,
    Attack::BpForgedLastHeader,
    Attack::BpV1WrongExtension,
    Attack::BpV1WrongUncles,
    Attack::BpUnsolicited,
    Attack::BpFromOtherPeer,
    Attack::BpForgedRequested,
    Attack::TpForgedRequested,
    Attack::TpWitnessesRoot,
    Attack::TpWrongBlock,
    Attack::TpReplaceTx,
    Attack::TpDropProofItem,
    Attack::TpDropLemma,
    Attack::TpOtherLastStateContent,
    Attack::TpOtherLastStateEmpty,
    Attack::TpMissingExtended,
    Attack::TpMissingEmptied,
    Attack::TpV1WrongExtension,
    Attack::TpUnsolicited,
    Attack::TpFromOtherPeer,
    Attack::BlkTxAdded,
    Attack::BlkTxRemoved,
    Attack::BlkTxReplaced,
    Attack::BlkExtensionAltered,
    Attack::BlkUnasked,
    Attack::BlkUnaskedForged,
    Attack::BlkForgedMatchedMissing,
    Attack::BpForgedTwin,
    Attack::BpPrivateChain,
    Attack::TpPrivateChain,
    Attack::TpIndexMax,
    Attack::TpFakeAmongAll,
    Attack::TpAnswerTwice,
    Attack::BpAnswerTwice,
];

impl Attack {
    fn is_bp(&self) -> bool {
        format!("{:?}", self).starts_with("Bp")
    }
    fn is_tp(&self) -> bool {
        format!("{:?}", self).starts_with("Tp")
    }
    fn is_blk(&self) -> bool {
        format!("{:?}", self).starts_with("Blk")
    }
    /// a lie that no check can catch (the peer withholds data): `not_found` for a hash that is on
    /// the chain
    fn is_withholding(&self) -> bool {
        matches!(self, Attack::BpMissingExtended | Attack::TpMissingExtended)
    }
}

// ---- the client under test with its shadow knowledge, the state
// abstraction and the model-checked operations

struct Ctx<'w> {
    node: Node,
    branches: &'w [Branch],
    /// the chain each branch's peers serve (the branch's chain, growing by empty blocks)
    chains: Vec<SimChain>,
    serving: usize,
    v1: bool,
    abs: Abs,
    now: u64,
    /// block hashes / transaction hashes the model may have to talk about
    uni_h: Vec<Byte32>,
    uni_t: Vec<Byte32>,
    seen_h: HashSet<Byte32>,
    seen_t: HashSet<Byte32>,
    max_number: u64,
    /// when a request slot got its present content: peer -> (fingerprint, time)
    when_b: HashMap<u64, (u64, u64)>,
    when_t: HashMap<u64, (u64, u64)>,
    when_dl: HashMap<u64, u64>,
    /// requests the client sent that nobody served yet
    queue: Vec<(ProtocolId, PeerIndex, Bytes)>,
    aborted: Option<String>,
    /// every status `fetch_header` / `fetch_transaction` answered, per hash
    statuses: HashMap<Byte32, Vec<String>>,
    /// hashes an accepted answer listed as missing
    reported_missing: HashSet<Byte32>,
    asked_h: Vec<Byte32>,
    asked_t: Vec<Byte32>,
    /// forged headers / transactions (never on a chain)
    forged_h: HashMap<Byte32, HeaderView>,
    forged_t: HashMap<Byte32, TransactionView>,
    last_attack: String,
    accepted_mutations: Vec<String>,
    passed_matching: bool,
    status_changed: bool,
    refused: Vec<String>,
    had_ext: HashSet<u64>,
    /// the code under test leaves the last state's own hash out of the fetch requests
    skip_tip: bool,
    /// the index holds an entry of a block of the other branch (the subject of C04)
    stale_after_fork: bool,
    /// a body the header does not commit to was accepted (the mutation kind)
    forged_body: Option<String>,
    /// a proof answer was rejected while the sender's slot was occupied
    rejected_with_request: bool,
    switched: bool,
    lost: bool,
    /// the forged block of `BlkForgedMatchedMissing` whose hash a liar put among the matched ones
    forged_match: Option<ForgedMatch>,
}

/// `BlkForgedMatchedMissing`: a block that is on no chain under a hash the filter pipeline took
/// from a `BlockFilters` message
struct ForgedMatch {
    hash: Byte32,
    block: packed::Block,
    /// the transactions no chain block contains
    txs: Vec<Byte32>,
    /// how often the block was sent after a proof answer that reported its hash missing
    sent: u32,
}

fn h256(h: &Byte32) -> H256 {
    h.unpack()
}

fn ban_code(reason: &str) -> String {
    reason.split('(').nth(1).and_then(|t| t.split(')').next()).unwrap_or("?").to_string()
}

/// the MATCHED_BLOCKS records of the store: (start, count, [(hash, proved)])
fn records(node: &Node) -> Vec<(u64, u64, Vec<(Byte32, bool)>)> {
    use rocksdb::{prelude::*, Direction, IteratorMode};
    let st = &node.i().storage;
    let mut prefix = vec![KeyPrefix::Meta as u8];
    prefix.extend_from_slice(b"MATCHED_BLOCKS");
    let mut out = Vec::new();
    for (k, v) in st.db.iterator(IteratorMode::From(&prefix, Direction::Forward)).take_while(|(k, _)| k.starts_with(&prefix)) {
        let start = u64::from_be_bytes(k[prefix.len()..].try_into().unwrap());
        let count = u64::from_le_bytes(v[0..8].try_into().unwrap());
        let n = (v.len() - 8) / 33;
        let hashes = (0..n)
            .map(|i| (Byte32::from_slice(&v[8 + i * 33..8 + i * 33 + 32]).unwrap(), v[8 + i * 33 + 32] == 1))
            .collect();
        out.push((start, count, hashes));
    }
    out
}

fn raw_get(node: &Node, key: Vec<u8>) -> Option<Vec<u8>> {
    use rocksdb::prelude::*;
    node.i().storage.db.get(&key).expect("db get").map(|v| v.to_vec())
}

/// the header commits to the body
fn body_ok(block: &packed::Block) -> bool {
    let v = block.clone().into_view_without_reset_header();
    v.transactions_root() == v.calc_transactions_root()
        && v.extra_hash() == v.calc_extra_hash().extra_hash()
        && v.proposals_hash() == v.calc_proposals_hash()
}

impl<'w> Ctx<'w> {
    fn know_h(&mut self, h: &Byte32) {
        if self.seen_h.insert(h.clone()) {
            self.uni_h.push(h.clone());
            self.abs.id(h.as_slice());
        }
    }
    fn know_t(&mut self, h: &Byte32) {
        if self.seen_t.insert(h.clone()) {
            self.uni_t.push(h.clone());
            self.abs.id(h.as_slice());
        }
    }
    fn hid(&mut self, h: &Byte32) -> u64 {
        self.know_h(h);
        self.abs.id(h.as_slice())
    }
    fn tid(&mut self, h: &Byte32) -> u64 {
        self.know_t(h);
        self.abs.id(h.as_slice())
    }
    fn ext_id(&mut self, e: &Option<packed::Bytes>) -> Option<u64> {
        e.as_ref().map(|b| self.abs.id(b.as_slice()))
    }

    /// would `filter_block` store the transactions of this block?  (registered lock scripts
    /// only; previous outputs are looked up in the store and in the block itself)
    fn touches(&mut self, block: &packed::Block) -> Vec<(u64, bool)> {
        let scripts: HashSet<Vec<u8>> = self
            .node
            .i()
            .storage
            .get_filter_scripts()
            .into_iter()
            .filter(|s| matches!(s.script_type, crate::storage::ScriptType::Lock))
            .map(|s| s.script.as_slice().to_vec())
            .collect();
        let mut in_block: HashMap<Byte32, packed::Transaction> = HashMap::new();
        let mut out = Vec::new();
        for tx in block.transactions().into_iter() {
            let mut touch = false;
            for input in tx.raw().inputs().into_iter() {
                let ph = input.previous_output().tx_hash();
                let idx: u32 = input.previous_output().index().unpack();
                let prev = raw_get(&self.node, Key::TxHash(&ph).into_vec())
                    .map(|v| packed::Transaction::from_slice(&v[12..]).expect("stored tx"))
                    .or_else(|| in_block.get(&ph).cloned());
                if let Some(prev) = prev {
                    if let Some(o) = prev.raw().outputs().get(idx as usize) {
                        if scripts.contains(o.lock().as_slice()) {
                            touch = true;
                        }
                    }
                }
            }
            for o in tx.raw().outputs().into_iter() {
                if scripts.contains(o.lock().as_slice()) {
                    touch = true;
                }
            }
            let h = tx.calc_tx_hash();
            out.push((self.tid(&h), touch));
            in_block.insert(h, tx);
        }
        out
    }

    fn body_abs(&mut self, block: &packed::Block) -> BodyAbs {
        let number: u64 = block.header().raw().number().unpack();
        self.max_number = self.max_number.max(number);
        BodyAbs { number, ext: self.ext_id(&block.extension()), body_ok: body_ok(block), txs: self.touches(block) }
    }

    fn snap(&mut self) -> Snap {
        let mut s = Snap::default();
        let peers_tbl = std::sync::Arc::clone(&self.node.i().peers);
        let mut ps: Vec<PeerIndex> = peers_tbl.get_peers_index();
        ps.sort();
        for p in ps {
            let peer = match peers_tbl.get_peer(&p) {
                Some(x) => x,
                None => continue,
            };
            let pv = p.value() as u64;
            let b = peer.get_blocks_proof_request().map(|r| {
                let last = self.hid(&r.last_hash());
                let hs: Vec<u64> = r.block_hashes().iter().map(|h| self.hid(&h.pack())).collect();
                (last, r.should_get_blocks(), hs, self.when_b.get(&pv).map(|x| x.1).unwrap_or(self.now))
            });
            let t = peer.get_txs_proof_request().map(|r| {
                let last = self.hid(&r.last_hash());
                let hs: Vec<u64> = r.tx_hashes().iter().map(|h| self.tid(&h.pack())).collect();
                (last, hs, self.when_t.get(&pv).map(|x| x.1).unwrap_or(self.now))
            });
            s.peers.push((pv, b, t));
        }
        let to_h: HashSet<Byte32> = peers_tbl.get_headers_to_fetch().into_iter().collect();
        let to_t: HashSet<Byte32> = peers_tbl.get_txs_to_fetch().into_iter().collect();
        for h in self.uni_h.clone() {
            if let Some((a, f, m)) = peers_tbl.get_header_fetch_info(&h) {
                s.fh.push((self.hid(&h), a, f, f != 0 && to_h.contains(&h), m));
            }
        }
        for t in self.uni_t.clone() {
            if let Some((a, f, m)) = peers_tbl.get_tx_fetch_info(&t) {
                s.ft.push((self.tid(&t), a, f, f != 0 && to_t.contains(&t), m));
            }
        }
        {
            let entries: Vec<(H256, bool, Option<packed::Block>)> = {
                let mb = peers_tbl.matched_blocks().read().unwrap();
                mb.iter().map(|(k, v)| (k.clone(), v.0, v.1.clone())).collect()
            };
            for (k, proved, body) in entries {
                let id = self.hid(&k.pack());
                let b = body.map(|b| self.body_abs(&b));
                s.mb.push((id, proved, b));
            }
        }
        for h in self.uni_h.clone() {
            if let Some(v) = raw_get(&self.node, Key::BlockHash(&h).into_vec()) {
                let header = packed::Header::from_slice(&v[..packed::Header::TOTAL_SIZE]).expect("stored header");
                let number: u64 = header.raw().number().unpack();
                self.max_number = self.max_number.max(number);
                let ext = if v.len() > packed::Header::TOTAL_SIZE { Some(self.abs.id(&v[packed::Header::TOTAL_SIZE..])) } else { None };
                s.hdr.push((self.hid(&h), number, ext));
            }
        }
        for n in 0..=self.max_number {
            if let Some(v) = raw_get(&self.node, Key::BlockNumber(n).into_vec()) {
                let h = Byte32::from_slice(&v).expect("stored hash");
                s.num.push((n, self.hid(&h)));
            }
        }
        for t in self.uni_t.clone() {
            if let Some(v) = raw_get(&self.node, Key::TxHash(&t).into_vec()) {
                let n = u64::from_be_bytes(v[0..8].try_into().unwrap());
                let i = u32::from_be_bytes(v[8..12].try_into().unwrap()) as u64;
                self.max_number = self.max_number.max(n);
                s.txr.push((self.tid(&t), n, i));
            }
        }
        // the ids are allocated in first-use order: sort like the model's key lists
        s.fh.sort();
        s.ft.sort();
        s.mb.sort_by_key(|e| e.0);
        s.hdr.sort();
        s.num.sort();
        s.txr.sort();
        s
    }

    /// remember when the request slots got their present content
    fn sync_shadow(&mut self) {
        let peers_tbl = std::sync::Arc::clone(&self.node.i().peers);
        let mut alive = HashSet::new();
        for p in peers_tbl.get_peers_index() {
            let pv = p.value() as u64;
            alive.insert(pv);
            let peer = match peers_tbl.get_peer(&p) {
                Some(x) => x,
                None => continue,
            };
            match peer.get_blocks_proof_request() {
                Some(r) => {
                    let fp = fnv(&format!("{:x}{:?}{}", r.last_hash(), r.block_hashes(), r.should_get_blocks()));
                    if self.when_b.get(&pv).map(|x| x.0) != Some(fp) {
                        self.when_b.insert(pv, (fp, self.now));
                    }
                }
                None => {
                    self.when_b.remove(&pv);
                }
            }
            match peer.get_txs_proof_request() {
                Some(r) => {
                    let fp = fnv(&format!("{:x}{:?}", r.last_hash(), r.tx_hashes()));
                    if self.when_t.get(&pv).map(|x| x.0) != Some(fp) {
                        self.when_t.insert(pv, (fp, self.now));
                    }
                }
                None => {
                    self.when_t.remove(&pv);
                }
            }
            if peer.get_blocks_request().is_some() {
                self.when_dl.entry(pv).or_insert(self.now);
            } else {
                self.when_dl.remove(&pv);
            }
        }
        self.when_b.retain(|k, _| alive.contains(k));
        self.when_t.retain(|k, _| alive.contains(k));
        self.when_dl.retain(|k, _| alive.contains(k));
    }

    fn guard<T>(&mut self, f: impl FnOnce(&mut Node) -> T) -> Option<T> {
        if self.aborted.is_some() {
            return None;
        }
        let node = &mut self.node;
        match catch(|| f(node)) {
            Ok(v) => Some(v),
            Err(e) => {
                self.aborted = Some(e);
                None
            }
        }
    }

    fn advance(&mut self, dt: u64) {
        self.now += dt;
        set_now(self.now);
    }

    // ----------------------------------------------------------------------------------------
    // model-checked operations

    fn connect(&mut self, p: PeerIndex, sink: &mut Sink, rep: &mut Report) {
        let pre = self.snap();
        if self.guard(|n| n.connect(p)).is_none() {
            return;
        }
        self.sync_shadow();
        let post = self.snap();
        sink.op(&pre, format!("connect {}", p.value()), format!("ok || {}", post.dump()));
        rep.count_op("connect");
    }

    fn disconnect(&mut self, p: PeerIndex, sink: &mut Sink, rep: &mut Report) {
        let pre = self.snap();
        if self.guard(|n| n.disconnect(p)).is_none() {
            return;
        }
        self.sync_shadow();
        let post = self.snap();
        sink.op(&pre, format!("disconnect {}", p.value()), format!("ok || {}", post.dump()));
        rep.count_op("disconnect");
    }

    /// `Node::collect` with the disconnects run through the model
    fn collect(&mut self, sink: &mut Sink, rep: &mut Report) {
        let mut gone: Vec<PeerIndex> = Vec::new();
        {
            let i = self.node.i();
            let mut new_bans = Vec::new();
            let mut sent = Vec::new();
            for nc in [&i.nc_lc, &i.nc_filter, &i.nc_sync] {
                let rec = nc.take();
                for (peer, _, reason) in rec.banned {
                    new_bans.push((peer.value() as u64, reason));
                    gone.push(peer);
                }
                gone.extend(rec.disconnected);
                sent.extend(rec.sent);
            }
            self.queue.extend(sent);
            self.node.bans.extend(new_bans);
        }
        let mut done = HashSet::new();
        for p in gone {
            if done.insert(p) && self.node.i().peers.get_peer(&p).is_some() {
                self.disconnect(p, sink, rep);
            }
        }
        // requests to peers that are gone are never answered
        let peers_tbl = std::sync::Arc::clone(&self.node.i().peers);
        self.queue.retain(|(_, p, _)| peers_tbl.get_peer(p).is_some());
    }

    fn status_text<T>(st: &FetchStatus<T>) -> String {
        match st {
            FetchStatus::Added { timestamp } => format!("added {}", timestamp.value()),
            FetchStatus::Fetching { first_sent } => format!("fetching {}", first_sent.value()),
            FetchStatus::Fetched { .. } => "fetched".into(),
            FetchStatus::NotFound => "not_found".into(),
        }
    }

    fn record_status(&mut self, h: &Byte32, st: String) {
        let v = self.statuses.entry(h.clone()).or_default();
        if v.last() != Some(&st) {
            if !v.is_empty() {
                self.status_changed = true;
            }
            v.push(st);
        }
    }

    /// `fetch_header` through implementation and model; the answer
    fn fetch_header(&mut self, h: &Byte32, sink: &mut Sink, rep: &mut Report) -> Option<FetchStatus<ckb_jsonrpc_types::HeaderView>> {
        let id = self.hid(h);
        if !self.asked_h.contains(h) {
            self.asked_h.push(h.clone());
        }
        let pre = self.snap();
        let hh = h256(h);
        let st = self.guard(|n| n.chain_rpc().fetch_header(hh).expect("fetch_header"))?;
        let post = self.snap();
        let text = Self::status_text(&st);
        sink.op(&pre, format!("fetch-header {} {}", id, self.now), format!("{} unknown || {}", text, post.dump()));
        rep.count_op("fetch_header");
        rep.count_class(&format!("status:{}", text.split(' ').next().unwrap_or("")));
        self.record_status(h, text.split(' ').next().unwrap_or("").to_string());
        Some(st)
    }

    fn tx_ans(&mut self, tws: &crate::service::TransactionWithStatus) -> String {
        match tws.tx_status.status {
            TxState::Committed => {
                let b: Byte32 = tws.tx_status.block_hash.clone().expect("committed block hash").pack();
                format!("committed {}", self.hid(&b))
            }
            TxState::Pending => "pending".into(),
            TxState::Unknown => "unknown".into(),
        }
    }

    fn fetch_tx(&mut self, t: &Byte32, sink: &mut Sink, rep: &mut Report) -> Option<FetchStatus<crate::service::TransactionWithStatus>> {
        let id = self.tid(t);
        if !self.asked_t.contains(t) {
            self.asked_t.push(t.clone());
        }
        let pre = self.snap();
        let hh = h256(t);
        let st = self.guard(|n| n.tx_rpc().fetch_transaction(hh).expect("fetch_transaction"))?;
        let text = Self::status_text(&st);
        let ans = match &st {
            FetchStatus::Fetched { data } => self.tx_ans(data),
            _ => "unknown".into(),
        };
        let post = self.snap();
        sink.op(&pre, format!("fetch-tx {} {} 0", id, self.now), format!("{} {} || {}", text, ans, post.dump()));
        rep.count_op("fetch_transaction");
        rep.count_class(&format!("status:{}", text.split(' ').next().unwrap_or("")));
        self.record_status(t, text.split(' ').next().unwrap_or("").to_string());
        Some(st)
    }

    fn get_tx(&mut self, t: &Byte32, sink: &mut Sink, rep: &mut Report) -> Option<crate::service::TransactionWithStatus> {
        let id = self.tid(t);
        let pre = self.snap();
        let hh = h256(t);
        let tws = self.guard(|n| n.tx_rpc().get_transaction(hh).expect("get_transaction"))?;
        let ans = self.tx_ans(&tws);
        let post = self.snap();
        sink.op(&pre, format!("get-tx {} 0", id), format!("{} || {}", ans, post.dump()));
        rep.count_op("get_transaction");
        Some(tws)
    }

    fn get_header(&mut self, h: &Byte32, sink: &mut Sink, rep: &mut Report) -> Option<Option<ckb_jsonrpc_types::HeaderView>> {
        let id = self.hid(h);
        let pre = self.snap();
        let in_proved = self.node.i().peers.find_header_in_proved_state(h).is_some();
        let hh = h256(h);
        let r = self.guard(|n| n.chain_rpc().get_header(hh).expect("get_header"))?;
        let post = self.snap();
        sink.op(&pre, format!("get-header {} {}", id, in_proved as u8), format!("header {} || {}", r.is_some() as u8, post.dump()));
        rep.count_op("get_header");
        Some(r)
    }

    /// the FETCH timer
    fn fetch_tick(&mut self, sink: &mut Sink, rep: &mut Report) {
        self.collect(sink, rep);
        let pre = self.snap();
        let tip = self.node.i().storage.get_tip_header();
        let tip_id = self.hid(&tip.calc_header_hash());
        let best: Vec<u64> = self.node.i().peers.get_best_proved_peers(&tip).iter().map(|p| p.value() as u64).collect();
        if self.guard(|n| n.notify_lc(lcc::FETCH_HEADER_TX_TOKEN)).is_none() {
            return;
        }
        self.sync_shadow();
        // what was sent (left in the context for `collect`)
        let sent: Vec<(PeerIndex, Bytes)> = {
            let rec = self.node.i().nc_lc.rec.lock().unwrap();
            rec.sent.iter().map(|(_, p, d)| (*p, d.clone())).collect()
        };
        let (mut hs, mut ts) = (Vec::new(), Vec::new());
        let (mut cand_h, mut cand_t) = (Vec::new(), Vec::new());
        for (p, d) in sent {
            if let Ok(m) = packed::LightClientMessageReader::from_compatible_slice(&d) {
                match m.to_enum() {
                    packed::LightClientMessageUnionReader::GetBlocksProof(r) => {
                        let ids: Vec<u64> = r.block_hashes().iter().map(|h| self.hid(&h.to_entity())).collect();
                        cand_h.extend(ids.iter().cloned());
                        hs.push(format!("{}:{}", p.value(), list(&ids)));
                    }
                    packed::LightClientMessageUnionReader::GetTransactionsProof(r) => {
                        let ids: Vec<u64> = r.tx_hashes().iter().map(|h| self.tid(&h.to_entity())).collect();
                        cand_t.extend(ids.iter().cloned());
                        ts.push(format!("{}:{}", p.value(), list(&ids)));
                    }
                    _ => {}
                }
            }
        }
        for e in &pre.fh {
            // (repaired variant: the timer does not consider the last state's own hash)
            if self.skip_tip && e.0 == tip_id {
                continue;
            }
            if !cand_h.contains(&e.0) {
                cand_h.push(e.0);
            }
        }
        for e in &pre.ft {
            if !cand_t.contains(&e.0) {
                cand_t.push(e.0);
            }
        }
        let post = self.snap();
        sink.op(
            &pre,
            format!("tick {} {} | {} | {} | {}", self.now, tip_id, nums(&best), nums(&cand_h), nums(&cand_t)),
            format!("sent H {} T {} || {}", hs.join(" "), ts.join(" "), post.dump()),
        );
        rep.count_op("fetch-tick");
        if !hs.is_empty() || !ts.is_empty() {
            rep.count_class("tick:sent");
            self.status_changed = true;
        }
    }

    /// the REFRESH timer
    fn refresh_tick(&mut self, sink: &mut Sink, rep: &mut Report) {
        self.collect(sink, rep);
        let pre = self.snap();
        let peers_tbl = std::sync::Arc::clone(&self.node.i().peers);
        let now = self.now;
        let mut state_to = Vec::new();
        for p in peers_tbl.get_peers_index() {
            let st = match peers_tbl.get_state(&p) {
                Some(s) => s,
                None => continue,
            };
            let when = match &st {
                PeerState::RequestFirstLastState { when_sent }
                | PeerState::RequestFirstLastStateProof { when_sent, .. }
                | PeerState::RequestNewLastState { when_sent, .. }
                | PeerState::RequestNewLastStateProof { when_sent, .. } => Some(*when_sent),
                _ => None,
            };
            let t1 = when.map(|w| now > w + MESSAGE_TIMEOUT).unwrap_or(false);
            let t2 = st.get_last_state().map(|l| now > l.update_ts() + MESSAGE_TIMEOUT).unwrap_or(false);
            let t3 = self.when_dl.get(&(p.value() as u64)).map(|w| now > *w + MESSAGE_TIMEOUT).unwrap_or(false);
            if t1 || t2 || t3 {
                state_to.push(p.value() as u64);
            }
        }
        if self.guard(|n| n.notify_lc(lcc::REFRESH_PEERS_TOKEN)).is_none() {
            return;
        }
        self.sync_shadow();
        let gone: Vec<u64> = {
            let rec = self.node.i().nc_lc.rec.lock().unwrap();
            rec.disconnected.iter().map(|p| p.value() as u64).collect()
        };
        let mut cands = gone.clone();
        for (p, _, _) in &pre.peers {
            if !cands.contains(p) {
                cands.push(*p);
            }
        }
        // a peer that has left a blocks / transactions proof request unanswered for more than
        // the message timeout is dropped by this tick whatever else it sent meanwhile (the record
        // of when a request was first seen is the harness's own)
        for (what, tbl) in [("blocks-proof", &self.when_b), ("transactions-proof", &self.when_t)] {
            for (p, (_, w)) in tbl.iter() {
                let still_there = peers_tbl.get_state(&PeerIndex::new(*p as usize)).is_some();
                if now > *w + MESSAGE_TIMEOUT && !gone.contains(p) && still_there && pre.peers.iter().any(|x| x.0 == *p) {
                    rep.violate(
                        &format!("C16|lost|unanswered-{}-request-never-times-out", what),
                        "a peer keeps a proof request unanswered beyond the message timeout and is not dropped by the refresh tick: the fetch stays in flight with it for ever",
                        vec![format!("history-seed {} len {}", sink.cur.0, sink.cur.1), format!("# peer {} request first seen at {} tick at {}", p, w, now)],
                    );
                }
            }
        }
        // so is a peer whose state-machine request, last state or block download is over-age
        for p in &state_to {
            if !gone.contains(p) && pre.peers.iter().any(|x| x.0 == *p) && peers_tbl.get_state(&PeerIndex::new(*p as usize)).is_some() {
                rep.violate(
                    "C16|lost|peer-with-an-over-age-timer-is-not-dropped",
                    "a peer whose last state, state-machine request or block download is older than the message timeout is not dropped by the refresh tick: what it was asked for stays in flight with it",
                    vec![format!("history-seed {} len {}", sink.cur.0, sink.cur.1), format!("# peer {} tick at {}", p, now)],
                );
            }
        }
        let post = self.snap();
        sink.op(
            &pre,
            format!("refresh {} | {} | {}", now, nums(&cands), nums(&state_to)),
            format!("gone {} || {}", list(&gone), post.dump()),
        );
        rep.count_op("refresh-tick");
        if !gone.is_empty() {
            rep.count_class("refresh:timed-out");
        }
    }

    /// the other timers (not modelled)
    fn other_ticks(&mut self) {
        use crate::protocols::filter_verif_exports as f;
        self.node.im().filter.last_ask_time.write().unwrap().take();
        let _ = self.guard(|n| {
            n.notify_lc(lcc::GET_IDLE_BLOCKS_TOKEN);
            n.notify_filter(f::GET_BLOCK_FILTER_CHECK_POINTS_TOKEN);
            n.notify_filter(f::GET_BLOCK_FILTER_HASHES_TOKEN);
            n.notify_filter(f::GET_BLOCK_FILTERS_TOKEN);
        });
        self.sync_shadow();
    }

    fn new_ban(&self, nc: &std::sync::Arc<super::env::MockContext>, from: PeerIndex, before: usize) -> Option<String> {
        let rec = nc.rec.lock().unwrap();
        rec.banned.iter().skip(before).find(|b| b.0 == from).map(|b| ban_code(&b.2))
    }

    /// deliver a message; the three modelled kinds also go through the model.  `label`: the
    /// mutation applied to it ("" = honest)
    fn deliver(&mut self, from: PeerIndex, protocol: ProtocolId, data: Bytes, label: &str, sink: &mut Sink, rep: &mut Report) {
        if self.aborted.is_some() {
            return;
        }
        let lc = SupportProtocols::LightClient.protocol_id();
        let sy = SupportProtocols::Sync.protocol_id();
        if protocol == lc {
            let parsed = packed::LightClientMessageReader::from_compatible_slice(&data).ok().map(|m| m.to_enum());
            match parsed {
                Some(packed::LightClientMessageUnionReader::SendBlocksProof(r)) => {
                    let raw = r.as_slice().to_vec();
                    return self.deliver_bp(from, data.clone(), &raw, label, sink, rep);
                }
                Some(packed::LightClientMessageUnionReader::SendTransactionsProof(r)) => {
                    let raw = r.as_slice().to_vec();
                    return self.deliver_tp(from, data.clone(), &raw, label, sink, rep);
                }
                _ => {}
            }
        } else if protocol == sy {
            let parsed = packed::SyncMessageReader::from_compatible_slice(&data).ok().map(|m| m.to_enum());
            if let Some(packed::SyncMessageUnionReader::SendBlock(r)) = parsed {
                let block = r.to_entity().block();
                return self.deliver_block(from, data.clone(), block, label, sink, rep);
            }
        }
        let _ = self.guard(|n| n.deliver(from, protocol, data));
        self.sync_shadow();
    }

    fn request_of(&self, from: PeerIndex) -> (Option<(Byte32, Vec<Byte32>)>, Option<(Byte32, Vec<Byte32>)>) {
        match self.node.i().peers.get_peer(&from) {
            Some(p) => (
                p.get_blocks_proof_request().map(|r| (r.last_hash(), r.block_hashes().iter().map(|h| h.pack()).collect())),
                p.get_txs_proof_request().map(|r| (r.last_hash(), r.tx_hashes().iter().map(|h| h.pack()).collect())),
            ),
            None => (None, None),
        }
    }

    fn matches(req: &[Byte32], recv: &[Byte32], miss: &[Byte32]) -> bool {
        req.len() == recv.len() + miss.len() && req.iter().all(|h| recv.contains(h) || miss.contains(h))
    }

    fn deliver_bp(&mut self, from: PeerIndex, data: Bytes, raw: &[u8], label: &str, sink: &mut Sink, rep: &mut Report) {
        let r = packed::SendBlocksProofReader::from_compatible_slice(raw).expect("checked");
        let last: VerifiableHeader = r.last_header().to_entity().into();
        let last_hash = last.header().hash();
        let headers: Vec<HeaderView> = r.headers().iter().map(|h| h.to_entity().into_view()).collect();
        let missing: Vec<Byte32> = r.missing_block_hashes().to_entity().into_iter().collect();
        let v1 = r.count_extra_fields() >= 2;
        let (v1wf, uncles, exts): (bool, Vec<Byte32>, Vec<Option<packed::Bytes>>) = if v1 {
            match packed::SendBlocksProofV1Reader::from_compatible_slice(raw) {
                Ok(m) => (
                    true,
                    m.blocks_uncles_hash().iter().map(|u| u.to_entity()).collect(),
                    m.blocks_extension().iter().map(|e| e.to_entity().to_opt()).collect(),
                ),
                Err(_) => (false, vec![], vec![]),
            }
        } else {
            (true, vec![], vec![])
        };
        let extra_ok = !v1 || !v1wf || verify_extra_hash(&headers, &uncles, &exts).is_ok();
        let epoch = self.node.i().lc.mmr_activated_epoch();
        let mmr_ok = catch(|| verify_mmr_proof(epoch, &last, r.proof(), headers.iter()).is_ok()).unwrap_or(false);
        let engine = self.node.consensus.pow_engine();
        let pow_ok = headers.iter().all(|h| engine.verify(&h.data()));
        let (req, _) = self.request_of(from);
        let recv: Vec<Byte32> = headers.iter().map(|h| h.hash()).collect();
        let other_last = req.as_ref().map(|q| q.0 != last_hash).unwrap_or(false);
        let empty = r.proof().is_empty() && headers.is_empty() && missing.is_empty();
        if !label.is_empty() {
            if let Some(q) = &req {
                if !other_last && Self::matches(&q.1, &recv, &missing) {
                    self.passed_matching = true;
                    rep.count_class("mutation:passed-request-matching");
                }
            }
        }
        let last_id = self.hid(&last_hash);
        let hdr_tokens: Vec<String> = headers
            .iter()
            .enumerate()
            .map(|(i, h)| {
                self.max_number = self.max_number.max(h.number());
                let e = if v1 && v1wf && exts.len() == headers.len() { self.ext_id(&exts[i]) } else { None };
                format!("{} {} {}", self.hid(&h.hash()), h.number(), opt(&e))
            })
            .collect();
        let miss_ids: Vec<u64> = missing.iter().map(|h| self.hid(h)).collect();
        let pre = self.snap();
        let bans_before = self.node.i().nc_lc.rec.lock().unwrap().banned.len();
        if self.guard(|n| n.deliver(from, SupportProtocols::LightClient.protocol_id(), data)).is_none() {
            return;
        }
        self.sync_shadow();
        let code = self.new_ban(&self.node.i().nc_lc.clone(), from, bans_before).unwrap_or_else(|| "200".into());
        // the verdict of `process_last_state` is an input of the model: 200 unless this very
        // branch ended with another code
        let ls_code = if req.is_some() && other_last && empty { code.clone() } else { "200".into() };
        let post = self.snap();
        sink.op(
            &pre,
            format!(
                "bp {} {} {} {} {} {} {} {} {} | {} | {}",
                from.value(),
                last_id,
                r.proof().is_empty() as u8,
                v1 as u8,
                ls_code,
                pow_ok as u8,
                v1wf as u8,
                extra_ok as u8,
                mmr_ok as u8,
                hdr_tokens.join(" "),
                nums(&miss_ids)
            ),
            format!("code {} || {}", code, post.dump()),
        );
        rep.count_op(if v1 { "SendBlocksProofV1" } else { "SendBlocksProof" });
        rep.count_class(&format!("bp:{}", code));
        if code != "200" && req.is_some() {
            self.rejected_with_request = true;
        }
        if code == "200" {
            for m in &missing {
                self.reported_missing.insert(m.clone());
            }
        }
        self.after_delivery(&pre, &post, label, rep);
    }

    fn deliver_tp(&mut self, from: PeerIndex, data: Bytes, raw: &[u8], label: &str, sink: &mut Sink, rep: &mut Report) {
        let r = packed::SendTransactionsProofReader::from_compatible_slice(raw).expect("checked");
        let last: VerifiableHeader = r.last_header().to_entity().into();
        let last_hash = last.header().hash();
        let fbs: Vec<packed::FilteredBlock> = r.filtered_blocks().to_entity().into_iter().collect();
        let headers: Vec<HeaderView> = fbs.iter().map(|b| b.header().into_view()).collect();
        let missing: Vec<Byte32> = r.missing_tx_hashes().to_entity().into_iter().collect();
        let v1 = r.count_extra_fields() >= 2;
        let (v1wf, uncles, exts): (bool, Vec<Byte32>, Vec<Option<packed::Bytes>>) = if v1 {
            match packed::SendTransactionsProofV1Reader::from_compatible_slice(raw) {
                Ok(m) => (
                    true,
                    m.blocks_uncles_hash().iter().map(|u| u.to_entity()).collect(),
                    m.blocks_extension().iter().map(|e| e.to_entity().to_opt()).collect(),
                ),
                Err(_) => (false, vec![], vec![]),
            }
        } else {
            (true, vec![], vec![])
        };
        let extra_ok = !v1 || !v1wf || verify_extra_hash(&headers, &uncles, &exts).is_ok();
        let epoch = self.node.i().lc.mmr_activated_epoch();
        let mmr_ok = catch(|| verify_mmr_proof(epoch, &last, r.proof(), headers.iter()).is_ok()).unwrap_or(false);
        let engine = self.node.consensus.pow_engine();
        let pow_ok = headers.iter().all(|h| engine.verify(&h.data()));
        let (_, req) = self.request_of(from);
        let recv: Vec<Byte32> = fbs.iter().flat_map(|b| b.transactions().into_iter().map(|t| t.calc_tx_hash())).collect();
        let other_last = req.as_ref().map(|q| q.0 != last_hash).unwrap_or(false);
        let empty = r.proof().is_empty() && fbs.is_empty() && missing.is_empty();
        if !label.is_empty() {
            if let Some(q) = &req {
                if !other_last && Self::matches(&q.1, &recv, &missing) {
                    self.passed_matching = true;
                    rep.count_class("mutation:passed-request-matching");
                }
            }
        }
        let last_id = self.hid(&last_hash);
        let mut groups = Vec::new();
        for (i, b) in fbs.iter().enumerate() {
            let h = b.header().into_view();
            self.max_number = self.max_number.max(h.number());
            let hashes: Vec<Byte32> = b.transactions().into_iter().map(|t| t.calc_tx_hash()).collect();
            let proof = b.proof();
            let indices: Vec<u32> = proof.indices().into_iter().map(|v| v.unpack()).collect();
            let lemmas: Vec<Byte32> = proof.lemmas().into_iter().collect();
            let hashes2 = hashes.clone();
            let wr = b.witnesses_root();
            let root = h.transactions_root();
            // the Merkle verdict as the handler computes it: the guard of the repository, then the
            // library (what this verdict means is the theorem of the Cbmt layer, tied by `lcverif CBMT`)
            let mk = catch(move || {
                crate::protocols::light_client::verif_exports::required_lemmas_count(&indices) == Some(lemmas.len())
                    && MerkleProof::new(indices, lemmas).root(&hashes2).map(|raw| root == merkle_root(&[raw, wr])).unwrap_or(false)
            })
            .unwrap_or(false);
            let e = if v1 && v1wf && exts.len() == fbs.len() { self.ext_id(&exts[i]) } else { None };
            let ids: Vec<u64> = hashes.iter().map(|t| self.tid(t)).collect();
            groups.push(format!("{} {} {} {} {}", self.hid(&h.hash()), h.number(), opt(&e), mk as u8, nums(&ids)));
        }
        let miss_ids: Vec<u64> = missing.iter().map(|h| self.tid(h)).collect();
        let pre = self.snap();
        let bans_before = self.node.i().nc_lc.rec.lock().unwrap().banned.len();
        if self.guard(|n| n.deliver(from, SupportProtocols::LightClient.protocol_id(), data)).is_none() {
            return;
        }
        self.sync_shadow();
        let code = self.new_ban(&self.node.i().nc_lc.clone(), from, bans_before).unwrap_or_else(|| "200".into());
        let ls_code = if req.is_some() && other_last && empty { code.clone() } else { "200".into() };
        let post = self.snap();
        sink.op(
            &pre,
            format!(
                "tp {} {} {} {} {} {} {} {} {} | {} | {}",
                from.value(),
                last_id,
                r.proof().is_empty() as u8,
                v1 as u8,
                ls_code,
                pow_ok as u8,
                v1wf as u8,
                extra_ok as u8,
                mmr_ok as u8,
                nums(&miss_ids),
                groups.join(" | ")
            ),
            format!("code {} || {}", code, post.dump()),
        );
        rep.count_op(if v1 { "SendTransactionsProofV1" } else { "SendTransactionsProof" });
        rep.count_class(&format!("tp:{}", code));
        if code != "200" && req.is_some() {
            self.rejected_with_request = true;
        }
        if code == "200" {
            for m in &missing {
                self.reported_missing.insert(m.clone());
            }
        }
        self.after_delivery(&pre, &post, label, rep);
    }

    fn deliver_block(&mut self, from: PeerIndex, data: Bytes, block: packed::Block, label: &str, sink: &mut Sink, rep: &mut Report) {
        let hash = block.header().calc_header_hash();
        let id = self.hid(&hash);
        let body = self.body_abs(&block);
        let recs = records(&self.node);
        let rec_ids: Option<Vec<u64>> = recs.first().map(|r| r.2.iter().map(|(h, _)| self.hid(h)).collect());
        let next_ids: Option<Vec<(u64, bool)>> = recs.get(1).map(|r| r.2.iter().map(|(h, p)| (self.hid(h), *p)).collect());
        let pre = self.snap();
        let bans_before = self.node.i().nc_sync.rec.lock().unwrap().banned.len();
        if self.guard(|n| n.deliver(from, SupportProtocols::Sync.protocol_id(), data)).is_none() {
            return;
        }
        self.sync_shadow();
        let banned = self.new_ban(&self.node.i().nc_sync.clone(), from, bans_before).is_some();
        let recs_after = records(&self.node);
        let completed = recs.first().map(|r| !recs_after.iter().any(|x| x.0 == r.0)).unwrap_or(false);
        let post = self.snap();
        let this = Some(body.clone());
        let kept = !banned && post.mb.iter().any(|e| e.0 == id && e.2 == this);
        let accepted = kept || (completed && pre.mb.iter().any(|e| e.0 == id && e.1));
        let indexed: Vec<u64> = if completed {
            let mut v: Vec<(u64, u64)> = pre
                .mb
                .iter()
                .map(|e| (if e.0 == id { body.number } else { e.2.as_ref().map(|b| b.number).unwrap_or(0) }, e.0))
                .collect();
            v.sort();
            v.into_iter().map(|x| x.1).collect()
        } else {
            vec![]
        };
        // the request the filter pipeline issued for the next record (an environment event)
        let env: String = post
            .peers
            .iter()
            .find_map(|(p, b, _)| match (b, pre.peers.iter().find(|x| x.0 == *p).map(|x| x.1.is_none()).unwrap_or(false)) {
                (Some((last, true, hs, when)), true) => Some(format!(" | {} {} {} {}", p, last, when, nums(hs))),
                _ => None,
            })
            .unwrap_or_default();
        sink.op(
            &pre,
            format!(
                "block {} {} {} {} | {} | {} | {}{}",
                id,
                body.number,
                opt(&body.ext),
                body.body_ok as u8,
                body.txs.iter().map(|(t, x)| format!("{} {}", t, *x as u8)).collect::<Vec<_>>().join(" "),
                rec_ids.map(|v| nums(&v)).unwrap_or_else(|| "-".into()),
                next_ids.map(|v| v.iter().map(|(h, p)| format!("{} {}", h, *p as u8)).collect::<Vec<_>>().join(" ")).unwrap_or_else(|| "-".into()),
                env
            ),
            format!("block {} {} {} || {}", accepted as u8, list(&indexed), banned as u8, post.dump()),
        );
        rep.count_op("SendBlock");
        rep.count_class(if completed { "block:completed-batch" } else if accepted { "block:kept" } else { "block:ignored" });
        if !label.is_empty() && accepted && !body.body_ok {
            if self.forged_body.is_none() {
                self.forged_body = Some(label.split(':').next().unwrap_or("").to_string());
            }
        }
        if !label.is_empty() && accepted {
            self.passed_matching = true;
            rep.count_class("mutation:passed-request-matching");
        }
        self.after_delivery(&pre, &post, label, rep);
    }

    /// did a mutated message change what the client trusts?
    fn after_delivery(&mut self, pre: &Snap, post: &Snap, label: &str, rep: &mut Report) {
        if label.is_empty() {
            return;
        }
        let proved = |s: &Snap| s.mb.iter().filter(|e| e.1).map(|e| e.0).collect::<BTreeSet<u64>>();
        let bodies = |s: &Snap| s.mb.iter().filter(|e| e.2.is_some()).map(|e| e.0).collect::<BTreeSet<u64>>();
        if pre.hdr != post.hdr || pre.num != post.num || pre.txr != post.txr || proved(pre) != proved(post) || bodies(pre) != bodies(post) {
            self.accepted_mutations.push(label.to_string());
            rep.count_class("mutation:changed-trusted-state");
        } else {
            rep.count_class("mutation:no-effect");
        }
    }
}
// ---- serving, histories, oracles

// ---- honest message parts for arbitrary block sets and the single-fault
// mutations

/// the parts of a blocks proof for `numbers` against block `last` (all honest)
fn bp_parts(chain: &SimChain, last: u64, numbers: &[u64], missing: Vec<Byte32>) -> Option<server::BlocksProof> {
    if numbers.iter().any(|n| *n >= last) {
        return None;
    }
    let proof = chain.try_mmr_proof(last, numbers).ok()?;
    Some(server::BlocksProof {
        last_header: chain.verifiable_header(last),
        proof,
        headers: numbers.iter().map(|n| chain.block(*n).data().header()).collect(),
        uncles_hashes: numbers.iter().map(|n| chain.block(*n).calc_uncles_hash()).collect(),
        extensions: numbers.iter().map(|n| Pack::pack(&chain.block(*n).extension())).collect(),
        missing,
    })
}

fn filtered_block(chain: &SimChain, number: u64, indices: &[usize]) -> Option<packed::FilteredBlock> {
    use ckb_types::utilities::CBMT;
    let block = chain.block(number);
    let proof = CBMT::build_merkle_proof(
        &block.transactions().iter().map(|tx| tx.hash()).collect::<Vec<_>>(),
        &indices.iter().map(|i| *i as u32).collect::<Vec<_>>(),
    )?;
    let txs: Vec<packed::Transaction> = indices.iter().map(|i| block.transaction(*i).expect("indexed").data()).collect();
    Some(
        packed::FilteredBlock::new_builder()
            .header(block.data().header())
            .witnesses_root(block.calc_witnesses_root())
            .transactions(txs.pack())
            .proof(
                packed::MerkleProof::new_builder()
                    .indices(proof.indices().to_owned().pack())
                    .lemmas(proof.lemmas().to_owned().pack())
                    .build(),
            )
            .build(),
    )
}

/// the parts of a transactions proof: (block number, indices of the transactions) per block
fn tp_parts(chain: &SimChain, last: u64, blocks: &[(u64, Vec<usize>)], missing: Vec<Byte32>) -> Option<server::TransactionsProof> {
    if blocks.iter().any(|b| b.0 >= last) {
        return None;
    }
    let numbers: Vec<u64> = blocks.iter().map(|b| b.0).collect();
    let proof = chain.try_mmr_proof(last, &numbers).ok()?;
    let mut fbs = Vec::new();
    for (n, idx) in blocks {
        fbs.push(filtered_block(chain, *n, idx)?);
    }
    Some(server::TransactionsProof {
        last_header: chain.verifiable_header(last),
        proof,
        filtered_blocks: fbs,
        uncles_hashes: numbers.iter().map(|n| chain.block(*n).calc_uncles_hash()).collect(),
        extensions: numbers.iter().map(|n| Pack::pack(&chain.block(*n).extension())).collect(),
        missing,
    })
}

fn bp_bytes(parts: &server::BlocksProof, v1: bool) -> Bytes {
    if v1 {
        server::light_client_message(parts.v1())
    } else {
        server::light_client_message(parts.v0())
    }
}
fn tp_bytes(parts: &server::TransactionsProof, v1: bool) -> Bytes {
    if v1 {
        server::light_client_message(parts.v1())
    } else {
        server::light_client_message(parts.v0())
    }
}

fn forged_tx(salt: u64) -> TransactionView {
    simchain::tx(&[], &[(script_of(1 + salt % N_SCRIPTS), None, 777_0000_0000 + salt, vec![])], 900_000 + salt)
}

fn forged_header(h: &HeaderView, salt: u64) -> HeaderView {
    h.as_advanced_builder().timestamp((h.timestamp() + 1 + salt % 5).pack()).build()
}

fn drop_last_digest(p: &packed::HeaderDigestVec) -> Option<packed::HeaderDigestVec> {
    let mut v: Vec<packed::HeaderDigest> = p.clone().into_iter().collect();
    v.pop()?;
    Some(packed::HeaderDigestVec::new_builder().set(v).build())
}

fn alter_bytes_opt(e: &packed::BytesOpt) -> packed::BytesOpt {
    let mut raw: Vec<u8> = e.to_opt().map(|b| b.raw_data().to_vec()).unwrap_or_default();
    if raw.is_empty() {
        raw = vec![7u8; 32];
    } else {
        raw[0] ^= 1;
    }
    packed::BytesOpt::new_builder().set(Some(raw.pack())).build()
}

fn flip(h: &Byte32) -> Byte32 {
    let mut b = h.as_slice().to_vec();
    b[0] ^= 1;
    Byte32::from_slice(&b).unwrap()
}

/// a verifiable header with the same header but another parent chain root
fn forged_last(chain: &SimChain, last: u64) -> packed::VerifiableHeader {
    let vh = chain.verifiable_header(last);
    let other = if last >= 2 { chain.chain_root(last - 2) } else { Default::default() };
    vh.as_builder().parent_chain_root(other).build()
}

/// `BpPrivateChain`: the requested blocks that are on `other`, proved against `other`'s tip
fn private_bp(other: &SimChain, req: &packed::GetBlocksProof, v1: bool) -> Option<(Bytes, String)> {
    let last = other.tip_number();
    if other.header(last).hash() == req.last_hash() {
        return None;
    }
    let mut numbers = Vec::new();
    let mut missing = Vec::new();
    for h in req.block_hashes().into_iter() {
        match other.number_of_hash(&h) {
            Some(n) if n < last => numbers.push(n),
            _ => missing.push(h),
        }
    }
    if numbers.is_empty() {
        return None;
    }
    let parts = bp_parts(other, last, &numbers, missing)?;
    Some((bp_bytes(&parts, v1), format!("BpPrivateChain: blocks {:?} proved against the tip {} of the other branch", numbers, last)))
}

/// `TpPrivateChain`: the requested transactions that are on `other`, proved against `other`'s tip
fn private_tp(other: &SimChain, req: &packed::GetTransactionsProof, v1: bool) -> Option<(Bytes, String)> {
    let last = other.tip_number();
    if other.header(last).hash() == req.last_hash() {
        return None;
    }
    let mut blocks: BTreeMap<u64, Vec<usize>> = BTreeMap::new();
    let mut missing = Vec::new();
    for h in req.tx_hashes().into_iter() {
        match other.tx_location(&h) {
            Some((n, i)) if n < last => blocks.entry(n).or_default().push(i),
            _ => missing.push(h),
        }
    }
    if blocks.is_empty() {
        return None;
    }
    let bl: Vec<(u64, Vec<usize>)> = blocks.into_iter().collect();
    let parts = tp_parts(other, last, &bl, missing)?;
    Some((tp_bytes(&parts, v1), format!("TpPrivateChain: transactions of blocks {:?} proved against the tip {} of the other branch", bl.iter().map(|b| b.0).collect::<Vec<_>>(), last)))
}

/// the mutated answer to a `GetBlocksProof`, `None`: the mutation does not apply to this request
fn mutate_bp(
    rng: &mut Rng,
    chain: &SimChain,
    req: &packed::GetBlocksProof,
    attack: Attack,
    v1: bool,
    forged: &HashMap<Byte32, HeaderView>,
) -> Option<(Bytes, String)> {
    let last = chain.number_of_hash(&req.last_hash())?;
    let hashes: Vec<Byte32> = req.block_hashes().into_iter().collect();
    let mut numbers: Vec<u64> = Vec::new();
    let mut missing: Vec<Byte32> = Vec::new();
    for h in &hashes {
        match chain.number_of_hash(h) {
            Some(n) if n < last => numbers.push(n),
            _ => missing.push(h.clone()),
        }
    }
    let other = |rng: &mut Rng, numbers: &[u64]| (1..last).filter(|n| !numbers.contains(n)).nth(rng.below(last.max(2) - 1) as usize % (last as usize).max(1));
    let mut v1 = v1;
    let mut note;
    let mut parts = bp_parts(chain, last, &numbers, missing.clone())?;
    match attack {
        Attack::BpSwapHeader => {
            if numbers.is_empty() {
                return None;
            }
            let j = rng.below(numbers.len() as u64) as usize;
            let k = other(rng, &numbers)?;
            parts.headers[j] = chain.block(k).data().header();
            note = format!("header of block {} replaced by block {} (proof untouched)", numbers[j], k);
        }
        Attack::BpSwapHeaderReproved => {
            if numbers.is_empty() {
                return None;
            }
            let j = rng.below(numbers.len() as u64) as usize;
            let k = other(rng, &numbers)?;
            let was = numbers[j];
            numbers[j] = k;
            parts = bp_parts(chain, last, &numbers, missing)?;
            note = format!("block {} instead of block {} with its own valid proof", k, was);
        }
        Attack::BpForgedHeader => {
            if numbers.is_empty() {
                return None;
            }
            let j = rng.below(numbers.len() as u64) as usize;
            parts.headers[j] = forged_header(&chain.header(numbers[j]), rng.next()).data();
            note = format!("header of block {} with another timestamp", numbers[j]);
        }
        Attack::BpOutside => {
            let k = other(rng, &numbers)?;
            numbers.push(k);
            parts = bp_parts(chain, last, &numbers, missing)?;
            note = format!("block {} added although not requested", k);
        }
        Attack::BpMissingExtended => {
            if numbers.is_empty() {
                return None;
            }
            let j = rng.below(numbers.len() as u64) as usize;
            let n = numbers.remove(j);
            missing.push(chain.header(n).hash());
            parts = bp_parts(chain, last, &numbers, missing)?;
            note = format!("block {} reported missing although it is on the chain", n);
        }
        Attack::BpMissingEmptied => {
            if !parts.missing.is_empty() {
                parts.missing.clear();
                note = "missing hashes left out".into();
            } else if numbers.len() >= 2 {
                numbers.pop();
                parts = bp_parts(chain, last, &numbers, vec![])?;
                note = "one requested block left out".into();
            } else {
                return None;
            }
        }
        Attack::BpDropProofItem => {
            parts.proof = drop_last_digest(&parts.proof)?;
            if numbers.is_empty() {
                return None;
            }
            note = "last proof item dropped".into();
        }
        Attack::BpOtherLastStateContent => {
            if last < 3 || numbers.is_empty() {
                return None;
            }
            parts.last_header = chain.verifiable_header(last - 1);
            note = format!("last state {} instead of {} with content", last - 1, last);
        }
        Attack::BpOtherLastStateEmpty => {
            let l2 = if chain.tip_number() != last { chain.tip_number() } else { last - 1 };
            if l2 == 0 {
                return None;
            }
            parts = bp_parts(chain, l2, &[], vec![])?;
            note = format!("empty answer for last state {} instead of {}", l2, last);
        }
        Attack::BpForgedLastHeader => {
            if numbers.is_empty() {
                return None;
            }
            parts.last_header = forged_last(chain, last);
            note = "requested last header with another parent chain root".into();
        }
        Attack::BpV1WrongExtension => {
            if numbers.is_empty() {
                return None;
            }
            v1 = true;
            let j = rng.below(numbers.len() as u64) as usize;
            parts.extensions[j] = alter_bytes_opt(&parts.extensions[j]);
            note = format!("extension of block {} altered", numbers[j]);
        }
        Attack::BpV1WrongUncles => {
            if numbers.is_empty() {
                return None;
            }
            v1 = true;
            let j = rng.below(numbers.len() as u64) as usize;
            parts.uncles_hashes[j] = flip(&parts.uncles_hashes[j]);
            note = format!("uncles hash of block {} altered", numbers[j]);
        }
        Attack::BpForgedRequested => {
            // a requested hash that is the hash of a forged header: serve it
            let j = parts.missing.iter().position(|h| forged.contains_key(h))?;
            let fh = forged.get(&parts.missing[j]).unwrap().clone();
            let n = fh.number();
            if n >= last || numbers.contains(&n) {
                return None;
            }
            let mut miss = parts.missing.clone();
            miss.remove(j);
            numbers.push(n);
            parts = bp_parts(chain, last, &numbers, miss)?;
            let k = parts.headers.len() - 1;
            parts.headers[k] = fh.data();
            note = format!("forged header at height {} served with the proof of the real block", n);
        }
        Attack::BpAnswerTwice => {
            // two requested blocks on the chain: the first proved and reported missing, the last
            // left out
            if numbers.len() < 2 {
                return None;
            }
            let first = chain.header(numbers[0]).hash();
            let left_out = numbers.pop().unwrap();
            let mut miss = missing.clone();
            miss.push(first);
            parts = bp_parts(chain, last, &numbers, miss)?;
            note = format!("block {} proved and reported missing, block {} not answered", numbers[0], left_out);
        }
        Attack::BpForgedTwin => {
            // a requested hash that is the hash of a forged header whose number is the number of
            // a requested block of the chain: serve both, the forged one second
            let j = parts.missing.iter().position(|h| forged.get(h).map(|f| numbers.contains(&f.number())).unwrap_or(false))?;
            let fh = forged.get(&parts.missing[j]).unwrap().clone();
            let n = fh.number();
            let mut miss = parts.missing.clone();
            miss.remove(j);
            parts = bp_parts(chain, last, &numbers, miss)?;
            let k = numbers.iter().position(|x| *x == n)?;
            // right behind the real block, or behind other headers (the MMR library sorts the
            // leaves before it drops all but one per position: the two need not be neighbours)
            let at = if numbers.len() >= 2 && (n + hashes.len() as u64) % 2 == 0 { parts.headers.len() } else { k + 1 };
            parts.headers.insert(at, fh.data());
            let u = parts.uncles_hashes[k].clone();
            parts.uncles_hashes.insert(at, u);
            let e = parts.extensions[k].clone();
            parts.extensions.insert(at, e);
            note = format!("forged header at height {} served {} the real block of that height", n, if at == k + 1 { "right after" } else { "some headers after" });
        }
        _ => return None,
    }
    note = format!("{:?}: {}", attack, note);
    Some((bp_bytes(&parts, v1), note))
}

fn mutate_tp(
    rng: &mut Rng,
    chain: &SimChain,
    req: &packed::GetTransactionsProof,
    attack: Attack,
    v1: bool,
    forged: &HashMap<Byte32, TransactionView>,
) -> Option<(Bytes, String)> {
    let last = chain.number_of_hash(&req.last_hash())?;
    let hashes: Vec<Byte32> = req.tx_hashes().into_iter().collect();
    let mut blocks: BTreeMap<u64, Vec<usize>> = BTreeMap::new();
    let mut missing: Vec<Byte32> = Vec::new();
    for h in &hashes {
        match chain.tx_location(h) {
            Some((n, i)) if n < last => blocks.entry(n).or_default().push(i),
            _ => missing.push(h.clone()),
        }
    }
    let mut bl: Vec<(u64, Vec<usize>)> = blocks.into_iter().collect();
    let mut v1 = v1;
    let mut note;
    let mut parts = tp_parts(chain, last, &bl, missing.clone())?;
    let rebuild_fb = |fb: &packed::FilteredBlock, f: &dyn Fn(packed::FilteredBlockBuilder) -> packed::FilteredBlockBuilder| f(fb.clone().as_builder()).build();
    match attack {
        Attack::TpForgedRequested => {
            let j = parts.missing.iter().position(|h| forged.contains_key(h))?;
            let ft = forged.get(&parts.missing[j]).unwrap().clone();
            let mut miss = parts.missing.clone();
            miss.remove(j);
            // claim it is the second transaction of a block with at least two (else the first)
            let n = (1..last).rev().find(|n| chain.block(*n).transactions().len() >= 2 && !bl.iter().any(|b| b.0 == *n)).or_else(|| (1..last).rev().find(|n| !bl.iter().any(|b| b.0 == *n)))?;
            let idx = if chain.block(n).transactions().len() >= 2 { 1 } else { 0 };
            bl.push((n, vec![idx]));
            parts = tp_parts(chain, last, &bl, miss)?;
            let k = parts.filtered_blocks.len() - 1;
            parts.filtered_blocks[k] = rebuild_fb(&parts.filtered_blocks[k], &|b| b.transactions(vec![ft.data()].pack()));
            note = format!("made-up transaction claimed in block {} with the Merkle path of its transaction {}", n, idx);
        }
        Attack::TpWitnessesRoot => {
            if bl.is_empty() {
                return None;
            }
            let j = rng.below(bl.len() as u64) as usize;
            let wr = flip(&parts.filtered_blocks[j].witnesses_root());
            parts.filtered_blocks[j] = rebuild_fb(&parts.filtered_blocks[j], &|b| b.witnesses_root(wr.clone()));
            note = format!("witnesses root of block {} altered", bl[j].0);
        }
        Attack::TpWrongBlock => {
            if bl.is_empty() {
                return None;
            }
            let j = rng.below(bl.len() as u64) as usize;
            let k = (1..last).filter(|n| !bl.iter().any(|b| b.0 == *n)).nth(rng.below(last) as usize % (last as usize))?;
            let fb = parts.filtered_blocks[j].clone();
            let was = bl[j].0;
            bl[j] = (k, vec![0]);
            parts = tp_parts(chain, last, &bl, missing)?;
            let hk = chain.block(k).data().header();
            parts.filtered_blocks[j] = rebuild_fb(&fb, &|b| b.header(hk.clone()));
            note = format!("transactions of block {} under the header of block {}", was, k);
        }
        Attack::TpReplaceTx => {
            if bl.is_empty() {
                return None;
            }
            let j = rng.below(bl.len() as u64) as usize;
            let other = forged_tx(rng.next() % 1000);
            parts.filtered_blocks[j] = rebuild_fb(&parts.filtered_blocks[j], &|b| b.transactions(vec![other.data()].pack()));
            note = format!("transaction of block {} replaced by a made-up one", bl[j].0);
        }
        Attack::TpDropProofItem => {
            if bl.is_empty() {
                return None;
            }
            parts.proof = drop_last_digest(&parts.proof)?;
            note = "last MMR proof item dropped".into();
        }
        Attack::TpDropLemma => {
            let j = (0..bl.len()).find(|j| !parts.filtered_blocks[*j].proof().lemmas().is_empty())?;
            let p = parts.filtered_blocks[j].proof();
            let mut lem: Vec<Byte32> = p.lemmas().into_iter().collect();
            lem.pop();
            let p2 = p.as_builder().lemmas(lem.pack()).build();
            parts.filtered_blocks[j] = rebuild_fb(&parts.filtered_blocks[j], &|b| b.proof(p2.clone()));
            note = format!("last Merkle lemma of block {} dropped", bl[j].0);
        }
        Attack::TpAnswerTwice => {
            // two requested transactions on the chain: the first proved and reported missing, the
            // second left out
            let total: usize = bl.iter().map(|b| b.1.len()).sum();
            if total < 2 {
                return None;
            }
            let (n0, idx0) = bl[0].clone();
            let first = chain.block(n0).transaction(idx0[0]).unwrap().hash();
            // drop one other requested transaction from the answer
            let mut bl2 = bl.clone();
            if bl2[0].1.len() >= 2 {
                bl2[0].1.pop();
            } else {
                bl2.pop();
            }
            let mut miss = missing.clone();
            miss.push(first);
            parts = tp_parts(chain, last, &bl2, miss)?;
            note = format!("a transaction of block {} proved and reported missing, another requested one not answered", n0);
        }
        Attack::TpFakeAmongAll => {
            // a requested made-up transaction and a block all of whose transactions are requested
            if std::env::var("VERIF_DEBUG_FAKE").is_ok() {
                eprintln!("TpFakeAmongAll: missing {} forged-in-missing {:?} blocks {:?}", parts.missing.len(), parts.missing.iter().position(|h| forged.contains_key(h)), bl.iter().map(|(n, idx)| (*n, idx.len(), chain.block(*n).transactions().len())).collect::<Vec<_>>());
            }
            let j = parts.missing.iter().position(|h| forged.contains_key(h))?;
            let ft = forged.get(&parts.missing[j]).unwrap().clone();
            let k = bl.iter().position(|(n, idx)| idx.len() == chain.block(*n).transactions().len())?;
            let (n, _) = bl[k].clone();
            let count = chain.block(n).transactions().len();
            let all: Vec<usize> = (0..count).collect();
            let mut miss = parts.missing.clone();
            miss.remove(j);
            let mut bl2 = bl.clone();
            bl2[k] = (n, all.clone());
            parts = tp_parts(chain, last, &bl2, miss)?;
            // the library sorts the hashes and pairs them with the indices as given
            let mut entries: Vec<(Byte32, u32, packed::Transaction)> = all
                .iter()
                .map(|i| {
                    let t = chain.block(n).transaction(*i).unwrap();
                    (t.hash(), (count - 1 + i) as u32, t.data())
                })
                .collect();
            entries.push((ft.hash(), (2 * count + 3) as u32, ft.data()));
            entries.sort_by(|a, b| a.0.as_slice().cmp(b.0.as_slice()));
            let ind: Vec<packed::Uint32> = entries.iter().map(|e| e.1.pack()).collect();
            let txs: Vec<packed::Transaction> = entries.iter().map(|e| e.2.clone()).collect();
            let p2 = packed::MerkleProof::new_builder().indices(packed::Uint32Vec::new_builder().set(ind).build()).build();
            parts.filtered_blocks[k] = rebuild_fb(&parts.filtered_blocks[k], &|b| b.proof(p2.clone()).transactions(txs.clone().pack()));
            note = format!("all {} transactions of block {} and a made-up one under the index {}", count, n, 2 * count + 3);
        }
        Attack::TpIndexMax => {
            // at least two transactions under one header
            let total: usize = bl.iter().map(|b| b.1.len()).sum();
            if total < 2 {
                return None;
            }
            let (n0, _) = bl[0].clone();
            let mut txs: Vec<packed::Transaction> = Vec::new();
            for (n, idx) in &bl {
                for i in idx {
                    txs.push(chain.block(*n).transaction(*i).unwrap().data());
                }
            }
            parts = tp_parts(chain, last, &bl[..1], missing.clone())?;
            let p = parts.filtered_blocks[0].proof();
            let mut ind: Vec<packed::Uint32> = vec![u32::MAX.pack()];
            for k in 1..txs.len() {
                ind.push((k as u32).pack());
            }
            let p2 = p.as_builder().indices(packed::Uint32Vec::new_builder().set(ind).build()).build();
            parts.filtered_blocks[0] = rebuild_fb(&parts.filtered_blocks[0], &|b| b.proof(p2.clone()).transactions(txs.clone().pack()));
            note = format!("{} transactions under the header of block {} with the Merkle index 2^32 - 1", txs.len(), n0);
        }
        Attack::TpOtherLastStateContent => {
            if last < 3 || bl.is_empty() {
                return None;
            }
            parts.last_header = chain.verifiable_header(last - 1);
            note = format!("last state {} instead of {} with content", last - 1, last);
        }
        Attack::TpOtherLastStateEmpty => {
            let l2 = if chain.tip_number() != last { chain.tip_number() } else { last - 1 };
            if l2 == 0 {
                return None;
            }
            parts = tp_parts(chain, l2, &[], vec![])?;
            note = format!("empty answer for last state {} instead of {}", l2, last);
        }
        Attack::TpMissingExtended => {
            if bl.is_empty() {
                return None;
            }
            let j = rng.below(bl.len() as u64) as usize;
            let (n, idx) = bl.remove(j);
            for i in idx {
                missing.push(chain.block(n).transaction(i).unwrap().hash());
            }
            parts = tp_parts(chain, last, &bl, missing)?;
            note = format!("transactions of block {} reported missing although they are on the chain", n);
        }
        Attack::TpMissingEmptied => {
            if !parts.missing.is_empty() {
                parts.missing.clear();
                note = "missing hashes left out".into();
            } else if bl.len() >= 2 {
                bl.pop();
                parts = tp_parts(chain, last, &bl, vec![])?;
                note = "one block of requested transactions left out".into();
            } else {
                return None;
            }
        }
        Attack::TpV1WrongExtension => {
            if bl.is_empty() {
                return None;
            }
            v1 = true;
            let j = rng.below(bl.len() as u64) as usize;
            parts.extensions[j] = alter_bytes_opt(&parts.extensions[j]);
            note = format!("extension of block {} altered", bl[j].0);
        }
        _ => return None,
    }
    note = format!("{:?}: {}", attack, note);
    Some((tp_bytes(&parts, v1), note))
}

/// right header, other body
fn mutate_block(rng: &mut Rng, block: &BlockView, attack: Attack) -> Option<(packed::Block, String)> {
    let salt = rng.next() % 1000;
    let mut txs: Vec<TransactionView> = block.transactions();
    let mut ext = block.extension();
    let note;
    match attack {
        Attack::BlkTxAdded => {
            txs.push(forged_tx(salt));
            note = "a made-up transaction added";
        }
        Attack::BlkTxRemoved => {
            if txs.len() < 2 {
                return None;
            }
            txs.pop();
            note = "the last transaction removed";
        }
        Attack::BlkTxReplaced => {
            if txs.len() < 2 {
                return None;
            }
            txs.pop();
            txs.push(forged_tx(salt));
            note = "the last transaction replaced by a made-up one";
        }
        Attack::BlkExtensionAltered => {
            let mut raw = ext.as_ref().map(|e| e.raw_data().to_vec()).unwrap_or_else(|| vec![0u8; 32]);
            raw[0] ^= 1;
            ext = Some(raw.pack());
            note = "extension altered";
        }
        _ => return None,
    }
    let b = BlockView::new_advanced_builder()
        .header(block.header())
        .transactions(txs)
        .uncles(block.uncles().into_iter().collect::<Vec<_>>())
        .proposals(block.data().proposals().into_iter().collect::<Vec<_>>())
        .extension(ext)
        .build_unchecked();
    assert_eq!(b.hash(), block.hash(), "the mutated block keeps its header");
    Some((b.data(), format!("{:?}: block {}: {}", attack, block.number(), note)))
}

/// a self-consistent block that is on no chain: the body of `block` with a made-up transaction
/// (paying to a registered script) added / instead of the last one, the header rebuilt so that it
/// commits to this body; the hashes of its made-up transactions
pub(crate) fn forged_block(rng: &mut Rng, block: &BlockView) -> (BlockView, Vec<Byte32>, &'static str) {
    let salt = rng.next() % 1000;
    let mut txs: Vec<TransactionView> = block.transactions();
    let note = if txs.len() >= 2 && rng.chance(1, 3) {
        txs.pop();
        "its last transaction replaced by a made-up one"
    } else {
        "a made-up transaction added"
    };
    let made_up = forged_tx(salt);
    let made_up_hash = made_up.hash();
    txs.push(made_up);
    let b = BlockView::new_advanced_builder()
        .header(block.header())
        .transactions(txs)
        .uncles(block.uncles().into_iter().collect::<Vec<_>>())
        .proposals(block.data().proposals().into_iter().collect::<Vec<_>>())
        .extension(block.extension())
        .build();
    assert_ne!(b.hash(), block.hash(), "the forged block has its own hash");
    assert!(body_ok(&b.data()), "the forged block is self-consistent");
    (b, vec![made_up_hash], note)
}

#[derive(Clone, Debug)]
enum Target {
    OnChain,
    Unknown,
    OtherBranch,
    Tip,
    Beyond,
    Forged,
}

#[derive(Clone, Debug)]
enum Step {
    Sync(u32),
    FetchHeader(Target),
    FetchTx(Target),
    Poll,
    FetchTick,
    Attack(Attack),
    Timeout,
    Disconnect,
    Switch,
    Grow,
}

const PEERS: [usize; 3] = [1, 2, 3];

struct Hist {
    violations: Vec<(String, String, String)>,
}

impl<'w> Ctx<'w> {
    fn chain(&self) -> &SimChain {
        &self.chains[self.serving]
    }

    fn sopts(&self) -> ServerOpts {
        let mut o = ServerOpts::default();
        o.v1 = self.v1;
        o
    }

    fn stored_tip_number(&self) -> u64 {
        self.node.i().storage.get_tip_header().raw().number().unpack()
    }

    /// the stored tip number, as far as the serving chain has such a block
    fn usable_tip(&self) -> u64 {
        self.stored_tip_number().min(self.chain().tip_number())
    }

    /// the index of the branch the stored tip is on (the serving one first)
    fn tip_branch(&self) -> Option<usize> {
        let tip = self.node.i().storage.get_tip_header().calc_header_hash();
        if self.chains[self.serving].number_of_hash(&tip).is_some() {
            return Some(self.serving);
        }
        (0..self.chains.len()).rev().find(|i| self.chains[*i].number_of_hash(&tip).is_some())
    }

    fn grow(&mut self, n: u64) {
        let s = self.serving;
        for _ in 0..n {
            self.chains[s].append_simple(1);
            let b = self.chains[s].tip().clone();
            self.know_h(&b.hash());
            for t in b.transactions() {
                self.know_t(&t.hash());
            }
            self.max_number = self.max_number.max(b.number());
        }
    }

    /// `BlkForgedMatchedMissing`, first step: the honest `BlockFilters` answer (possibly shorter
    /// than the server's batch) with the hash of one matching block replaced by the hash of a
    /// forged block; the filters stay as they are, so the batch passes the filter hash check.
    /// `None`: fewer than two blocks of the answer touch a registered script (the proof request
    /// has to hold a real block beside the forged hash)
    fn forge_matched(&mut self, rng: &mut Rng, req: &packed::GetBlockFilters) -> Option<(Bytes, ForgedMatch, String)> {
        let honest = server::get_block_filters_batch(self.chain(), req, self.sopts().filters_batch)?;
        let start: u64 = honest.start_number().unpack();
        let mut hashes: Vec<Byte32> = honest.block_hashes().into_iter().collect();
        let mut filters: Vec<packed::Bytes> = honest.filters().into_iter().collect();
        let on_serving = &self.branches[self.serving.min(self.branches.len() - 1)];
        let touching: Vec<usize> = (0..hashes.len()).filter(|i| on_serving.facts.iter().any(|f| f.1 == start + *i as u64)).collect();
        if touching.len() < 2 {
            return None;
        }
        // a shorter batch now and then: the rest arrives as later records
        if rng.chance(1, 2) {
            let keep = touching[rng.range(1, touching.len() as u64 - 1) as usize] + 1;
            hashes.truncate(keep);
            filters.truncate(keep);
        }
        let touching: Vec<usize> = touching.into_iter().filter(|i| *i < hashes.len()).collect();
        let j = *rng.pick(&touching);
        let real = self.chain().block(start + j as u64).clone();
        let (forged, made_up, how) = forged_block(rng, &real);
        hashes[j] = forged.hash();
        let n = hashes.len();
        let content = packed::BlockFilters::new_builder().start_number(start.pack()).block_hashes(hashes.pack()).filters(filters.pack()).build();
        let bytes = packed::BlockFilterMessage::new_builder().set(content).build().as_bytes();
        let note = format!(
            "{:?}: BlockFilters from {} ({} honest filters): the hash of the matching block {} replaced by the hash {} of a forged block ({}, header rebuilt)",
            Attack::BlkForgedMatchedMissing,
            start,
            n,
            start + j as u64,
            short(&forged.hash()),
            how
        );
        self.know_h(&forged.hash());
        self.max_number = self.max_number.max(forged.number());
        for t in forged.transactions() {
            self.know_t(&t.hash());
        }
        for t in forged.transactions() {
            if made_up.contains(&t.hash()) {
                self.forged_t.insert(t.hash(), t.clone());
            }
        }
        self.forged_h.insert(forged.hash(), forged.header());
        Some((bytes, ForgedMatch { hash: forged.hash(), block: forged.data(), txs: made_up, sent: 0 }, note))
    }

    /// does a stored record of matched blocks / the in-memory map hold this hash?
    fn in_matched(&self, h: &Byte32) -> (bool, bool) {
        let rec = records(&self.node).iter().any(|r| r.2.iter().any(|e| e.0 == *h));
        let mem = self.node.i().peers.matched_blocks().read().unwrap().contains_key(&h256(h));
        (rec, mem)
    }

    /// serve one request of the client; `attack`: the mutation to apply to the first answer it fits
    fn serve(
        &mut self,
        rng: &mut Rng,
        protocol: ProtocolId,
        peer: PeerIndex,
        data: Bytes,
        attack: &mut Option<Attack>,
        sink: &mut Sink,
        rep: &mut Report,
    ) {
        let lc = SupportProtocols::LightClient.protocol_id();
        let sy = SupportProtocols::Sync.protocol_id();
        let v1 = self.v1;
        let fl = SupportProtocols::Filter.protocol_id();
        if *attack == Some(Attack::BlkForgedMatchedMissing) && protocol == fl {
            let parsed = packed::BlockFilterMessageReader::from_compatible_slice(&data).ok().map(|m| m.to_enum());
            if let Some(packed::BlockFilterMessageUnionReader::GetBlockFilters(r)) = parsed {
                let req = r.to_entity();
                if let Some((bytes, fm, note)) = self.forge_matched(rng, &req) {
                    *attack = None;
                    self.last_attack = format!("{:?}", Attack::BlkForgedMatchedMissing);
                    rep.sample(&note);
                    let hash = fm.hash.clone();
                    self.forged_match = Some(fm);
                    self.deliver(peer, fl, bytes, &note, sink, rep);
                    let (rec, mem) = self.in_matched(&hash);
                    rep.count_class(if mem {
                        "forged-match:hash-in-matched-map"
                    } else if rec {
                        "forged-match:hash-in-later-record"
                    } else {
                        "forged-match:batch-not-taken"
                    });
                    return;
                }
            }
        }
        // `BlkForgedMatchedMissing`, last step: once a proof request that holds the forged hash
        // got its honest answer (the hash is missing), the liar sends the forged block
        let follow_up: Option<packed::Block> = match &self.forged_match {
            Some(fm) if protocol == lc && fm.sent < 3 => {
                let parsed = packed::LightClientMessageReader::from_compatible_slice(&data).ok().map(|m| m.to_enum());
                match parsed {
                    Some(packed::LightClientMessageUnionReader::GetBlocksProof(r)) if r.block_hashes().iter().any(|h| h.as_slice() == fm.hash.as_slice()) => {
                        Some(fm.block.clone())
                    }
                    _ => None,
                }
            }
            _ => None,
        };
        if let Some(a) = *attack {
            if protocol == lc {
                let parsed = packed::LightClientMessageReader::from_compatible_slice(&data).ok().map(|m| m.to_enum());
                match parsed {
                    Some(packed::LightClientMessageUnionReader::GetBlocksProof(r)) if a.is_bp() => {
                        let req = r.to_entity();
                        if a == Attack::BpFromOtherPeer {
                            if let Ok(parts) = server::get_blocks_proof(self.chain(), &req, &self.sopts()) {
                                let other = PEERS.iter().map(|p| PeerIndex::new(*p)).find(|p| *p != peer && self.node.i().peers.get_peer(p).is_some());
                                if let Some(o) = other {
                                    *attack = None;
                                    let label = format!("{:?}: the answer to peer {} delivered by peer {}", a, peer, o);
                                    self.last_attack = format!("{:?}", a);
                                    self.deliver(o, lc, bp_bytes(&parts, v1), &label, sink, rep);
                                    self.deliver(peer, lc, bp_bytes(&parts, v1), "", sink, rep);
                                    return;
                                }
                            }
                        } else if let Some((bytes, note)) = if a == Attack::BpPrivateChain && self.chains.len() >= 2 { private_bp(&self.chains[1 - self.serving.min(1)], &req, v1) } else { mutate_bp(rng, &self.chains[self.serving], &req, a, v1, &self.forged_h) } {
                            *attack = None;
                            self.last_attack = format!("{:?}", a);
                            rep.sample(&note);
                            self.deliver(peer, lc, bytes, &note, sink, rep);
                            return;
                        }
                    }
                    Some(packed::LightClientMessageUnionReader::GetTransactionsProof(r)) if a.is_tp() => {
                        let req = r.to_entity();
                        if a == Attack::TpFromOtherPeer {
                            if let Ok(parts) = server::get_transactions_proof(self.chain(), &req, &self.sopts()) {
                                let other = PEERS.iter().map(|p| PeerIndex::new(*p)).find(|p| *p != peer && self.node.i().peers.get_peer(p).is_some());
                                if let Some(o) = other {
                                    *attack = None;
                                    let label = format!("{:?}: the answer to peer {} delivered by peer {}", a, peer, o);
                                    self.last_attack = format!("{:?}", a);
                                    self.deliver(o, lc, tp_bytes(&parts, v1), &label, sink, rep);
                                    self.deliver(peer, lc, tp_bytes(&parts, v1), "", sink, rep);
                                    return;
                                }
                            }
                        } else if let Some((bytes, note)) = if a == Attack::TpPrivateChain && self.chains.len() >= 2 { private_tp(&self.chains[1 - self.serving.min(1)], &req, v1) } else { mutate_tp(rng, &self.chains[self.serving], &req, a, v1, &self.forged_t) } {
                            *attack = None;
                            self.last_attack = format!("{:?}", a);
                            rep.sample(&note);
                            self.deliver(peer, lc, bytes, &note, sink, rep);
                            return;
                        }
                    }
                    _ => {}
                }
            } else if protocol == sy && a.is_blk() && a != Attack::BlkUnasked && a != Attack::BlkUnaskedForged && a != Attack::BlkForgedMatchedMissing {
                let parsed = packed::SyncMessageReader::from_compatible_slice(&data).ok().map(|m| m.to_enum());
                if let Some(packed::SyncMessageUnionReader::GetBlocks(r)) = parsed {
                    let hashes: Vec<Byte32> = r.block_hashes().to_entity().into_iter().collect();
                    let mut done = false;
                    for h in hashes {
                        let block = match self.chain().number_of_hash(&h) {
                            Some(n) => self.chain().block(n).clone(),
                            None => continue,
                        };
                        if !done {
                            if let Some((b, note)) = mutate_block(rng, &block, a) {
                                done = true;
                                *attack = None;
                                self.last_attack = format!("{:?}", a);
                                rep.sample(&note);
                                for t in b.transactions().into_iter() {
                                    let th = t.calc_tx_hash();
                                    if self.chains.iter().all(|c| c.tx_location(&th).is_none()) {
                                        self.forged_t.insert(th.clone(), t.into_view());
                                    }
                                    self.know_t(&th);
                                }
                                let m = sync_msg(packed::SendBlock::new_builder().block(b).build());
                                self.deliver(peer, sy, m, &note, sink, rep);
                                continue;
                            }
                        }
                        let m = sync_msg(packed::SendBlock::new_builder().block(block.data()).build());
                        self.deliver(peer, sy, m, "", sink, rep);
                    }
                    return;
                }
            }
        }
        match server::handle(&self.chains[self.serving], &self.sopts(), protocol, &data) {
            Ok(replies) => {
                let answered = !replies.is_empty();
                for (rp, bytes) in replies {
                    self.deliver(peer, rp, bytes, "", sink, rep);
                }
                if let (Some(block), true) = (follow_up, answered) {
                    let h = block.header().calc_header_hash();
                    let proved = self.node.i().peers.matched_blocks().read().unwrap().get(&h256(&h)).map(|e| e.0);
                    rep.count_class(match proved {
                        Some(true) => "forged-match:block-sent:hash-marked-proved",
                        Some(false) => "forged-match:block-sent:hash-unproved",
                        None => "forged-match:block-sent:hash-not-in-map",
                    });
                    if let Some(fm) = self.forged_match.as_mut() {
                        fm.sent += 1;
                    }
                    let label = format!(
                        "{:?}: the forged block {} sent by peer {} after the honest proof answer that reports its hash missing",
                        Attack::BlkForgedMatchedMissing,
                        short(&h),
                        peer
                    );
                    let m = sync_msg(packed::SendBlock::new_builder().block(block).build());
                    self.deliver(peer, sy, m, &label, sink, rep);
                }
            }
            Err(e) => {
                let name = super::node::request_name(protocol, &data);
                let kind: String = e.chars().take(28).collect();
                rep.count_class(&format!("server-refuses:{}:{}", name, kind));
                if e.contains("duplicate") {
                    self.refused.push(format!("{}: {}", name, e));
                }
                self.node.server_errors.push(format!("{}: {}", name, e));
            }
        }
    }

    /// answer up to `budget` queued requests (honestly, except for `attack`)
    fn pump(&mut self, rng: &mut Rng, budget: usize, attack: &mut Option<Attack>, sink: &mut Sink, rep: &mut Report) -> usize {
        let mut served = 0;
        for _ in 0..40 {
            self.collect(sink, rep);
            if self.queue.is_empty() || served >= budget || self.aborted.is_some() {
                break;
            }
            let batch: Vec<_> = std::mem::take(&mut self.queue);
            let mut rest = Vec::new();
            for (protocol, peer, data) in batch {
                if served >= budget {
                    rest.push((protocol, peer, data));
                    continue;
                }
                if self.node.i().peers.get_peer(&peer).is_none() {
                    continue;
                }
                served += 1;
                self.serve(rng, protocol, peer, data, attack, sink, rep);
            }
            self.queue = rest;
        }
        served
    }

    fn round(&mut self, rng: &mut Rng, budget: usize, attack: &mut Option<Attack>, sink: &mut Sink, rep: &mut Report) -> usize {
        self.advance(3000);
        for p in PEERS {
            let p = PeerIndex::new(p);
            if self.node.i().peers.get_peer(&p).is_none() {
                self.connect(p, sink, rep);
            }
        }
        self.refresh_tick(sink, rep);
        self.fetch_tick(sink, rep);
        self.other_ticks();
        self.pump(rng, budget, attack, sink, rep)
    }

    fn pick_header(&mut self, rng: &mut Rng, t: &Target) -> Option<Byte32> {
        let tip = self.usable_tip();
        match t {
            Target::OnChain => {
                if tip < 3 {
                    return None;
                }
                Some(self.chain().header(rng.range(1, tip - 1)).hash())
            }
            Target::Tip => Some(self.node.i().storage.get_tip_header().calc_header_hash()),
            Target::Beyond => {
                let n = self.chain().tip_number();
                if n <= tip {
                    return None;
                }
                Some(self.chain().header(rng.range(tip + 1, n)).hash())
            }
            Target::Unknown => {
                let mut h = [0u8; 32];
                h[..8].copy_from_slice(&rng.next().to_le_bytes());
                Some(h.pack())
            }
            Target::OtherBranch => {
                let o = 1 - self.serving.min(1);
                if self.chains.len() < 2 {
                    return None;
                }
                let oc = &self.chains[o];
                let c: Vec<Byte32> = (1..=oc.tip_number()).map(|n| oc.header(n).hash()).filter(|h| self.chain().number_of_hash(h).is_none()).collect();
                if c.is_empty() {
                    None
                } else {
                    Some(rng.pick(&c).clone())
                }
            }
            Target::Forged => {
                if tip < 3 {
                    return None;
                }
                let f = forged_header(&self.chain().header(rng.range(1, tip - 1)), rng.next());
                self.forged_h.insert(f.hash(), f.clone());
                Some(f.hash())
            }
        }
    }

    fn pick_tx(&mut self, rng: &mut Rng, t: &Target) -> Option<Byte32> {
        let tip = self.usable_tip();
        match t {
            Target::OnChain | Target::Tip | Target::Beyond => {
                if tip < 3 {
                    return None;
                }
                // prefer blocks with more than the cellbase
                let rich: Vec<u64> = (1..tip).filter(|n| self.chain().block(*n).transactions().len() > 1).collect();
                let n = if !rich.is_empty() && rng.chance(2, 3) { *rng.pick(&rich) } else { rng.range(1, tip - 1) };
                let b = self.chain().block(n);
                let i = rng.below(b.transactions().len() as u64) as usize;
                Some(b.transaction(i).unwrap().hash())
            }
            Target::Unknown => {
                let mut h = [0u8; 32];
                h[..8].copy_from_slice(&rng.next().to_le_bytes());
                h[31] = 1;
                Some(h.pack())
            }
            Target::OtherBranch => {
                if self.chains.len() < 2 {
                    return None;
                }
                let oc = &self.chains[1 - self.serving.min(1)];
                let mut c = Vec::new();
                for n in 1..=oc.tip_number() {
                    for t in oc.block(n).transactions() {
                        if self.chain().tx_location(&t.hash()).is_none() {
                            c.push(t.hash());
                        }
                    }
                }
                if c.is_empty() {
                    None
                } else {
                    Some(rng.pick(&c).clone())
                }
            }
            Target::Forged => {
                let f = forged_tx(rng.next() % 100_000);
                self.forged_t.insert(f.hash(), f.clone());
                Some(f.hash())
            }
        }
    }

    // ----------------------------------------------------------------------------------------
    // oracles

    /// on a branch a peer has proved to the client so far: the first branch, and the second one
    /// once the peers have switched to it (before that it is a private chain nobody proved)
    fn on_any_chain(&self, h: &Byte32) -> bool {
        self.chains.iter().enumerate().any(|(i, c)| (i == 0 || self.switched) && c.number_of_hash(h).is_some())
    }

    /// the attack a block hash / transaction hash that is on no chain stems from
    fn cause_of(&self, block: Option<&Byte32>, tx: Option<&Byte32>) -> Option<String> {
        let fm = self.forged_match.as_ref()?;
        if block.map(|b| *b == fm.hash).unwrap_or(false) || tx.map(|t| fm.txs.contains(t)).unwrap_or(false) {
            Some(format!("{:?}", Attack::BlkForgedMatchedMissing))
        } else {
            None
        }
    }

    fn check_header_answer(&mut self, what: &str, hash: &H256, out: &mut Hist) {
        let h: Byte32 = hash.pack();
        if !self.on_any_chain(&h) {
            out.violations.push((
                format!("C02|header-not-on-chain|{}", self.cause_of(Some(&h), None).unwrap_or_else(|| self.cause())),
                format!("{} answers a header that is on no chain a peer ever proved", what),
                format!("# header {}", short(&h)),
            ));
        }
    }

    fn index_cause(&self) -> String {
        match &self.forged_body {
            Some(k) => format!("forged-body:{}", k),
            None => self.cause(),
        }
    }

    fn cause(&self) -> String {
        if self.last_attack.is_empty() {
            if self.switched {
                "after-fork".into()
            } else {
                "honest".into()
            }
        } else {
            self.last_attack.clone()
        }
    }

    fn check_tx_answer(&mut self, what: &str, t: &Byte32, tws: &crate::service::TransactionWithStatus, out: &mut Hist) {
        if !matches!(tws.tx_status.status, TxState::Committed) {
            return;
        }
        let bh: Byte32 = tws.tx_status.block_hash.clone().expect("block hash").pack();
        let tb = self.tip_branch();
        let holder = (0..self.chains.len()).find(|i| self.chains[*i].number_of_hash(&bh).is_some());
        if self.chains.iter().all(|c| c.tx_location(t).is_none()) {
            out.violations.push((
                format!("C02|committed-unknown-transaction|{}", self.cause_of(Some(&bh), Some(t)).unwrap_or_else(|| self.cause())),
                format!("{} reports a transaction as committed that is in no block of any chain", what),
                format!("# tx {} block {}", short(t), short(&bh)),
            ));
            return;
        }
        if holder.is_some() && !self.on_any_chain(&bh) {
            out.violations.push((
                format!("C02|committed-in-unproved-block|{}", self.cause()),
                format!("{} reports a transaction committed in a block of a branch no peer ever proved", what),
                format!("# tx {} block {}", short(t), short(&bh)),
            ));
            return;
        }
        match holder {
            None => out.violations.push((
                format!("C02|committed-in-unknown-block|{}", self.cause_of(Some(&bh), Some(t)).unwrap_or_else(|| self.cause())),
                format!("{} reports a transaction committed in a block that is on no chain", what),
                format!("# tx {} block {}", short(t), short(&bh)),
            )),
            Some(_) => {
                let contains = self.chains.iter().any(|c| match (c.number_of_hash(&bh), c.tx_location(t)) {
                    (Some(n), Some((m, _))) => n == m,
                    _ => false,
                });
                let on_tip_branch = tb.map(|i| self.chains[i].number_of_hash(&bh).is_some()).unwrap_or(false);
                if !contains {
                    out.violations.push((
                        format!("C16|committed-in-wrong-block|{}", if self.switched { "after-fork".to_string() } else { self.index_cause() }),
                        format!("{} reports a transaction committed in a block that does not contain it", what),
                        format!("# tx {} reported in block {} (#{:?}); it is in {:?}", short(t), short(&bh), self.chains.iter().filter_map(|c| c.number_of_hash(&bh)).next(), self.chains.iter().filter_map(|c| c.tx_location(t)).collect::<Vec<_>>()),
                    ));
                } else if !on_tip_branch {
                    out.violations.push((
                        format!("C16|committed-in-abandoned-block|{}", if self.switched { "after-fork".to_string() } else { self.cause() }),
                        format!("{} reports a transaction committed in a block of an abandoned branch", what),
                        format!("# tx {} block {}", short(t), short(&bh)),
                    ));
                }
            }
        }
        if let Some(tx) = &tws.transaction {
            if tx.hash != h256(t) {
                out.violations.push((format!("C02|other-transaction|{}", self.cause()), format!("{} answers another transaction", what), String::new()));
            }
        }
    }

    fn check_status_edge(&mut self, h: &Byte32, out: &mut Hist) {
        let v = match self.statuses.get(h) {
            Some(v) if v.len() >= 2 => v,
            _ => return,
        };
        let (a, b) = (v[v.len() - 2].as_str(), v[v.len() - 1].as_str());
        let ok = match (a, b) {
            ("fetched", _) => false,
            ("fetching", "added") => false,
            _ => true,
        };
        if !ok {
            out.violations.push((
                format!("C16|automaton|{}->{}", a, b),
                "the status of a fetch request leaves the automaton".into(),
                format!("# hash {} statuses {:?}", short(h), v),
            ));
        }
        if b == "not_found" && !self.reported_missing.contains(h) {
            out.violations.push((
                "C16|not-found-without-report".into(),
                "not_found although no accepted answer listed the hash as missing".into(),
                format!("# hash {}", short(h)),
            ));
        }
    }

    /// the `Served` invariant on the real state: a fetch that was sent, is not timed out and not
    /// missing must be in the request slot of a connected peer
    fn check_served(&mut self, step: &str, out: &mut Hist) {
        let s = self.snap();
        // a stored extension must never disappear again
        for (h, _, e) in &s.hdr {
            if e.is_some() {
                self.had_ext.insert(*h);
            } else if self.had_ext.contains(h) {
                out.violations.push((
                    "C02|extension-lost|stored-again-without".into(),
                    "a header that was stored with its extension is stored again without it (an answer of the old protocol version over a record of the block filter / a V1 answer)".into(),
                    format!("# after {}: header id {}", step, h),
                ));
            }
        }
        let in_b: HashSet<u64> = s.peers.iter().filter_map(|p| p.1.as_ref()).flat_map(|r| r.2.iter().cloned()).collect();
        let in_t: HashSet<u64> = s.peers.iter().filter_map(|p| p.2.as_ref()).flat_map(|r| r.1.iter().cloned()).collect();
        for (kind, v, set) in [("header", &s.fh, &in_b), ("transaction", &s.ft, &in_t)] {
            for e in v.iter() {
                if e.2 != 0 && !e.3 && !e.4 && !set.contains(&e.0) {
                    out.violations.push((
                        format!("C16|lost|{}", if self.rejected_with_request { "rejected-answer".to_string() } else { self.cause() }),
                        format!("a {} fetch is in flight (sent, not timed out, not missing) but no connected peer holds a request for it: it is never sent again", kind),
                        format!("# after {}: id {} first_sent {}", step, e.0, e.2),
                    ));
                    self.lost = true;
                }
            }
        }
    }

    fn check_index(&mut self, step: &str, out: &mut Hist) {
        let bi = match self.tip_branch() {
            Some(b) => b,
            None => return,
        };
        let (facts, cells) = index_dump(&self.node);
        let truth: BTreeSet<Fact> = self.branches[bi].facts.iter().cloned().collect();
        // entries of a block of another branch the peers served are the business of the fork
        // rollback (C04), not of the proofs
        let elsewhere: BTreeSet<Fact> = self.branches.iter().flat_map(|b| b.facts.iter().cloned()).collect();
        let foreign = |f: &Fact| !truth.contains(f) && elsewhere.contains(f);
        if facts.iter().any(|f| foreign(f)) {
            self.stale_after_fork = true;
        }
        let facts: BTreeSet<Fact> = facts.into_iter().filter(|f| !foreign(f)).collect();
        let created_elsewhere: BTreeSet<(u64, u64, Byte32, u32)> = elsewhere.iter().filter(|f| f.4).map(|f| (f.0, f.1, f.2.clone(), f.3)).collect();
        // (the entries of a forged block under a matched hash first: they have their own signature)
        let of_forged_match = |t: &Byte32| self.forged_match.as_ref().map(|fm| fm.txs.contains(t)).unwrap_or(false);
        if let Some(f) = facts.iter().find(|f| !truth.contains(*f) && of_forged_match(&f.2)).or_else(|| facts.iter().find(|f| !truth.contains(*f))) {
            out.violations.push((
                format!("C02|index-not-in-ground-truth|{}", self.cause_of(None, Some(&f.2)).unwrap_or_else(|| self.index_cause())),
                "the index holds an entry that is not in the ground truth of the branch of the stored tip".into(),
                format!("# after {}: script {} block {} tx {} cell {} output {}", step, f.0, f.1, short(&f.2), f.3, f.4),
            ));
        }
        let created: BTreeSet<(u64, u64, Byte32, u32)> = truth.iter().filter(|f| f.4).map(|f| (f.0, f.1, f.2.clone(), f.3)).collect();
        let wrong = |c: &&(u64, u64, Byte32, u32)| !created.contains(*c) && !created_elsewhere.contains(*c);
        if let Some(c) = cells.iter().find(|c| wrong(c) && of_forged_match(&c.2)).or_else(|| cells.iter().find(|c| wrong(c))) {
            out.violations.push((
                format!("C02|cell-not-in-ground-truth|{}", self.cause_of(None, Some(&c.2)).unwrap_or_else(|| self.index_cause())),
                "the index holds a cell that no block on the branch of the stored tip creates".into(),
                format!("# after {}: script {} block {} tx {} index {}", step, c.0, c.1, short(&c.2), c.3),
            ));
        }
    }

    /// a stored header must carry the extension of its block
    fn check_extensions(&mut self, out: &mut Hist) {
        for h in self.uni_h.clone() {
            if let Some(v) = raw_get(&self.node, Key::BlockHash(&h).into_vec()) {
                let stored: Option<Vec<u8>> = if v.len() > packed::Header::TOTAL_SIZE { Some(v[packed::Header::TOTAL_SIZE..].to_vec()) } else { None };
                let real = self.chains.iter().filter_map(|c| c.number_of_hash(&h).map(|n| c.block(n).extension())).next();
                if let Some(real) = real {
                    let real = real.map(|e| e.as_slice().to_vec());
                    if stored != real && h != self.chains[0].header(0).hash() {
                        let sig = if stored.is_none() {
                            format!("C02|extension-dropped|{}", if self.v1 { "v1" } else { "v0" })
                        } else {
                            format!("C02|extension-wrong|{}", self.index_cause())
                        };
                        out.violations.push((sig, "a header is stored without / with another extension than its block has".into(), format!("# header {}", short(&h))));
                    }
                }
            }
        }
    }

    fn poll(&mut self, rng: &mut Rng, limit: usize, out: &mut Hist, sink: &mut Sink, rep: &mut Report) {
        let mut hs = self.asked_h.clone();
        let mut ts = self.asked_t.clone();
        while hs.len() > limit {
            hs.remove(rng.below(hs.len() as u64) as usize);
        }
        while ts.len() > limit {
            ts.remove(rng.below(ts.len() as u64) as usize);
        }
        for h in hs {
            if let Some(st) = self.fetch_header(&h, sink, rep) {
                if let FetchStatus::Fetched { data } = &st {
                    let hash = data.hash.clone();
                    self.check_header_answer("fetch_header", &hash, out);
                }
                self.check_status_edge(&h, out);
            }
            if let Some(Some(hv)) = self.get_header(&h, sink, rep) {
                let hash = hv.hash.clone();
                self.check_header_answer("get_header", &hash, out);
            }
        }
        for t in ts {
            if let Some(st) = self.fetch_tx(&t, sink, rep) {
                if let FetchStatus::Fetched { data } = &st {
                    self.check_tx_answer("fetch_transaction", &t, data, out);
                }
                self.check_status_edge(&t, out);
            }
            if let Some(tws) = self.get_tx(&t, sink, rep) {
                self.check_tx_answer("get_transaction", &t, &tws, out);
            }
        }
    }
}
// ---- probes of the code variant, the history loop, the report

/// which of the three repairs the code under test contains (the model has a switch for each)
fn probe_variant() -> (bool, bool, bool, bool) {
    let mut a = Branch::new();
    let mut r = Rng::new(7);
    a.extend(&mut r, 12, 1);
    let chain = &a.chain;
    // keepExt: a header stored again without extension
    let keep_ext = {
        let node = Node::new(&chain.consensus, LAST_N, 2000, 1);
        let b = chain.block(3);
        let st = &node.i().storage;
        st.add_fetched_header(&HeaderWithExtension { header: b.data().header(), extension: b.extension() });
        st.add_fetched_header(&HeaderWithExtension { header: b.data().header(), extension: None });
        raw_get(&node, Key::BlockHash(&b.hash()).into_vec()).map(|v| v.len() > packed::Header::TOTAL_SIZE).unwrap_or(false)
    };
    // checkBody: a proved matched block delivered with another body
    let check_body = {
        let mut node = Node::new(&chain.consensus, LAST_N, 2000, 1);
        let p = PeerIndex::new(1);
        set_now(chain.tip().timestamp() + 5000);
        node.connect(p);
        let b = chain.block(4);
        node.i().storage.add_matched_blocks(4, 1, vec![(b.hash(), true)]);
        {
            let peers = std::sync::Arc::clone(&node.i().peers);
            let mut mb = peers.matched_blocks().write().unwrap();
            peers.add_matched_blocks(&mut mb, vec![(b.hash(), true)]);
        }
        let mut r2 = Rng::new(9);
        let (forged, _) = mutate_block(&mut r2, b, Attack::BlkTxAdded).expect("mutation");
        let ok = body_ok(&forged);
        let m = sync_msg(packed::SendBlock::new_builder().block(forged).build());
        let rr = catch(|| node.deliver(p, SupportProtocols::Sync.protocol_id(), m));
        if std::env::var("VERIF_DEBUG_SYNC").is_ok() {
            eprintln!("probe checkBody: forged body ok {} delivery {:?}", ok, rr);
        }
        let banned = !node.i().nc_sync.rec.lock().unwrap().banned.is_empty();
        banned
    };
    // markOnReject: a rejected blocks proof
    let mark_on_reject = {
        let node = Node::new(&chain.consensus, LAST_N, 2000, 1);
        let p = PeerIndex::new(1);
        let peers = std::sync::Arc::clone(&node.i().peers);
        peers.add_peer(p);
        let h = chain.header(3).hash();
        peers.add_fetch_header(h.clone(), 1);
        let content = packed::GetBlocksProof::new_builder().last_hash(chain.header(9).hash()).block_hashes(vec![h.clone()].pack()).build();
        peers.update_blocks_proof_request(p, Some(content), false);
        peers.fetching_idle_headers(&[h.clone()], 5);
        let parts = bp_parts(chain, 9, &[4], vec![]).expect("parts");
        let mut node = node;
        let _ = catch(|| node.deliver(p, SupportProtocols::LightClient.protocol_id(), bp_bytes(&parts, false)));
        peers.get_headers_to_fetch().contains(&h)
    };
    // skipTip: the FETCH timer leaves the last state's own hash out of the request
    let skip_tip = {
        use crate::protocols::light_client::{LastState, ProveRequest, ProveState};
        let mut node = Node::new(&chain.consensus, LAST_N, 2000, 1);
        let p = PeerIndex::new(1);
        let peers = std::sync::Arc::clone(&node.i().peers);
        peers.add_peer(p);
        let tip: VerifiableHeader = chain.verifiable_header(0).into();
        let last_state = LastState::new(tip);
        let request = ProveRequest::new(last_state.clone(), Default::default());
        let prove_state = ProveState::new_from_request(request.clone(), Default::default(), Default::default());
        let ok = peers.request_last_state(p).is_ok()
            && peers.update_last_state(p, last_state).is_ok()
            && peers.update_prove_request(p, request).is_ok()
            && peers.update_prove_state(p, prove_state).is_ok();
        let tip_hash = chain.header(0).hash();
        peers.add_fetch_header(tip_hash.clone(), 1);
        peers.add_fetch_header(chain.header(3).hash(), 1);
        let _ = catch(|| node.notify_lc(lcc::FETCH_HEADER_TX_TOKEN));
        let sent = node.i().nc_lc.take().sent;
        let asked_tip = sent.iter().any(|(_, _, d)| {
            packed::LightClientMessageReader::from_compatible_slice(d)
                .ok()
                .map(|m| match m.to_enum() {
                    packed::LightClientMessageUnionReader::GetBlocksProof(r) => r.block_hashes().iter().any(|h| h.as_slice() == tip_hash.as_slice()),
                    _ => false,
                })
                .unwrap_or(false)
        });
        ok && !sent.is_empty() && !asked_tip
    };
    ckb_systemtime::faketime().disable_faketime();
    (mark_on_reject, check_body, keep_ext, skip_tip)
}

fn gen_step(r: &mut Rng, prop: &str, switched: bool, can_switch: bool) -> Step {
    let w = r.below(100);
    let target = |r: &mut Rng| match r.below(20) {
        0..=10 => Target::OnChain,
        11..=13 => Target::Unknown,
        14..=15 => Target::OtherBranch,
        16 => Target::Tip,
        17 => Target::Beyond,
        _ => Target::Forged,
    };
    let _ = switched;
    match w {
        0..=17 => Step::Sync(r.range(1, 9) as u32),
        18..=31 => Step::FetchHeader(target(r)),
        32..=45 => Step::FetchTx(target(r)),
        46..=55 => Step::Poll,
        56..=60 => Step::FetchTick,
        61..=84 => {
            // one draw, as before the list grew: `v % OLD_ATTACKS` is the kind an old seed drew;
            // one draw in sixteen goes to the kinds appended since (the residue class 6 holds
            // none of the draws of the pinned corpus histories, so these keep their steps)
            let v = r.next();
            let w = v / OLD_ATTACKS;
            let appended = ATTACKS.len() as u64 - OLD_ATTACKS;
            if appended > 0 && w % 16 == 6 {
                Step::Attack(ATTACKS[(OLD_ATTACKS + (w / 16) % appended) as usize])
            } else {
                Step::Attack(ATTACKS[(v % OLD_ATTACKS) as usize])
            }
        }
        85..=87 => Step::Timeout,
        88..=91 => Step::Disconnect,
        92..=95 => {
            if can_switch && (prop == "C16" || r.chance(1, 2)) {
                Step::Switch
            } else {
                Step::Grow
            }
        }
        _ => Step::Grow,
    }
}

pub fn run(opts: &Options, prop: &str) -> Report {
    let mut rep = Report::default();
    rep.rule = "full-stack histories: a chain of 24..50 blocks paying to / spending from 3 registered scripts (dummy PoW, \
        one history in six Eaglesong) and a fork of depth 1..6, three proven peers answering v0 or v1; random steps: bounded \
        sync rounds (REFRESH, FETCH and the other timers, 1..9 answered requests), fetch_header / fetch_transaction for a \
        hash on the chain / unknown / only on the other branch / the stored tip / beyond the tip / forged, polls of every \
        asked hash (fetch_*, get_header, get_transaction), a lone FETCH tick, one of 34 single-fault mutations of \
        SendBlocksProof, SendTransactionsProof (v0 / v1) and SendBlock applied to the next fitting answer (or delivered \
        unsolicited / by another peer) or the multi-step attack BlkForgedMatchedMissing (the scripts registered again \
        from block 0 when no two matching blocks are ahead of the filter sync; a BlockFilters answer with honest filters \
        and the hash of one matching block replaced by the hash of a forged self-consistent block that creates a cell of \
        a registered script; the honest SendBlocksProof answers that report this hash missing; SendBlock with the forged \
        block after each of the first three), a time-out of every peer (clock beyond MESSAGE_TIMEOUT), a disconnect, the switch \
        of all peers to the fork, chain growth; then honest convergence with reconnects.  Every RPC call, FETCH / REFRESH \
        tick, connect, disconnect and every delivery of the three messages goes through the Proofs model: state \
        abstraction in, result (status, ban code, requests sent, peers timed out, blocks indexed) and state abstraction \
        afterwards compared.  Oracles: fetched / stored headers are on a proven chain; committed answers name a block of \
        the tip's branch that contains the transaction; the index is within the ground truth of the tip's branch; stored \
        extensions are the blocks'; statuses follow the automaton; not_found only after an accepted missing report; a fetch \
        in flight is always held by a connected peer; on-chain hashes reach fetched under continued honest service; the \
        client never sends a request an honest server must refuse; non-trivial = a mutated answer passed request matching \
        or a status changed; distinct = history seed"
        .into();
    let variant = probe_variant();
    rep.notes.push(format!(
        "code variant probed: markOnReject={} checkBody={} keepExt={} skipTip={} (false = the pinned behaviour)",
        variant.0, variant.1, variant.2, variant.3
    ));
    let mut rng = Rng::new(opts.seed ^ fnv("C02C16"));
    let mut seeds: Vec<(u64, usize)> = Vec::new();
    if let Some(p) = &opts.replay {
        seeds = parse_seeds(&std::fs::read_to_string(p).expect("replay"));
    } else {
        for dir in ["/verif/corpus/C02", "/verif/corpus/C16"] {
            if let Ok(rd) = std::fs::read_dir(dir) {
                let mut files: Vec<_> = rd.flatten().map(|e| e.path()).collect();
                files.sort();
                for f in files {
                    seeds.extend(parse_seeds(&std::fs::read_to_string(f).unwrap_or_default()));
                }
            }
        }
        let n = std::env::var("C02_N").ok().and_then(|v| v.parse().ok()).unwrap_or(if opts.thorough() { 1500 } else { 36 });
        for _ in 0..n {
            seeds.push((rng.next(), rng.range(8, 40) as usize));
        }
    }
    let debug = std::env::var("VERIF_DEBUG_SYNC").is_ok();
    let mut sink = Sink::default();
    sink.lines.push(format!("cfg 1000 1000 {} {} {} {}", MESSAGE_TIMEOUT, variant.0 as u8, variant.1 as u8, variant.2 as u8));
    sink.impls.push(String::new());
    sink.owner.push((0, 0));
    for (hi, (seed, len)) in seeds.iter().enumerate() {
        sink.cur = (*seed, *len);
        let mut r = Rng::new(*seed);
        super::seed_client_randomness(*seed);
        let eaglesong = r.chance(1, 6);
        let mut a = if eaglesong { Branch { chain: SimChain::new_eaglesong(), facts: Vec::new(), spent_created: Default::default(), live_at: vec![Vec::new()], txlog: Vec::new(), orphans: Vec::new(), reconfirmed: Default::default() } } else { Branch::new() };
        let n0 = r.range(24, 50);
        a.extend(&mut r, n0, 1);
        let depth = *r.pick(&[1u64, 1, 2, 2, 3, 3, 4, 4, 4, 6]);
        let at = a.chain.tip_number() - depth;
        let mut b = a.fork_of(at, 2);
        let extra = r.range(1, 5);
        b.extend(&mut r, depth + extra, 2);
        let branches = vec![a, b];
        let desc = format!(
            "{} chain tip {}, fork at {} to tip {}, {}",
            if eaglesong { "Eaglesong" } else { "dummy-PoW" },
            branches[0].chain.tip_number(),
            at,
            branches[1].chain.tip_number(),
            if r.0 % 2 == 0 { "v1" } else { "v0" }
        );
        let v1 = r.0 % 2 == 0;
        let chains: Vec<SimChain> = branches.iter().map(|b| b.chain.fork(b.chain.tip_number(), 99)).collect();
        let node = Node::new(&branches[0].chain.consensus, LAST_N, 2000, 3);
        let now = branches[1].chain.tip().timestamp().max(branches[0].chain.tip().timestamp()) + 5000;
        set_now(now);
        let mut ctx = Ctx {
            node,
            branches: &branches,
            chains,
            serving: 0,
            v1,
            abs: Abs::default(),
            now,
            uni_h: Vec::new(),
            uni_t: Vec::new(),
            seen_h: HashSet::new(),
            seen_t: HashSet::new(),
            max_number: 0,
            when_b: HashMap::new(),
            when_t: HashMap::new(),
            when_dl: HashMap::new(),
            queue: Vec::new(),
            aborted: None,
            statuses: HashMap::new(),
            reported_missing: HashSet::new(),
            asked_h: Vec::new(),
            asked_t: Vec::new(),
            forged_h: HashMap::new(),
            forged_t: HashMap::new(),
            last_attack: String::new(),
            accepted_mutations: Vec::new(),
            passed_matching: false,
            status_changed: false,
            refused: Vec::new(),
            had_ext: HashSet::new(),
            stale_after_fork: false,
            skip_tip: variant.3,
            forged_body: None,
            rejected_with_request: false,
            switched: false,
            lost: false,
            forged_match: None,
        };
        for c in 0..ctx.chains.len() {
            for n in 0..=ctx.chains[c].tip_number() {
                let blk = ctx.chains[c].block(n).clone();
                ctx.know_h(&blk.hash());
                for t in blk.transactions() {
                    ctx.know_t(&t.hash());
                }
            }
            ctx.max_number = ctx.max_number.max(ctx.chains[c].tip_number());
        }
        let mut out = Hist { violations: Vec::new() };
        let mut steps_done: Vec<String> = Vec::new();
        rep.evaluations += 1;
        for p in PEERS {
            ctx.connect(PeerIndex::new(p), &mut sink, &mut rep);
        }
        {
            let statuses: Vec<ScriptStatus> = (1..=N_SCRIPTS)
                .map(|id| ScriptStatus { script: script_of(id).into(), script_type: ScriptType::Lock, block_number: 0.into() })
                .collect();
            ctx.node.filter_rpc().set_scripts(statuses, Some(SetScriptsCommand::All)).expect("set_scripts");
        }
        // the peers get proven, the filter sync starts
        let mut no_attack: Option<Attack> = None;
        for _ in 0..r.range(3, 9) {
            let b = r.range(3, 12) as usize;
            ctx.round(&mut r, b, &mut no_attack, &mut sink, &mut rep);
        }
        let mut pending: Option<Attack> = None;
        for i in 0..*len {
            if ctx.aborted.is_some() {
                break;
            }
            let step = gen_step(&mut r, prop, ctx.switched, !ctx.switched);
            steps_done.push(format!("{:?}", step));
            rep.count_op(&format!("step:{}", format!("{:?}", step).split('(').next().unwrap_or("")));
            match &step {
                Step::Sync(n) => {
                    ctx.round(&mut r, *n as usize, &mut pending, &mut sink, &mut rep);
                }
                Step::FetchHeader(t) => {
                    if let Some(h) = ctx.pick_header(&mut r, t) {
                        rep.count_class(&format!("target:header:{:?}", t));
                        if let Some(FetchStatus::Fetched { data }) = ctx.fetch_header(&h, &mut sink, &mut rep) {
                            let hash = data.hash.clone();
                            ctx.check_header_answer("fetch_header", &hash, &mut out);
                        }
                        ctx.check_status_edge(&h, &mut out);
                    }
                }
                Step::FetchTx(t) => {
                    if let Some(h) = ctx.pick_tx(&mut r, t) {
                        rep.count_class(&format!("target:tx:{:?}", t));
                        if let Some(FetchStatus::Fetched { data }) = ctx.fetch_tx(&h, &mut sink, &mut rep) {
                            ctx.check_tx_answer("fetch_transaction", &h, &data, &mut out);
                        }
                        ctx.check_status_edge(&h, &mut out);
                    }
                }
                Step::Poll => ctx.poll(&mut r, 5, &mut out, &mut sink, &mut rep),
                Step::FetchTick => {
                    ctx.advance(1000);
                    ctx.fetch_tick(&mut sink, &mut rep);
                }
                Step::Attack(a) => {
                    rep.count_class(&format!("attack:{:?}", a));
                    let lc = SupportProtocols::LightClient.protocol_id();
                    let sy = SupportProtocols::Sync.protocol_id();
                    let tip = ctx.usable_tip();
                    match a {
                        Attack::BpUnsolicited | Attack::TpUnsolicited => {
                            // an honest proof nobody asked for, from a peer with a free slot (or any)
                            let peers: Vec<PeerIndex> = PEERS.iter().map(|p| PeerIndex::new(*p)).filter(|p| ctx.node.i().peers.get_peer(p).is_some()).collect();
                            if tip >= 4 && !peers.is_empty() {
                                let from = *r.pick(&peers);
                                let n = r.range(1, tip - 1);
                                let bytes = if *a == Attack::BpUnsolicited {
                                    bp_parts(ctx.chain(), tip, &[n], vec![]).map(|p| bp_bytes(&p, v1))
                                } else {
                                    tp_parts(ctx.chain(), tip, &[(n, vec![0])], vec![]).map(|p| tp_bytes(&p, v1))
                                };
                                if let Some(bytes) = bytes {
                                    ctx.last_attack = format!("{:?}", a);
                                    let label = format!("{:?}: honest proof of block {} nobody asked peer {} for", a, n, from);
                                    ctx.deliver(from, lc, bytes, &label, &mut sink, &mut rep);
                                }
                            }
                        }
                        Attack::BlkUnasked | Attack::BlkUnaskedForged => {
                            let peers: Vec<PeerIndex> = PEERS.iter().map(|p| PeerIndex::new(*p)).filter(|p| ctx.node.i().peers.get_peer(p).is_some()).collect();
                            if tip >= 4 && !peers.is_empty() {
                                let from = *r.pick(&peers);
                                let n = r.range(1, tip - 1);
                                let blk = ctx.chain().block(n).clone();
                                let data = if *a == Attack::BlkUnasked {
                                    Some(blk.data())
                                } else {
                                    mutate_block(&mut r, &blk, Attack::BlkTxAdded).map(|x| x.0)
                                };
                                if let Some(data) = data {
                                    for t in data.transactions().into_iter() {
                                        let th = t.calc_tx_hash();
                                        if ctx.chains.iter().all(|c| c.tx_location(&th).is_none()) {
                                            ctx.forged_t.insert(th.clone(), t.into_view());
                                        }
                                        ctx.know_t(&th);
                                    }
                                    ctx.last_attack = format!("{:?}", a);
                                    let label = format!("{:?}: block {} nobody asked for", a, n);
                                    let m = sync_msg(packed::SendBlock::new_builder().block(data).build());
                                    ctx.deliver(from, sy, m, &label, &mut sink, &mut rep);
                                }
                            }
                        }
                        Attack::BlkForgedMatchedMissing => {
                            // the lie needs a `GetBlockFilters` request whose answer holds two
                            // matching blocks: when the filter sync is beyond them (always, when it
                            // was along them before), the user registers the scripts again from
                            // block 0, which restarts it
                            let min_filtered = ctx.node.i().storage.get_min_filtered_block_number();
                            let ahead: BTreeSet<u64> = ctx.branches[ctx.serving].facts.iter().map(|f| f.1).filter(|n| *n > min_filtered).collect();
                            if ahead.len() < 2 || r.chance(1, 2) {
                                let statuses: Vec<ScriptStatus> = (1..=N_SCRIPTS)
                                    .map(|id| ScriptStatus { script: script_of(id).into(), script_type: ScriptType::Lock, block_number: 0.into() })
                                    .collect();
                                let _ = ctx.guard(|n| n.filter_rpc().set_scripts(statuses, Some(SetScriptsCommand::All)).expect("set_scripts"));
                                ctx.sync_shadow();
                                rep.count_class("forged-match:scripts-registered-again");
                            }
                            pending = Some(*a);
                            for _ in 0..2 {
                                let b = r.range(4, 12) as usize;
                                ctx.round(&mut r, b, &mut pending, &mut sink, &mut rep);
                            }
                        }
                        _ => {
                            // make sure a fitting request will be around, then lie on the next one
                            if *a == Attack::BpForgedTwin {
                                // the user asks for a block of the chain and for a made-up
                                // header with the same number
                                if let Some(h) = ctx.pick_header(&mut r, &Target::OnChain) {
                                    if let Some(n) = ctx.chain().number_of_hash(&h) {
                                        let f = forged_header(&ctx.chain().header(n), r.next());
                                        ctx.forged_h.insert(f.hash(), f.clone());
                                        ctx.fetch_header(&h, &mut sink, &mut rep);
                                        ctx.fetch_header(&f.hash(), &mut sink, &mut rep);
                                    }
                                }
                            } else if a.is_bp() {
                                let t = if *a == Attack::BpForgedRequested { Target::Forged } else if *a == Attack::BpPrivateChain { Target::OtherBranch } else { Target::OnChain };
                                for _ in 0..r.range(1, 3) {
                                    if let Some(h) = ctx.pick_header(&mut r, &t) {
                                        ctx.fetch_header(&h, &mut sink, &mut rep);
                                    }
                                }
                                if r.chance(1, 3) {
                                    if let Some(h) = ctx.pick_header(&mut r, &Target::Unknown) {
                                        ctx.fetch_header(&h, &mut sink, &mut rep);
                                    }
                                }
                            } else if *a == Attack::TpAnswerTwice || *a == Attack::BpAnswerTwice {
                                for _ in 0..r.range(2, 4) {
                                    if *a == Attack::TpAnswerTwice {
                                        if let Some(h) = ctx.pick_tx(&mut r, &Target::OnChain) {
                                            ctx.fetch_tx(&h, &mut sink, &mut rep);
                                        }
                                    } else if let Some(h) = ctx.pick_header(&mut r, &Target::OnChain) {
                                        ctx.fetch_header(&h, &mut sink, &mut rep);
                                    }
                                }
                            } else if *a == Attack::TpFakeAmongAll {
                                // the user asks for every transaction of a small block and for a
                                // made-up transaction
                                let tip = ctx.usable_tip();
                                if tip >= 3 {
                                    let n = (0..12).map(|_| r.range(1, tip - 1)).min_by_key(|n| ctx.chain().block(*n).transactions().len()).unwrap();
                                    let hashes: Vec<Byte32> = ctx.chain().block(n).transactions().iter().map(|t| t.hash()).collect();
                                    for h in hashes {
                                        ctx.fetch_tx(&h, &mut sink, &mut rep);
                                    }
                                    if let Some(h) = ctx.pick_tx(&mut r, &Target::Forged) {
                                        ctx.fetch_tx(&h, &mut sink, &mut rep);
                                    }
                                }
                            } else if *a == Attack::TpIndexMax {
                                for _ in 0..r.range(2, 4) {
                                    if let Some(h) = ctx.pick_tx(&mut r, &Target::OnChain) {
                                        ctx.fetch_tx(&h, &mut sink, &mut rep);
                                    }
                                }
                            } else if a.is_tp() {
                                let t = if *a == Attack::TpForgedRequested { Target::Forged } else if *a == Attack::TpPrivateChain { Target::OtherBranch } else { Target::OnChain };
                                for _ in 0..r.range(1, 3) {
                                    if let Some(h) = ctx.pick_tx(&mut r, &t) {
                                        ctx.fetch_tx(&h, &mut sink, &mut rep);
                                    }
                                }
                                if r.chance(1, 3) {
                                    if let Some(h) = ctx.pick_tx(&mut r, &Target::Unknown) {
                                        ctx.fetch_tx(&h, &mut sink, &mut rep);
                                    }
                                }
                            }
                            pending = Some(*a);
                            let b = r.range(2, 8) as usize;
                            ctx.round(&mut r, b, &mut pending, &mut sink, &mut rep);
                        }
                    }
                }
                Step::Timeout => {
                    ctx.advance(MESSAGE_TIMEOUT + 1000);
                    ctx.refresh_tick(&mut sink, &mut rep);
                    if r.chance(1, 2) {
                        // the window between the marks and the `disconnected` callbacks
                        ctx.advance(1);
                        let _ = ctx.guard(|n| n.notify_lc(lcc::FETCH_HEADER_TX_TOKEN));
                        ctx.sync_shadow();
                    }
                    ctx.collect(&mut sink, &mut rep);
                }
                Step::Disconnect => {
                    let peers: Vec<PeerIndex> = PEERS.iter().map(|p| PeerIndex::new(*p)).filter(|p| ctx.node.i().peers.get_peer(p).is_some()).collect();
                    if !peers.is_empty() {
                        let p = *r.pick(&peers);
                        ctx.disconnect(p, &mut sink, &mut rep);
                    }
                }
                Step::Switch => {
                    ctx.serving = 1;
                    ctx.switched = true;
                    ctx.grow(1);
                    for p in PEERS {
                        let p = PeerIndex::new(p);
                        if ctx.node.i().peers.get_peer(&p).is_some() {
                            let m = server::light_client_message(server::send_last_state(ctx.chain()));
                            ctx.deliver(p, SupportProtocols::LightClient.protocol_id(), m, "", &mut sink, &mut rep);
                        }
                    }
                }
                Step::Grow => {
                    let n = r.range(1, 3);
                    ctx.grow(n);
                }
            }
            let stext = format!("step {} {:?}", i, step);
            ctx.check_served(&stext, &mut out);
            if i % 3 == 2 {
                ctx.check_index(&stext, &mut out);
            }
        }
        // ---- honest convergence: reconnects, growth, every fetch polled
        let mut none: Option<Attack> = None;
        let mut rounds = 0;
        while ctx.aborted.is_none() && rounds < 30 {
            rounds += 1;
            ctx.grow(1);
            let served = ctx.round(&mut r, 400, &mut none, &mut sink, &mut rep);
            if rounds % 4 == 0 {
                ctx.advance(MESSAGE_TIMEOUT + 1000);
            }
            if rounds % 3 == 0 || served == 0 {
                ctx.poll(&mut r, 12, &mut out, &mut sink, &mut rep);
            }
            let tip_ok = ctx.stored_tip_number() + 2 >= ctx.chain().tip_number();
            let open_h = ctx.asked_h.iter().any(|h| ctx.statuses.get(h).and_then(|v| v.last()).map(|s| s != "fetched").unwrap_or(true) && ctx.chain().number_of_hash(h).is_some());
            let open_t = ctx.asked_t.iter().any(|t| ctx.statuses.get(t).and_then(|v| v.last()).map(|s| s != "fetched").unwrap_or(true) && ctx.chain().tx_location(t).is_some());
            if tip_ok && !open_h && !open_t && rounds >= 6 {
                break;
            }
        }
        if ctx.aborted.is_none() {
            ctx.poll(&mut r, 1000, &mut out, &mut sink, &mut rep);
            ctx.check_served("convergence", &mut out);
            ctx.check_index("convergence", &mut out);
            ctx.check_extensions(&mut out);
            // what the client serves about a forged block under a matched hash
            if let Some((fh, fts)) = ctx.forged_match.as_ref().map(|fm| (fm.hash.clone(), fm.txs.clone())) {
                if let Some(Some(hv)) = ctx.get_header(&fh, &mut sink, &mut rep) {
                    let hash = hv.hash.clone();
                    ctx.check_header_answer("get_header", &hash, &mut out);
                }
                for t in fts {
                    if let Some(tws) = ctx.get_tx(&t, &mut sink, &mut rep) {
                        ctx.check_tx_answer("get_transaction", &t, &tws, &mut out);
                    }
                }
            }
            let tip = ctx.stored_tip_number();
            for h in ctx.asked_h.clone() {
                let last = ctx.statuses.get(&h).and_then(|v| v.last().cloned()).unwrap_or_default();
                match ctx.chain().number_of_hash(&h) {
                    Some(n) if n + 1 < tip => {
                        if last != "fetched" {
                            out.violations.push((
                                format!("C16|never-fetched|{}", if ctx.lost && ctx.rejected_with_request { "lost:rejected-answer".to_string() } else if ctx.lost { format!("lost:{}", ctx.cause()) } else { ctx.cause() }),
                                "a header of the proven chain is not fetched although honest peers keep serving".into(),
                                format!("# block {} status {:?}", n, ctx.statuses.get(&h)),
                            ));
                        } else {
                            rep.count_class("liveness:header-fetched");
                        }
                    }
                    Some(_) => {}
                    None => {
                        if last == "fetched" && !ctx.on_any_chain(&h) {
                            out.violations.push((format!("C02|fetched-unknown-header|{}", ctx.cause()), "a header that is on no chain is reported fetched".into(), String::new()));
                        }
                    }
                }
            }
            for t in ctx.asked_t.clone() {
                let last = ctx.statuses.get(&t).and_then(|v| v.last().cloned()).unwrap_or_default();
                match ctx.chain().tx_location(&t) {
                    Some((n, _)) if n + 1 < tip => {
                        if last != "fetched" {
                            out.violations.push((
                                format!("C16|never-fetched|{}", if ctx.lost && ctx.rejected_with_request { "lost:rejected-answer".to_string() } else if ctx.lost { format!("lost:{}", ctx.cause()) } else { ctx.cause() }),
                                "a transaction of the proven chain is not fetched although honest peers keep serving".into(),
                                format!("# block {} status {:?}", n, ctx.statuses.get(&t)),
                            ));
                        } else {
                            rep.count_class("liveness:tx-fetched");
                        }
                    }
                    _ => {}
                }
            }
            for e in ctx.refused.clone() {
                out.violations.push((
                    "C16|request-refused|last-hash-among-block-hashes".into(),
                    "the client asks for a proof of the last state's own block: an honest server refuses the request as malformed (and bans the client); the fetch is never served".into(),
                    format!("# {}", e),
                ));
            }
        }
        if ctx.aborted.as_ref().map(|m| m.contains("long fork detected")).unwrap_or(false) {
            rep.count_class("abort:long-fork");
        } else if let Some(msg) = &ctx.aborted {
            out.violations.push((format!("{}|abort|{}", prop, super::c14::panic_class(msg)), "the client aborts".into(), format!("# panic: {}", msg)));
        }
        if ctx.stale_after_fork {
            rep.count_class("c04:index-entry-of-the-other-branch");
        }
        if ctx.passed_matching || ctx.status_changed {
            rep.nontrivial.insert(fnv(&format!("{}:{}", seed, len)));
        }
        if hi % 9 == 0 {
            rep.sample(&format!("history-seed {} len {}: {}; steps {:?}", seed, len, desc, steps_done));
        }
        if debug {
            eprintln!("seed {} len {}: {} ; bans {:?} ; errors {:?} ; statuses {:?}", seed, len, desc, ctx.node.bans, ctx.node.server_errors.len(), ctx.statuses.values().collect::<Vec<_>>());
            eprintln!("   steps {:?}", steps_done);
            if let Some(m) = &ctx.aborted {
                eprintln!("   aborted: {}", m.chars().take(120).collect::<String>());
            }
        }
        let mut seen = BTreeSet::new();
        for (sig, what, detail) in out.violations {
            if !seen.insert(sig.clone()) {
                continue;
            }
            if let Ok(f) = std::env::var("C02_DUMP_SEEDS") {
                use std::io::Write;
                if let Ok(mut fh) = std::fs::OpenOptions::new().create(true).append(true).open(f) {
                    let _ = writeln!(fh, "{} history-seed {} len {}", sig, seed, len);
                }
            }
            if sig.starts_with(&format!("{}|", prop)) {
                rep.violate(&sig, &what, vec![format!("history-seed {} len {}", seed, len), format!("# {}; steps {:?}", desc, steps_done), detail]);
            } else {
                rep.count_class(&format!("other-property:{}", sig));
            }
        }
    }
    ckb_systemtime::faketime().disable_faketime();
    let answers = run_model(opts, "proofs", &sink.lines);
    let mut bad = BTreeSet::new();
    for (i, a) in answers.iter().enumerate() {
        if sink.impls[i].is_empty() {
            if a != "ok" && bad.insert(sink.owner[i]) {
                rep.disagree(&format!("{}  [history-seed {} len {}]", sink.lines[i], sink.owner[i].0, sink.owner[i].1), "ok", a);
            }
            continue;
        }
        if *a == sink.impls[i] {
            rep.traces_validated += 1;
        } else if bad.insert(sink.owner[i]) {
            rep.disagree(&format!("{}  [history-seed {} len {}]", sink.lines[i], sink.owner[i].0, sink.owner[i].1), &sink.impls[i], a);
        }
    }
    rep
}
